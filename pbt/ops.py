"""
Operation-call recipes for WBEMConnection (shared by C02, C03, C04, C19).

An op call is plain data: {'op': name, 'args': {argname: argrecipe}} where an
argrecipe is a plain value (None, bool, int, str, list/tuple of str) or one
of the recipes of strategies.py ({'k': 'ipath'|'cpath'|'inst'|'class'|
'qualdecl'...}) or ('tuple', [...]) for PropertyList tuples, and for
InvokeMethod ``Params`` a list of ('tuple', name, (type, is_array, value)) /
('cimparam', param-recipe) and ``kwparams`` a list of (name, (type, is_array,
value)).
"""

from hypothesis import strategies as st

import pywbem
from pywbem import CIMParameter

from . import strategies as S

# argument kinds per operation: (argname, kind)
# kinds: cn (class name: str | cpath), cn_opt, iname (ipath), oname (cn or
# ipath), ns, bool, plist, str_opt, str_req, inst_new, inst_mod, cls,
# qdecl, u32, ctx, maxobj_open, maxobj_pull, maxobj_iter, params
OPS = {
    'EnumerateInstances': [('ClassName', 'cn'), ('namespace', 'ns'),
                           ('LocalOnly', 'bool'), ('DeepInheritance', 'bool'),
                           ('IncludeQualifiers', 'bool'),
                           ('IncludeClassOrigin', 'bool'),
                           ('PropertyList', 'plist')],
    'EnumerateInstanceNames': [('ClassName', 'cn'), ('namespace', 'ns')],
    'GetInstance': [('InstanceName', 'iname'), ('LocalOnly', 'bool'),
                    ('IncludeQualifiers', 'bool'),
                    ('IncludeClassOrigin', 'bool'), ('PropertyList', 'plist')],
    'ModifyInstance': [('ModifiedInstance', 'inst_mod'),
                       ('IncludeQualifiers', 'bool'),
                       ('PropertyList', 'plist')],
    'CreateInstance': [('NewInstance', 'inst_new'), ('namespace', 'ns')],
    'DeleteInstance': [('InstanceName', 'iname')],
    'Associators': [('ObjectName', 'oname'), ('AssocClass', 'cn_opt'),
                    ('ResultClass', 'cn_opt'), ('Role', 'str_opt'),
                    ('ResultRole', 'str_opt'), ('IncludeQualifiers', 'bool'),
                    ('IncludeClassOrigin', 'bool'),
                    ('PropertyList', 'plist')],
    'AssociatorNames': [('ObjectName', 'oname'), ('AssocClass', 'cn_opt'),
                        ('ResultClass', 'cn_opt'), ('Role', 'str_opt'),
                        ('ResultRole', 'str_opt')],
    'References': [('ObjectName', 'oname'), ('ResultClass', 'cn_opt'),
                   ('Role', 'str_opt'), ('IncludeQualifiers', 'bool'),
                   ('IncludeClassOrigin', 'bool'), ('PropertyList', 'plist')],
    'ReferenceNames': [('ObjectName', 'oname'), ('ResultClass', 'cn_opt'),
                       ('Role', 'str_opt')],
    'InvokeMethod': [('MethodName', 'name'), ('ObjectName', 'oname'),
                     ('Params', 'params')],
    'ExecQuery': [('QueryLanguage', 'str_req'), ('Query', 'str_req'),
                  ('namespace', 'ns')],
    'OpenEnumerateInstances': [
        ('ClassName', 'cn'), ('namespace', 'ns'), ('DeepInheritance', 'bool'),
        ('IncludeClassOrigin', 'bool'), ('PropertyList', 'plist'),
        ('FilterQueryLanguage', 'str_opt'), ('FilterQuery', 'str_opt'),
        ('OperationTimeout', 'u32'), ('ContinueOnError', 'bool'),
        ('MaxObjectCount', 'maxobj_open')],
    'OpenEnumerateInstancePaths': [
        ('ClassName', 'cn'), ('namespace', 'ns'),
        ('FilterQueryLanguage', 'str_opt'), ('FilterQuery', 'str_opt'),
        ('OperationTimeout', 'u32'), ('ContinueOnError', 'bool'),
        ('MaxObjectCount', 'maxobj_open')],
    'OpenAssociatorInstances': [
        ('InstanceName', 'iname'), ('AssocClass', 'cn_opt'),
        ('ResultClass', 'cn_opt'), ('Role', 'str_opt'),
        ('ResultRole', 'str_opt'), ('IncludeClassOrigin', 'bool'),
        ('PropertyList', 'plist'), ('FilterQueryLanguage', 'str_opt'),
        ('FilterQuery', 'str_opt'), ('OperationTimeout', 'u32'),
        ('ContinueOnError', 'bool'), ('MaxObjectCount', 'maxobj_open')],
    'OpenAssociatorInstancePaths': [
        ('InstanceName', 'iname'), ('AssocClass', 'cn_opt'),
        ('ResultClass', 'cn_opt'), ('Role', 'str_opt'),
        ('ResultRole', 'str_opt'), ('FilterQueryLanguage', 'str_opt'),
        ('FilterQuery', 'str_opt'), ('OperationTimeout', 'u32'),
        ('ContinueOnError', 'bool'), ('MaxObjectCount', 'maxobj_open')],
    'OpenReferenceInstances': [
        ('InstanceName', 'iname'), ('ResultClass', 'cn_opt'),
        ('Role', 'str_opt'), ('IncludeClassOrigin', 'bool'),
        ('PropertyList', 'plist'), ('FilterQueryLanguage', 'str_opt'),
        ('FilterQuery', 'str_opt'), ('OperationTimeout', 'u32'),
        ('ContinueOnError', 'bool'), ('MaxObjectCount', 'maxobj_open')],
    'OpenReferenceInstancePaths': [
        ('InstanceName', 'iname'), ('ResultClass', 'cn_opt'),
        ('Role', 'str_opt'), ('FilterQueryLanguage', 'str_opt'),
        ('FilterQuery', 'str_opt'), ('OperationTimeout', 'u32'),
        ('ContinueOnError', 'bool'), ('MaxObjectCount', 'maxobj_open')],
    'OpenQueryInstances': [
        ('FilterQueryLanguage', 'str_req'), ('FilterQuery', 'str_req'),
        ('namespace', 'ns'), ('ReturnQueryResultClass', 'bool'),
        ('OperationTimeout', 'u32'), ('ContinueOnError', 'bool'),
        ('MaxObjectCount', 'maxobj_open')],
    'PullInstancesWithPath': [('context', 'ctx'),
                              ('MaxObjectCount', 'maxobj_pull')],
    'PullInstancePaths': [('context', 'ctx'),
                          ('MaxObjectCount', 'maxobj_pull')],
    'PullInstances': [('context', 'ctx'), ('MaxObjectCount', 'maxobj_pull')],
    'CloseEnumeration': [('context', 'ctx')],
    'EnumerateClasses': [('namespace', 'ns'), ('ClassName', 'cn_opt'),
                         ('DeepInheritance', 'bool'), ('LocalOnly', 'bool'),
                         ('IncludeQualifiers', 'bool'),
                         ('IncludeClassOrigin', 'bool')],
    'EnumerateClassNames': [('namespace', 'ns'), ('ClassName', 'cn_opt'),
                            ('DeepInheritance', 'bool')],
    'GetClass': [('ClassName', 'cn'), ('namespace', 'ns'),
                 ('LocalOnly', 'bool'), ('IncludeQualifiers', 'bool'),
                 ('IncludeClassOrigin', 'bool'), ('PropertyList', 'plist')],
    'ModifyClass': [('ModifiedClass', 'cls'), ('namespace', 'ns')],
    'CreateClass': [('NewClass', 'cls'), ('namespace', 'ns')],
    'DeleteClass': [('ClassName', 'cn'), ('namespace', 'ns')],
    'EnumerateQualifiers': [('namespace', 'ns')],
    'GetQualifier': [('QualifierName', 'name'), ('namespace', 'ns')],
    'SetQualifier': [('QualifierDeclaration', 'qdecl'), ('namespace', 'ns')],
    'DeleteQualifier': [('QualifierName', 'name'), ('namespace', 'ns')],
    'ExportIndication': [('NewIndication', 'inst_new')],
}
ITER_OPS = {
    'IterEnumerateInstances': 'OpenEnumerateInstances',
    'IterEnumerateInstancePaths': 'OpenEnumerateInstancePaths',
    'IterAssociatorInstances': 'OpenAssociatorInstances',
    'IterAssociatorInstancePaths': 'OpenAssociatorInstancePaths',
    'IterReferenceInstances': 'OpenReferenceInstances',
    'IterReferenceInstancePaths': 'OpenReferenceInstancePaths',
    'IterQueryInstances': 'OpenQueryInstances',
}
for _it, _op in ITER_OPS.items():
    spec = [(n, ('maxobj_iter' if k == 'maxobj_open' else k))
            for n, k in OPS[_op]]
    if _it in ('IterEnumerateInstances', 'IterAssociatorInstances',
               'IterReferenceInstances'):
        # the Iter variants also take the parameters of the traditional op
        extra = [('IncludeQualifiers', 'bool')]
        if _it == 'IterEnumerateInstances':
            extra.append(('LocalOnly', 'bool'))
        spec = spec + extra
    OPS[_it] = spec

ALL_OPS = sorted(OPS)
PLAIN_OPS = [o for o in ALL_OPS if not o.startswith('Iter')]

_NS_ARG = st.sampled_from([None, None, 'root/cimv2', 'interop', 'root/cimv2/',
                           '/root/cimv2', '//root/Cimv2//', 'a/b/c', 'root'])
_U32 = st.sampled_from([None, None, 0, 1, 10, 4294967295])
_MAXOBJ_OPEN = st.sampled_from([None, 0, 1, 2, 10, 100, 4294967295])
_MAXOBJ_PULL = st.sampled_from([0, 1, 2, 10, 100, 4294967295])
_MAXOBJ_ITER = st.sampled_from([1, 2, 10, 100, 1000])
_ROLE = st.one_of(st.none(), st.none(), S._NAME)
_QUERY = st.sampled_from(['WQL', 'DMTF:CQL', 'DMTF:FQL', 'x'])
_QUERYSTR = st.sampled_from([
    'SELECT * FROM CIM_Foo', "SELECT A FROM CIM_Foo WHERE B < 3 AND C = 'x&y'",
    'p > 1', "Name = \"<a>\"", ''])
_CTXSTR = st.sampled_from(['ctx1', '500000', 'a<b>&c', 'äöü', '', ' '])


def g_call(draw, op, strings=None, simple_paths=False):
    "draw the args of one operation call"
    args = {}
    kt = ['string', 'boolean', 'uint8', 'sint32', 'uint64'] if simple_paths \
        else None

    def cn():
        k = draw(S._I10)
        if k < 5:
            return draw(S._CLASSNAME)
        return S._g_cpath(draw)

    def iname():
        return S._g_ipath(draw, depth=0 if simple_paths else 1,
                          key_types=kt, strings=strings)
    for name, kind in OPS[op]:
        if kind == 'cn':
            v = cn()
        elif kind == 'cn_opt':
            v = cn() if draw(S._B) else None
        elif kind == 'iname':
            v = iname()
        elif kind == 'oname':
            v = iname() if draw(S._B) else cn()
        elif kind == 'ns':
            v = draw(_NS_ARG)
        elif kind == 'bool':
            v = draw(S._TRI)
        elif kind == 'plist':
            k = draw(S._I10)
            if k < 4:
                v = None
            elif k == 4:
                v = draw(S._NAME)
            elif k == 5:
                v = []
            else:
                names = [draw(S._NAME) for _ in range(1 + k % 3)]
                v = names if k % 2 else ('tuple', names)
        elif kind == 'str_opt':
            if name in ('Role', 'ResultRole'):
                v = draw(_ROLE)
            elif name == 'FilterQueryLanguage':
                v = draw(_QUERY) if draw(S._I10) < 3 else None
            else:
                v = draw(_QUERYSTR) if draw(S._I10) < 3 else None
        elif kind == 'str_req':
            v = draw(_QUERY) if 'Language' in name else draw(_QUERYSTR)
            if strings is not None and 'Language' not in name and \
                    draw(S._I10) < 5:
                v = draw(strings)
        elif kind == 'name':
            v = draw(S._NAME)
        elif kind == 'inst_new':
            v = S._g_instance(draw, depth=1, strings=strings)
        elif kind == 'inst_mod':
            v = S._g_instance(draw, depth=1, with_path=True, strings=strings)
        elif kind == 'cls':
            v = S._g_class(draw, depth=1, strings=strings)
        elif kind == 'qdecl':
            v = S._g_qualdecl(draw, strings=strings)
        elif kind == 'u32':
            v = draw(_U32)
        elif kind == 'maxobj_open':
            v = draw(_MAXOBJ_OPEN)
        elif kind == 'maxobj_pull':
            v = draw(_MAXOBJ_PULL)
        elif kind == 'maxobj_iter':
            v = draw(_MAXOBJ_ITER)
        elif kind == 'ctx':
            s = draw(strings) if strings is not None and draw(S._B) \
                else draw(_CTXSTR)
            v = ('ctx', s, draw(S._NAMESPACE))
        elif kind == 'params':
            n = draw(S._I10) % 4
            plist = []
            for i in range(n):
                tv = g_param_value(draw, strings)
                pname = 'P%d_%s' % (i, draw(S._NAME))
                if draw(S._B):
                    plist.append(('tuple', pname, tv))
                else:
                    plist.append(('cimparam', pname, tv))
            v = plist
            kw = []
            for i in range(draw(S._I10) % 3):
                kw.append(('K%d_%s' % (i, draw(S._NAME)),
                           g_param_value(draw, strings)))
            args['kwparams'] = kw
        else:
            raise ValueError(kind)
        args[name] = v
    return {'op': op, 'args': args}


def g_param_value(draw, strings=None):
    """
    (type, is_array, value, embedded) for a method parameter; embedded objects
    are offered as type string with embedded='instance'/'object'.
    """
    k = draw(S._I10)
    if k == 0:
        n = 1 + draw(S._B)
        kind = 'instance' if draw(S._B) else 'object'
        vals = [S._g_embedded_value(draw, 1, kind, strings) for _ in range(n)]
        if draw(S._B):
            return ('string', True, vals, kind)
        return ('string', False, vals[0], kind)
    t, is_arr, v = S._g_typed_value(draw, S.ALL_TYPES, strings=strings,
                                    ref_depth=1)
    return (t, is_arr, v, None)


def call_strategy(ops=None, strings=None, simple_paths=False):
    ops = list(ops or ALL_OPS)

    @st.composite
    def strat(draw):
        op = ops[draw(st.integers(0, len(ops) - 1))]
        return g_call(draw, op, strings, simple_paths)
    return strat()


# ---------------------------------------------------------------------------
# building and invoking

def build_arg(name, v):
    if isinstance(v, dict):
        return S.build(v)
    if isinstance(v, tuple) and v and v[0] == 'tuple':
        return tuple(v[1])
    if isinstance(v, tuple) and v and v[0] == 'ctx':
        return (v[1], v[2])
    return v


def build_param_value(tv):
    t, is_arr, v, emb = tv
    return S.build_value(t, v)


def _maybe_raw_datetime(pname, t, pv):
    """
    InvokeMethod accepts Python datetime/timedelta objects for parameters
    given as (name, value) tuples or keyword arguments (type inferred as
    datetime).  For parameter names of even length the CIMDateTime value of
    the recipe is handed over as the equivalent Python object (decided by
    the recipe, no randomness here).
    """
    if t != 'datetime' or len(pname) % 2:
        return pv

    def raw(x):
        if isinstance(x, pywbem.CIMDateTime):
            # only values that the Python object denotes exactly (no
            # asterisks, nothing beyond what timedelta/datetime can hold)
            py = x.timedelta if x.is_interval else x.datetime
            if py is not None and str(pywbem.CIMDateTime(py)) == str(x):
                return py
        return x
    if isinstance(pv, list):
        return [raw(x) for x in pv]
    return raw(pv)


def build_call(call):
    "returns (args list, kwargs dict) ready for getattr(conn, op)"
    kwargs = {}
    a = call['args']
    for name, v in a.items():
        if name == 'kwparams':
            continue
        if name == 'Params':
            plist = []
            for form, pname, tv in v:
                t, is_arr, val, emb = tv
                pv = S.build_value(t, val)
                if t == 'char16':
                    # the CIM type of (name, value) tuples is inferred
                    pv = [None if x is None else pywbem.Char16(x)
                          for x in pv] if isinstance(pv, list) else \
                        (None if pv is None else pywbem.Char16(pv))
                if form == 'tuple':
                    plist.append((pname, _maybe_raw_datetime(pname, t, pv)))
                else:
                    plist.append(CIMParameter(pname, t, value=pv,
                                              is_array=is_arr,
                                              embedded_object=emb))
            # Params is documented as an iterable: every third parameter list
            # (decided by the recipe) is handed over as a one-shot iterator
            if plist and sum(len(x[1]) for x in v) % 3 == 0:
                kwargs['Params'] = iter(plist)
            else:
                kwargs['Params'] = plist
            continue
        kwargs[name] = build_arg(name, v)
    for pname, tv in a.get('kwparams', []):
        kwargs[pname] = _maybe_raw_datetime(pname, tv[0],
                                            build_param_value(tv))
    return kwargs


def invoke(conn, call, consume=True, kwargs=None):
    """
    Invoke the operation; Iter... generators are consumed completely.
    Returns the result (list for generators).  With kwargs, these argument
    objects are used instead of freshly built ones (re-use of the caller's
    objects in a later call).
    """
    if kwargs is None:
        kwargs = build_call(call)
    r = getattr(conn, call['op'])(**kwargs)
    if call['op'].startswith('Iter') and consume:
        if call['op'] == 'IterQueryInstances':
            return (r.query_result_class, list(r.generator))
        return list(r)
    return r


def call_has_objects(call):
    "does the call carry a CIM object argument (more than scalars)?"
    for v in call['args'].values():
        if isinstance(v, dict):
            return True
        if isinstance(v, list) and any(isinstance(x, tuple) and len(x) == 3
                                       for x in v):
            return True
    return False
