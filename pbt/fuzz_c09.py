"""
Coverage-guided fuzzing of the MOF compiler (C09, thorough tier add-on):
atheris/libFuzzer mutates MOF text; the target compiles it with a fresh
MOFCompiler on a fresh MOFWBEMConnection and lets everything that is not a
MOFCompileError escape (= crash artifact).  Artifacts are replayed through
the 'strings' oracle of pbt/c09.py (leak signature, position checks, reuse of
the compiler after the error).

    python -m pbt.fuzz_c09 <corpus_dir> <libFuzzer options>
"""

import os
import sys

VERIF = os.path.dirname(os.path.dirname(os.path.abspath(__file__)))
REPO = os.environ.get('PYWBEM_REPO', '/repo')

DICTIONARY = [
    'class', 'instance', 'of', 'as', 'Qualifier', 'Scope', 'Flavor', 'any',
    'association', 'indication', 'property', 'reference', 'method',
    'parameter', 'schema', 'EnableOverride', 'DisableOverride', 'ToSubclass',
    'Restricted', 'Translatable', '#pragma', 'include', 'namespace', 'locale',
    'REF', 'NULL', 'true', 'false', 'uint8', 'sint8', 'uint16', 'sint16',
    'uint32', 'sint32', 'uint64', 'sint64', 'real32', 'real64', 'string',
    'char16', 'boolean', 'datetime', 'Key', 'Description', 'Association',
    'Indication', 'EmbeddedInstance', 'EmbeddedObject', 'Override', 'Values',
    'ValueMap', 'MaxLen', 'Abstract', 'Static', 'IN', 'OUT', '$', '{', '}',
    '[', ']', '(', ')', ';', ':', ',', '=', '/*', '*/', '//', '\\x', '\\"',
    "'a'", '0x7F', '101b', '1.5e3', '-', '+', '"', '[]', '[5]',
    '"20240229123015.000000+060"', '"00000001000000.000000:000"',
    'instance of ', ' REF ', '#pragma namespace ("', '#pragma include ("',
]


def text_from_bytes(data):
    return bytes(data).decode('utf-8', 'replace')


def seed_corpus(cdir):
    "repository test MOF (files up to 6 kB) + the explicit minimal inputs"
    sys.path.insert(0, VERIF)
    from pbt import c09
    os.makedirs(cdir, exist_ok=True)
    n = 0
    for name, text in sorted(c09.CORPUS.items()):
        if len(text) <= 6000:
            with open(os.path.join(cdir, 'repo_' + name), 'w',
                      encoding='utf-8') as fp:
                fp.write(text)
            n += 1
    for i, text in enumerate(c09.STRINGS_EXPLICIT):
        if len(text) <= 3000:
            with open(os.path.join(cdir, 'explicit_%02d' % i), 'w',
                      encoding='utf-8') as fp:
                fp.write(text)
            n += 1
    with open(os.path.join(cdir, 'unit'), 'w', encoding='utf-8') as fp:
        fp.write(c09.CHECK_UNIT)
    return n + 1


def main():
    sys.path.insert(0, os.path.join(VERIF, '.deps'))
    sys.path.insert(0, VERIF)
    sys.path.insert(0, REPO)
    import atheris
    with atheris.instrument_imports(include=['pywbem', 'pywbem_mock']):
        import pywbem  # noqa: F401
        from pywbem import _mof_compiler  # noqa: F401
        import pywbem_mock  # noqa: F401
    import warnings
    warnings.simplefilter('ignore')
    from pywbem import MOFCompileError
    from pbt import c09

    c09.new_compiler()      # PLY tables once

    def test_one_input(data):
        text = text_from_bytes(data)
        if '\x00' in text and len(text) > 3000:
            return
        comp = c09.new_compiler()
        try:
            comp.compile_string(text, None)
        except MOFCompileError:
            pass
        except OSError:
            # include pragmas: a file that cannot be read (relative to the
            # scratch working directory)
            pass
    atheris.Setup(sys.argv, test_one_input)
    atheris.Fuzz()


if __name__ == '__main__':
    main()
