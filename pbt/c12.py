"""
C12 - Class inheritance is resolved correctly and class queries mirror the
hierarchy.  DESIGN.md 4.12.

A *forest recipe* (plain data) holds generated qualifier declarations with
every flavor combination, a class forest (depth <= 5, fan-out <= 4) whose
classes declare new and overriding properties / methods / parameters with
class- and element-level qualifiers, a creation order, and instances.  A small
reference resolver (``Model``) implements the statement; the sub-checks build
the forest in a FakedWBEMConnection through CreateClass / MOF compilation /
ModifyClass and compare what the class and instance queries return.

Qualifier values may state flavors of their own (CIMQualifier(...,
tosubclass=, overridable=) / MOF ``Q("x") : Restricted DisableOverride``),
more or less restrictive than the declaration.  The model keeps the effective
flavors per *value* (stated, else the declaration's) and lets them decide
propagation and the DisableOverride check further down; the stated flavors
must come back on the declaring class; a forest compiled from MOF is also
created through CreateClass and the two resolved forests must be equal
(``cmp_with_createclass``).

Stability (``Watch``): the full view of every class is remembered as it was
first returned after the class was created / last modified (``canon``: all
public attributes, also the ones the model does not predict such as
propagated and the flavors of qualifiers).  After every CreateClass /
ModifyClass / DeleteClass / CreateInstance step of a forest build and of the
history machine, accepted or rejected, and after every class of a forest that
is compiled from MOF class by class, every class the step did not name must
still have that view.

Recipe forms
  qdecl:  {'name', 'type', 'is_array', 'tosub': True|False|None,
           'ovr': True|False|None, 'scopes': 'any' | [scope names],
           'partial': bool}       (partial: scopes dict holds only true items)
  qual:   (name, type, value)     value: str|int|bool|None|list
          (name, type, value, tosub, ovr)   a value that states flavors of
           its own: tosub / ovr True|False|None as for CIMQualifier(...,
           tosubclass=, overridable=) and the MOF form 'Q("x") : Restricted
           DisableOverride'; the short form states none
  class:  {'name', 'super': spelled name|None, 'assoc': bool,
           'quals': [qual], 'props': [prop], 'methods': [method]}
  prop:   {'name', 'type', 'is_array', 'refclass', 'value', 'quals'}
  method: {'name', 'rtype', 'quals', 'params': [param]}
  param:  {'name', 'type', 'is_array', 'refclass', 'quals'}
  forest: {'via': 'create'|'mof'|'quiet' (how it is built; quiet = built
           through CreateClass as a fixture, creation findings only counted),
           'qdecls': [qdecl], 'classes': [class]  (creation order),
           'premature': index|None, 'instances': [(class name, key)],
           'mask': bits for the request spellings, 'plists': [...],
           'pick': int used to choose classes/flag combinations}
"""

import copy
import itertools

from hypothesis import strategies as st

import pywbem
import pywbem_mock
from pywbem import (CIMClass, CIMProperty, CIMMethod, CIMParameter,
                    CIMQualifier, CIMQualifierDeclaration, CIMInstance,
                    CIMError, Uint32, Uint8, Sint64, Real32)

from .runner import Sub
from . import strategies as S

PROPERTY = 'C12'
RULE = (
    "A case is a generated class forest (1..10 classes, depth <= 5, fan-out "
    "<= 4, optional association classes with subclasses) over 4..7 "
    "generated qualifier declarations covering ToSubclass/Restricted x "
    "Enable/DisableOverride (flavors given as True/False/None) with 'any' "
    "or specific scopes, plus Key, Override, Description, Association, In; "
    "every class draws new and overriding (Override qualifier, optionally "
    "spelled in another case) properties, methods and parameters and "
    "class/element/parameter level qualifiers that repeat, change or omit "
    "the inherited ones; 3 of 10 qualifier values state flavors of their "
    "own (tosubclass/overridable True/False/None on the CIMQualifier, a "
    "flavor list in MOF), restrictive ones more often, independent of the "
    "declaration (classes vflavor:*: what is stated against the "
    "declaration, and whether a subclass element sits below such a value). "
    " resolve: the forest is created in a drawn "
    "topological order (optionally with one premature CreateClass before "
    "the superclass exists) through CreateClass, or through one "
    "compile_mof_string() of hand-assembled MOF, and the full GetClass view "
    "of every class is compared with a reference resolver; a forest that "
    "was compiled from MOF is created again through CreateClass and the "
    "two resolved forests are compared (differential:forests-compared); "
    "every other MOF forest is compiled class by class (mof:class-by-"
    "class).  After every step of a build and of a history the full views "
    "of all classes the step did not name are compared with the views "
    "first returned for them (stability:views-compared-with-first-view "
    "counts the comparisons).  "
    "flags: all 27 "
    "LocalOnly x IncludeQualifiers x IncludeClassOrigin combinations x 5 "
    "property lists for every class.  enum: EnumerateClassNames/"
    "EnumerateClasses for every class and None x DeepInheritance, "
    "EnumerateInstanceNames/EnumerateInstances for every class.  delete: up "
    "to 3 DeleteClass calls per forest.  history: CreateClass / ModifyClass "
    "/ DeleteClass / CreateInstance steps (also invalid ones) with all "
    "views and enumerations compared after every step.  Requests use case "
    "variants of the names.  Non-trivial = forest of depth >= 2 that "
    "contains an override, or uses a Restricted or DisableOverride "
    "qualifier, or a value stating a flavor other than the declaration's, "
    "or whose names differ in case between declaration and use "
    "(delete: a subtree with more than one class was removed and other "
    "classes remained).  Distinct = distinct recipe / step list.")
ASSUMPTIONS = [
    "the flavors that apply to a qualifier value are the ones the value "
    "states itself (CIMQualifier.tosubclass/overridable: 'If not None, "
    "specifies whether the qualifier value propagates to subclasses / is "
    "overridable in subclasses'; in MOF the flavor list after the value), "
    "whether more or less restrictive than the declaration; a flavor the "
    "value does not state comes from the declaration; a declaration flavor "
    "of None means the DSP0004 default (ToSubclass, EnableOverride), as "
    "_init_qualifier documents.  Only tosubclass and overridable are "
    "generated (the flavors the statement quantifies over); Key, Override, "
    "Association and the In added to new parameters never state flavors",
    "a stated flavor is exposed unchanged on the class that declares the "
    "value (GetClass exposes 'exactly the qualifiers'); flavors that were "
    "not stated and the propagated flag of qualifier objects are not "
    "compared with the model",
    "not asserted (counted as unasserted:*): a subclass repeats an "
    "inherited DisableOverride qualifier with the same value but with "
    "other effective flavors (stated on the new value, or the "
    "declaration's where the inherited value had stated its own) - "
    "neither the documentation nor the statement say whether that is an "
    "override, so the class may be accepted or rejected and the presence, "
    "value and enforcement of that qualifier below it are not compared",
    "stability: CreateClass, ModifyClass (of a leaf), DeleteClass, "
    "CreateInstance and MOF compilation of a class - accepted or rejected "
    "- leave the full view of every other class as it was when first "
    "returned, in every attribute (the statement ties the view of a class "
    "to the class and its ancestors only; ModifyClass is generated for "
    "leaf classes, DeleteClass removes the subtree, so no remaining class "
    "depends on the class operated on); a rejected operation leaves the "
    "class it names unchanged as well",
    "differential MOF/CreateClass: a class recipe means the same whether "
    "it is written as MOF text or as CIMClass object, so the full views "
    "(CIMClass equality, all attributes incl. flavors and propagated) "
    "must be equal; compared only when CreateClass accepts every class of "
    "the forest that the MOF compiler accepted",
    "a redeclared property/method carries the Override qualifier naming the "
    "overridden element and keeps its type/array-ness/return type (the mock "
    "documents that it rejects anything else); overriding methods keep the "
    "parameter names and types",
    "qualifiers are used only in a scope their declaration allows and with "
    "the declared type",
    "for an overridden element the propagated flag, and its presence under "
    "LocalOnly=True, are not asserted (statement and docstrings are "
    "silent); a Restricted+DisableOverride qualifier that an overriding "
    "element specifies again may be accepted or rejected",
    "request defaults as documented for the mock: LocalOnly None = True, "
    "IncludeQualifiers None = True, IncludeClassOrigin None = False, "
    "DeepInheritance None = False",
    "ModifyClass is only required to succeed on leaf classes without "
    "instances; otherwise a CIMError with unchanged state is required "
    "(documented by the mock's ModifyClass)",
    "names are compared case-insensitively",
]

NS = 'root/cimv2'
SCOPE_KEYS = ['CLASS', 'ASSOCIATION', 'INDICATION', 'PROPERTY', 'REFERENCE',
              'METHOD', 'PARAMETER', 'ANY']

STD_QDECLS = [
    dict(name='Key', type='boolean', is_array=False, tosub=True, ovr=False,
         scopes=['PROPERTY', 'REFERENCE'], partial=False),
    dict(name='Override', type='string', is_array=False, tosub=False,
         ovr=True, scopes=['PROPERTY', 'REFERENCE', 'METHOD'], partial=False),
    dict(name='Association', type='boolean', is_array=False, tosub=True,
         ovr=False, scopes=['ASSOCIATION'], partial=False),
    dict(name='Description', type='string', is_array=False, tosub=True,
         ovr=True, scopes='any', partial=False),
    dict(name='In', type='boolean', is_array=False, tosub=True, ovr=False,
         scopes=['PARAMETER'], partial=False),
]

PROP_POOL = ['Pa', 'Pb', 'Pc', 'Pd', 'Pe']
METH_POOL = ['Ma', 'Mb', 'Mc']
PARAM_POOL = ['Xa', 'Xb', 'Xc']
PROP_TYPES = ['string', 'uint8', 'uint32', 'sint64', 'boolean', 'datetime',
              'real32']
KEYNAME = 'InstanceID'
FLAGS = [None, True, False]


def lc(s):
    return s.lower()


# ---------------------------------------------------------------------------
# building pywbem objects from recipes

def b_value(type_, v):
    if isinstance(v, list):
        return [b_value(type_, x) for x in v]
    if v is None:
        return None
    if type_ == 'uint32':
        return Uint32(v)
    if type_ == 'uint8':
        return Uint8(v)
    if type_ == 'sint64':
        return Sint64(v)
    if type_ == 'real32':
        return Real32(v)
    return v


def qparts(q):
    "-> (name, type, value, tosub, ovr) of a qual recipe of either form"
    if len(q) == 3:
        return q[0], q[1], q[2], None, None
    name, type_, v, ts, ov = q
    return name, type_, v, ts, ov


def b_qual(q):
    name, type_, v, ts, ov = qparts(q)
    if ts is None and ov is None:
        return CIMQualifier(name, b_value(type_, v), type=type_)
    return CIMQualifier(name, b_value(type_, v), type=type_, tosubclass=ts,
                        overridable=ov)


def b_qdecl(d):
    if d['scopes'] == 'any':
        on = ['ANY']
    else:
        on = list(d['scopes'])
    if d['partial']:
        scopes = {s: True for s in on}
    else:
        scopes = {s: (s in on) for s in SCOPE_KEYS}
    return CIMQualifierDeclaration(
        d['name'], d['type'], value=None, is_array=d['is_array'],
        scopes=scopes, overridable=d['ovr'], tosubclass=d['tosub'])


def b_param(p):
    return CIMParameter(p['name'], p['type'], is_array=p['is_array'],
                        reference_class=p.get('refclass'),
                        qualifiers=[b_qual(q) for q in p['quals']])


def b_class(spec):
    props = []
    for p in spec['props']:
        props.append(CIMProperty(
            p['name'], b_value(p['type'], p['value']), type=p['type'],
            is_array=p['is_array'], reference_class=p['refclass'],
            qualifiers=[b_qual(q) for q in p['quals']]))
    meths = []
    for m in spec['methods']:
        meths.append(CIMMethod(
            m['name'], return_type=m['rtype'],
            parameters=[b_param(x) for x in m['params']],
            qualifiers=[b_qual(q) for q in m['quals']]))
    return CIMClass(spec['name'], properties=props, methods=meths,
                    superclass=spec['super'],
                    qualifiers=[b_qual(q) for q in spec['quals']])


def new_conn(qdecls):
    conn = pywbem_mock.FakedWBEMConnection(default_namespace=NS)
    for d in STD_QDECLS + list(qdecls):
        conn.SetQualifier(b_qdecl(d))
    return conn


# ---------------------------------------------------------------------------
# MOF text, assembled by hand (independent of tomof())

def mof_lit(type_, v):
    if v is None:
        return 'NULL'
    if type_ == 'boolean':
        return 'true' if v else 'false'
    if type_ == 'string':
        return '"%s"' % v.replace('\\', '\\\\').replace('"', '\\"')
    return str(v)


def mof_flavors(name, ts, ov):
    "flavor list of a qualifier value ('' if it states none)"
    fl = []
    if ov is not None:
        fl.append('EnableOverride' if ov else 'DisableOverride')
    if ts is not None:
        fl.append('ToSubclass' if ts else 'Restricted')
    if not fl:
        return ''
    if len(name) % 3 == 0:
        fl.reverse()            # the order of the flavors is free
    if len(name) % 2 == 0:
        fl = [f.lower() for f in fl]        # keywords are case insensitive
    return ' : ' + ' '.join(fl)


def mof_qual(q):
    name, type_, v, ts, ov = qparts(q)
    fl = mof_flavors(name, ts, ov)
    if isinstance(v, list):
        return '%s{%s}%s' % (name, ', '.join(mof_lit(type_, x) for x in v),
                             fl)
    if type_ == 'boolean' and v is True and len(name) % 2:
        return name + fl     # the implied-true spelling
    return '%s(%s)%s' % (name, mof_lit(type_, v), fl)


def mof_quals(qs):
    return '[%s] ' % ', '.join(mof_qual(q) for q in qs) if qs else ''


def mof_qdecl(d):
    scopes = 'any' if d['scopes'] == 'any' else \
        ', '.join(s.lower() for s in d['scopes'])
    fl = []
    if d['ovr'] is not None:
        fl.append('EnableOverride' if d['ovr'] else 'DisableOverride')
    if d['tosub'] is not None:
        fl.append('ToSubclass' if d['tosub'] else 'Restricted')
    text = 'Qualifier %s : %s%s, Scope(%s)' % (
        d['name'], d['type'], '[]' if d['is_array'] else ' = null', scopes)
    if d['type'] == 'boolean' and not d['is_array']:
        text = text.replace(' = null', ' = false')
    if fl:
        text += ', Flavor(%s)' % ', '.join(fl)
    return text + ';\n'


def mof_typed(type_, name, is_array, refclass):
    t = '%s REF' % refclass if type_ == 'reference' else type_
    return '%s %s%s' % (t, name, '[]' if is_array else '')


def mof_class(spec):
    out = [mof_quals(spec['quals']).strip()] if spec['quals'] else []
    out.append('class %s%s {' % (spec['name'], ' : ' + spec['super']
                                 if spec['super'] else ''))
    for p in spec['props']:
        dflt = ''
        if p['value'] is not None:
            dflt = ' = ' + mof_lit(p['type'], p['value'])
        out.append('  %s%s%s;' % (mof_quals(p['quals']), mof_typed(
            p['type'], p['name'], p['is_array'], p['refclass']), dflt))
    for m in spec['methods']:
        params = ', '.join(
            mof_quals(x['quals']) + mof_typed(x['type'], x['name'],
                                              x['is_array'],
                                              x.get('refclass'))
            for x in m['params'])
        out.append('  %s%s %s(%s);' % (mof_quals(m['quals']), m['rtype'],
                                       m['name'], params))
    out.append('};\n')
    return '\n'.join(out)


# ---------------------------------------------------------------------------
# reference model

class Model:
    """
    Reference resolver.  classes: lower-cased name -> class recipe, in
    creation order; instances: list of (lower-cased class name, key).
    """

    def __init__(self, qdecls):
        self.qd = {lc(d['name']): d for d in STD_QDECLS + list(qdecls)}
        self.classes = {}
        self.instances = []
        self._views = {}
        self.watch = None       # Watch: first views of the classes

    # -- flavors
    def tosub(self, qname):
        "ToSubclass per the declaration"
        return self.qd[lc(qname)]['tosub'] is not False

    def ovr(self, qname):
        "EnableOverride per the declaration"
        return self.qd[lc(qname)]['ovr'] is not False

    def own_qual(self, q):
        """
        Expected qualifier for a qual recipe.  'ts' / 'ov': the effective
        flavors - the flavor the value states itself (CIMQualifier.tosubclass
        / .overridable: "If not None, specifies whether the qualifier value
        propagates to subclasses / is overridable in subclasses"), else the
        one of the declaration (else the DSP0004 default); 'xts' / 'xov':
        the flavors as the value states them.  Inherited copies keep all
        four.
        """
        name, type_, v, ts, ov = qparts(q)
        return dict(name=name, type=type_, value=v, src='own',
                    ts=self.tosub(name) if ts is None else ts,
                    ov=self.ovr(name) if ov is None else ov,
                    xts=ts, xov=ov)

    # -- hierarchy
    def add(self, spec):
        self.classes[lc(spec['name'])] = spec
        self._views = {}

    def replace(self, spec):
        self.classes[lc(spec['name'])] = spec
        self._views = {}

    def superof(self, ln):
        s = self.classes[ln]['super']
        return lc(s) if s else None

    def children(self, ln):
        "ln None: roots"
        return [k for k in self.classes if self.superof(k) == ln]

    def subtree(self, ln):
        "strict descendants (ln None: all classes)"
        out = []
        for k in self.children(ln):
            out.append(k)
            out.extend(self.subtree(k))
        return out

    def depth(self, ln):
        d = 1
        while self.superof(ln) is not None:
            ln = self.superof(ln)
            d += 1
        return d

    def remove(self, ln):
        gone = set(self.subtree(ln)) | {ln}
        for k in gone:
            del self.classes[k]
        self.instances = [i for i in self.instances if i[0] not in gone]
        self._views = {}
        return gone

    def has_key(self, ln):
        return KEYNAME.lower() in self.view(ln)['props']

    # -- qualifier inheritance
    def _merge_quals(self, own, inherited, param_over=False, ghost=()):
        """
        own: list of qual recipes; inherited: dict of the overridden element
        (expected view).  Returns (quals, violations, unasserted).
        A violation is (qualifier name, restated, explicit): explicit = the
        DisableOverride flavor was stated by the inherited value itself.
        The flavors that count are the effective ones of the inherited
        *value* ('ts' / 'ov', see own_qual), not those of the declaration.
        Flags kept on expected qualifiers for the classification of
        failures: 'restated' (an ancestor repeated this DisableOverride
        qualifier with the same value), 'param_over' (inherited by a
        parameter of an overriding method), 'free' (see below).
        """
        out = {}
        viol = []
        loose = False
        for q in own:
            name = q[0]
            out[lc(name)] = self.own_qual(q)
            if lc(name) in ghost:
                # the server still shows this Restricted qualifier on the
                # overridden element, so for the server it is restated
                out[lc(name)]['restated'] = True
        for lq, q in (inherited or {}).items():
            if q.get('free'):
                # the flavors of the inherited value are not determined
                # (see below): neither is what follows from them
                if lq in out:
                    out[lq]['free'] = True
                    loose = True
                else:
                    out[lq] = dict(q, src='inherited')
                continue
            if not q['ts']:
                if lq in out:
                    out[lq]['restated'] = True
                    if not q['ov']:
                        loose = True  # Restricted + DisableOverride, restated
                continue
            if lq in out:
                if not q['ov']:
                    if out[lq]['value'] != q['value'] or \
                            out[lq]['type'] != q['type']:
                        viol.append((q['name'], bool(q.get('restated')),
                                     q['xov'] is False))
                    else:
                        if q.get('restated'):
                            # restated again below a class that restated it
                            self._restated_again = True
                        if (out[lq]['ts'], out[lq]['ov']) != (q['ts'],
                                                              q['ov']):
                            # A DisableOverride qualifier is repeated with
                            # the same value but other effective flavors
                            # (stated on the new value, or the declaration's
                            # where the inherited value stated its own):
                            # neither pywbem's documentation nor the
                            # statement say whether that is an override, so
                            # acceptance and the flavors that apply further
                            # down are not asserted
                            out[lq]['free'] = True
                            loose = True
                    out[lq]['restated'] = True
            else:
                out[lq] = dict(q, src='inherited')
                if param_over:
                    out[lq]['param_over'] = True
        return out, viol, loose

    def _inherit_quals(self, quals):
        "qualifiers of an element the subclass does not redeclare"
        keep = {}
        ghost = {}
        for lq, q in quals.items():
            if q['ts'] or q.get('free'):
                keep[lq] = dict(q, src='inherited')
            else:
                ghost[lq] = dict(restated=bool(q.get('restated')),
                                 ov=q['ov'], xts=q['xts'])
        return keep, ghost

    @staticmethod
    def _xres(base):
        """
        names of the qualifiers of the overridden element `base` that stop
        there because their value states Restricted itself
        """
        if not base:
            return set()
        return set(lq for lq, q in base['quals'].items()
                   if not q.get('free') and not q['ts'] and
                   q['xts'] is False)

    def resolve(self, spec, sup):
        """
        Expected full view of class recipe `spec` whose superclass has the
        expected view `sup` (None for a root).
        """
        viol = []
        loose = False
        ghost_conflict = False
        self._restated_again = False
        quals, v, lo = self._merge_quals(spec['quals'],
                                         sup['quals'] if sup else None)
        viol += [('class', spec['name'], q) for q in v]
        view = dict(name=spec['name'], super=spec['super'], quals=quals,
                    props={}, methods={}, class_loose=lo)
        for kind, own_list in (('props', spec['props']),
                               ('methods', spec['methods'])):
            target = view[kind]
            inh = sup[kind] if sup else {}
            for e in own_list:
                le = lc(e['name'])
                base = inh.get(le)
                q, v, lo = self._merge_quals(e['quals'],
                                             base['quals'] if base else None,
                                             ghost=base['ghost'] if base
                                             else ())
                viol += [(kind, e['name'], x) for x in v]
                loose = loose or lo
                if base and any(lc(x[0]) in base['ghost'] and
                                not base['ghost'][lc(x[0])]['ov']
                                for x in e['quals']):
                    ghost_conflict = True
                el = dict(name=e['name'],
                          kind='override' if base else 'new',
                          origin=base['origin'] if base else spec['name'],
                          quals=q, ghost={}, xres=self._xres(base))
                if kind == 'props':
                    el.update(type=e['type'], is_array=e['is_array'],
                              refclass=e['refclass'], value=e['value'])
                else:
                    el.update(rtype=e['rtype'], params={})
                    for x in e['params']:
                        bp = base['params'].get(lc(x['name'])) \
                            if base else None
                        pq, v, lo = self._merge_quals(
                            x['quals'], bp['quals'] if bp else None,
                            param_over=True,
                            ghost=bp['ghost'] if bp else ())
                        viol += [('parameter', e['name'] + '.' + x['name'],
                                  y) for y in v]
                        loose = loose or lo
                        if bp and any(lc(y[0]) in bp['ghost'] and
                                      not bp['ghost'][lc(y[0])]['ov']
                                      for y in x['quals']):
                            ghost_conflict = True
                        el['params'][lc(x['name'])] = dict(
                            name=x['name'], type=x['type'],
                            is_array=x['is_array'],
                            refclass=x.get('refclass'), quals=pq,
                            ghost={}, xres=self._xres(bp),
                            over=bp is not None)
                target[le] = el
            for le, base in inh.items():
                if le in target:
                    continue
                keep, ghost = self._inherit_quals(base['quals'])
                el = dict(base, kind='inherited', quals=keep, xres=set(),
                          ghost=dict(base['ghost'], **ghost))
                if kind == 'methods':
                    el['params'] = {}
                    for lp, bp in base['params'].items():
                        pk, pg = self._inherit_quals(bp['quals'])
                        el['params'][lp] = dict(bp, quals=pk, xres=set(),
                                                ghost=dict(bp['ghost'], **pg),
                                                over=False)
                target[le] = el
        view['violations'] = viol
        view['loose'] = loose
        view['ghost_conflict'] = ghost_conflict
        view['restated_again'] = self._restated_again
        return view

    def view(self, ln):
        if ln not in self._views:
            spec = self.classes[ln]
            sup = self.view(self.superof(ln)) if spec['super'] else None
            self._views[ln] = self.resolve(spec, sup)
        return self._views[ln]

    def preview(self, spec):
        "view the class recipe would have if it were added now"
        sup = self.view(lc(spec['super'])) if spec['super'] else None
        return self.resolve(spec, sup)


# ---------------------------------------------------------------------------
# generators

_MASK = st.integers(0, 2 ** 12 - 1)
_STRVALS = ['a', 'b', 'c', 'x y', '', 'A']


def _g_variant(draw, name, p=3):
    "name, or (p of 10) a spelling that differs only in case"
    if draw(S._I10) < p:
        return S.swapcase_name(name, draw(_MASK) | 1)
    return name


def _g_qvalue(draw, d):
    t = d['type']

    def one():
        if t == 'string':
            return _STRVALS[draw(S._I100) % len(_STRVALS)]
        if t == 'uint32':
            return draw(S._I10) % 4
        return draw(S._B)
    if d['is_array']:
        return [one() for _ in range(1 + draw(S._I10) % 2)]
    if t != 'boolean' and draw(S._I100) < 4:
        return None
    return one()


def _g_qdecls(draw):
    n = 4 + draw(S._I10) % 4
    out = []
    for i in range(n):
        if i < 4:
            tosub, ovr = [(True, True), (True, False), (False, True),
                          (False, False)][i]
        else:
            tosub, ovr = draw(S._B), draw(S._B)
        # True may also be spelled None (the default)
        if tosub and draw(S._I10) < 3:
            tosub = None
        if ovr and draw(S._I10) < 3:
            ovr = None
        r = draw(S._I10)
        if r < 6:
            scopes = 'any'
        else:
            scopes = [['CLASS', 'ASSOCIATION', 'PROPERTY', 'REFERENCE'],
                      ['PROPERTY', 'REFERENCE', 'METHOD'],
                      ['METHOD', 'PARAMETER'],
                      ['CLASS', 'ASSOCIATION', 'PARAMETER']][r - 6]
        out.append(dict(
            name='Q%s%d' % ('rR'[tosub is not False] + 'dD'[ovr is not False],
                            i),
            type=['string', 'string', 'uint32', 'boolean'][draw(S._I10) % 4],
            is_array=draw(S._I10) < 2, tosub=tosub, ovr=ovr, scopes=scopes,
            partial=draw(S._I100) < 1))
    return out


def _usable(qdecls, scope):
    # Description and In (standard declarations) take part like generated ones
    return [d for d in list(qdecls) + [STD_QDECLS[3], STD_QDECLS[4]]
            if d['scopes'] == 'any' or scope in d['scopes']]


def _g_qual(draw, d, v):
    """
    Qual recipe for declaration d with value v; 3 of 10 state flavors of
    their own (each flavor: 5/10 the restrictive one, 2/10 the permissive
    one, 3/10 not stated), whatever the declaration says.
    """
    name = _g_variant(draw, d['name'], 1)
    if draw(S._I10) >= 3:
        return (name, d['type'], v)
    r = draw(S._I100)
    ts = False if r % 10 < 5 else True if r % 10 < 7 else None
    ov = False if r // 10 < 5 else True if r // 10 < 7 else None
    if ts is None and ov is None:
        return (name, d['type'], v)
    return (name, d['type'], v, ts, ov)


def _g_quals(draw, qdecls, scope, inherited, seen, maxn=2):
    """
    Qualifiers of one element.  inherited: expected qualifiers of the
    overridden element (or None); seen: qualifier names used on ancestors'
    declarations of this element (restated more often).
    """
    out = {}
    usable = {lc(d['name']): d for d in _usable(qdecls, scope)}
    cands = [lq for lq in sorted(set(inherited or ()) | set(seen or ()))
             if lq in usable]
    for lq in cands:
        if draw(S._I10) < 4:
            d = usable[lq]
            old = (inherited or {}).get(lq)
            if old is not None and draw(S._I10) < 6:
                v = old['value']
            else:
                v = _g_qvalue(draw, d)
            out[lq] = _g_qual(draw, d, v)
    if usable:
        names = sorted(usable)
        for _ in range(draw(S._I10) % (maxn + 1)):
            lq = names[draw(S._I100) % len(names)]
            if lq not in out:
                d = usable[lq]
                out[lq] = _g_qual(draw, d, _g_qvalue(draw, d))
    return list(out.values())


def _g_params(draw, qdecls, base):
    "parameters of a method; base: expected view of the overridden method"
    out = []
    if base is not None:
        for lp, bp in base['params'].items():
            out.append(dict(
                name=_g_variant(draw, bp['name'], 1), type=bp['type'],
                is_array=bp['is_array'], refclass=bp['refclass'],
                quals=_g_quals(draw, qdecls, 'PARAMETER', bp['quals'],
                               set(bp['quals']) | set(bp['ghost']))))
        return out
    n = draw(S._I10) % 3
    for i in range(n):
        quals = _g_quals(draw, qdecls, 'PARAMETER', None, None)
        if draw(S._I10) < 5 and not any(lc(q[0]) == 'in' for q in quals):
            quals.append(('In', 'boolean', True))
        out.append(dict(name=PARAM_POOL[i],
                        type=PROP_TYPES[draw(S._I100) % len(PROP_TYPES)],
                        is_array=draw(S._I10) < 2, refclass=None,
                        quals=quals))
    return out


def _g_class(draw, name, sup_name, sup_view, qdecls, root_key=True,
             assoc_ends=None):
    """
    One class recipe.  sup_view: expected view of the superclass (None for a
    root); assoc_ends: (class name, class name) to make a root association.
    """
    is_assoc = assoc_ends is not None or (
        sup_view is not None and 'association' in sup_view['quals'])
    cscope = 'ASSOCIATION' if is_assoc else 'CLASS'
    quals = _g_quals(draw, [d for d in qdecls], cscope,
                     sup_view['quals'] if sup_view else None,
                     set(sup_view['quals']) if sup_view else None)
    quals = [q for q in quals if lc(q[0]) != 'association']
    if assoc_ends is not None or (is_assoc and draw(S._I10) < 7):
        quals.insert(0, ('Association', 'boolean', True))
    if draw(S._I10) < 3 and not any(lc(q[0]) == 'description'
                                    for q in quals):
        quals.append(('Description', 'string',
                      _STRVALS[draw(S._I100) % len(_STRVALS)]))
    props, meths = [], []
    inh_p = sup_view['props'] if sup_view else {}
    inh_m = sup_view['methods'] if sup_view else {}

    # overrides
    for le, base in inh_p.items():
        if draw(S._I10) < 3:
            pscope = 'REFERENCE' if base['type'] == 'reference' else \
                'PROPERTY'
            q = _g_quals(draw, qdecls, pscope, base['quals'],
                         set(base['quals']) | set(base['ghost']))
            q = [x for x in q if lc(x[0]) != 'override']
            q.insert(draw(S._I10) % (len(q) + 1),
                     (_g_variant(draw, 'Override', 1), 'string',
                      _g_variant(draw, base['name'], 3)))
            val = base['value']
            if base['type'] in ('string', 'uint32', 'boolean') and \
                    not base['is_array'] and draw(S._I10) < 4:
                val = {'string': 'dflt2', 'uint32': 7, 'boolean': True}[
                    base['type']]
            props.append(dict(name=_g_variant(draw, base['name'], 3),
                              type=base['type'], is_array=base['is_array'],
                              refclass=base['refclass'], value=val, quals=q))
    for le, base in inh_m.items():
        if draw(S._I10) < 3:
            q = _g_quals(draw, qdecls, 'METHOD', base['quals'],
                         set(base['quals']) | set(base['ghost']))
            q = [x for x in q if lc(x[0]) != 'override']
            q.insert(0, ('Override', 'string',
                         _g_variant(draw, base['name'], 3)))
            meths.append(dict(name=_g_variant(draw, base['name'], 3),
                              rtype=base['rtype'], quals=q,
                              params=_g_params(draw, qdecls, base)))
    # new elements
    if sup_view is None and assoc_ends is not None:
        for rn, rc in zip(('Left', 'Right'), assoc_ends):
            props.append(dict(name=rn, type='reference', is_array=False,
                              refclass=rc, value=None,
                              quals=[('Key', 'boolean', True)] + _g_quals(
                                  draw, qdecls, 'REFERENCE', None, None, 1)))
    elif sup_view is None and root_key:
        props.append(dict(name=KEYNAME, type='string', is_array=False,
                          refclass=None, value=None,
                          quals=[('Key', 'boolean', True)]))
    free_p = [n for n in PROP_POOL if lc(n) not in inh_p]
    for i in range(draw(st.sampled_from([0, 1, 1, 2, 3]))):
        if not free_p:
            break
        n = free_p.pop(draw(S._I100) % len(free_p))
        t = PROP_TYPES[draw(S._I100) % len(PROP_TYPES)]
        arr = draw(S._I10) < 2
        val = None
        if not arr and t in ('string', 'uint32', 'boolean') and \
                draw(S._I10) < 3:
            val = {'string': 'dflt', 'uint32': 3, 'boolean': False}[t]
        props.append(dict(name=n, type=t, is_array=arr, refclass=None,
                          value=val,
                          quals=_g_quals(draw, qdecls, 'PROPERTY', None,
                                         None)))
    free_m = [n for n in METH_POOL if lc(n) not in inh_m]
    for i in range(draw(st.sampled_from([0, 0, 1, 1, 2]))):
        if not free_m:
            break
        n = free_m.pop(draw(S._I100) % len(free_m))
        meths.append(dict(name=n,
                          rtype=['uint32', 'string', 'boolean'][
                              draw(S._I10) % 3],
                          quals=_g_quals(draw, qdecls, 'METHOD', None, None),
                          params=_g_params(draw, qdecls, None)))
    # declaration order inside the class is free
    if draw(S._B):
        props.reverse()
    return dict(name=name, super=sup_name, assoc=is_assoc, quals=quals,
                props=props, methods=meths)


def _refs(spec):
    return [p['refclass'] for p in spec['props'] if p['type'] == 'reference']


def _g_plists(draw):
    out = []
    for _ in range(2):
        pl = []
        for _ in range(1 + draw(S._I10) % 3):
            r = draw(S._I10)
            if r < 7:
                n = (PROP_POOL + [KEYNAME])[draw(S._I100) % 6]
            elif r < 9:
                n = 'NoSuchProp'
            else:
                n = METH_POOL[0]
            pl.append(_g_variant(draw, n, 4))
        if draw(S._I10) < 2:
            pl.append(pl[0])
        out.append(pl)
    out.append(_g_variant(draw, PROP_POOL[draw(S._I10) % 5], 4))   # a str
    return out


def g_forest(draw, max_classes=10, instances=True, assoc=True, via=None):
    if via is None:
        via = 'mof' if draw(S._I10) < 3 else 'create'
    qdecls = _g_qdecls(draw)
    if via == 'mof' or via == 'quiet':
        # MOF cannot express partial scope dictionaries
        for d in qdecls:
            d['partial'] = False
    if via == 'mof':
        max_classes = min(max_classes, 7)
    model = Model(qdecls)
    ncls = 1 + draw(st.integers(0, max_classes - 1))
    classes = []
    for i in range(ncls):
        name = 'TST_%s%d' % ('Cc'[draw(S._B)], i)
        sup = None
        if i > 0 and draw(S._I10) < 8:
            cands = [k for k in model.classes
                     if model.depth(k) < 5 and len(model.children(k)) < 4]
            if cands:
                # prefer deep chains: the most recent candidates
                r = draw(S._I10)
                sup = cands[-1] if r < 4 else cands[draw(S._I100) %
                                                    len(cands)]
        elif len(model.children(None)) >= 4:
            cands = [k for k in model.classes
                     if model.depth(k) < 5 and len(model.children(k)) < 4]
            sup = cands[0] if cands else None
            if sup is None:
                break
        ends = None
        if sup is None and assoc and i > 0 and draw(S._I10) < 2:
            plain = [c['name'] for c in classes if not c['assoc']]
            if plain:
                ends = (plain[draw(S._I100) % len(plain)],
                        plain[draw(S._I100) % len(plain)])
        sup_view = model.view(sup) if sup else None
        sup_name = _g_variant(draw, model.classes[sup]['name'], 3) \
            if sup else None
        spec = _g_class(draw, name, sup_name, sup_view, qdecls,
                        assoc_ends=ends)
        model.add(spec)
        classes.append(spec)
    # creation order: a random topological order
    order = []
    left = list(range(len(classes)))
    done = set()
    while left:
        ready = [i for i in left if (classes[i]['super'] is None or
                                     lc(classes[i]['super']) in done) and
                 all(lc(r) in done for r in _refs(classes[i]))]
        i = ready[draw(S._I100) % len(ready)]
        left.remove(i)
        order.append(i)
        done.add(lc(classes[i]['name']))
    classes = [classes[i] for i in order]
    premature = None
    late = [i for i, c in enumerate(classes) if c['super']]
    if late and draw(S._I10) < 2 and via != 'mof':
        premature = late[draw(S._I100) % len(late)]
    insts = []
    if instances:
        keyed = [c['name'] for c in classes if model.has_key(lc(c['name']))]
        for k in range(draw(S._I10) % 6 if keyed else 0):
            insts.append((_g_variant(draw, keyed[draw(S._I100) % len(keyed)],
                                     2), 'i%d' % k))
    return dict(via=via, qdecls=qdecls, classes=classes,
                premature=premature, instances=insts, mask=draw(_MASK), plists=_g_plists(draw),
                pick=draw(S._I100))


def forest_strategy(**kw):
    @st.composite
    def strat(draw):
        return g_forest(draw, **kw)
    return strat()


# ---------------------------------------------------------------------------
# classification of a forest (evidence counters + non-trivial rule)

def _all_quals(spec):
    for q in spec['quals']:
        yield q
    for p in spec['props']:
        for q in p['quals']:
            yield q
    for m in spec['methods']:
        for q in m['quals']:
            yield q
        for x in m['params']:
            for q in x['quals']:
                yield q


def _vflavor_classes(model, k, v, cl):
    """
    Evidence classes for qualifier values that state flavors of their own:
    what is stated (against the declaration), and whether the forest holds
    a situation in which the stated flavor decides what a subclass shows.
    Returns True if a stated flavor differs from the declaration's.
    """
    differs = False
    for q in _all_quals(model.classes[k]):
        name, _, _, ts, ov = qparts(q)
        if ts is None and ov is None:
            continue
        dts, dov = model.tosub(name), model.ovr(name)
        same = True
        for x, dx, lab in ((ts, dts, ('Restricted', 'ToSubclass')),
                           (ov, dov, ('DisableOverride', 'EnableOverride'))):
            if x is not None and x != dx:
                same = False
                cl.append('vflavor:%s-on-%s-declaration' % (lab[x], lab[dx]))
        if same:
            cl.append('vflavor:repeats-declaration')
        differs = differs or not same
    sup = model.superof(k)
    if sup is None:
        return differs
    sv = model.view(sup)
    elems = [(e, sv[kind].get(le)) for kind in ('props', 'methods')
             for le, e in v[kind].items()]
    for e, base in list(elems):
        if 'params' in e and base is not None:
            elems += [(x, base['params'].get(lp))
                      for lp, x in e['params'].items()]
    for e, base in elems:
        if base is None:
            continue
        for lq, q in base['quals'].items():
            mine = e['quals'].get(lq)
            if q.get('free'):
                cl.append('unasserted:flavors-after-restated-'
                          'disableoverride-with-other-flavors')
                continue
            if q['xts'] is False and model.tosub(lq) and \
                    (mine is None or mine['src'] == 'own'):
                # (absent below, or stated again by the subclass itself)
                cl.append('vflavor:Restricted-value-stops-above-%s-element'
                          % ('redeclared' if mine else 'inherited'))
            if q['xts'] is True and not model.tosub(lq) and \
                    mine is not None and mine['src'] == 'inherited':
                cl.append('vflavor:ToSubclass-value-of-Restricted-'
                          'declaration-inherited')
            if q['ts'] and mine is not None and mine['src'] == 'own':
                if q['xov'] is False and model.ovr(lq):
                    cl.append('vflavor:DisableOverride-value-%s-below' % (
                        'changed' if (mine['value'], mine['type']) !=
                        (q['value'], q['type']) else 'repeated'))
                if q['xov'] is True and not model.ovr(lq):
                    cl.append('vflavor:EnableOverride-value-of-'
                              'DisableOverride-declaration-overridden-below')
    return differs


def classify(model, extra_case=False):
    cl = []
    depth = max([model.depth(k) for k in model.classes] or [0])
    fan = max([len(model.children(k)) for k in model.classes] or [0])
    cl.append('depth:%d' % depth)
    cl.append('fanout:%d' % min(fan, 4))
    n_over = n_mover = n_inh = 0
    restricted = disable = both = vdiff = False
    case = extra_case
    for k, spec in model.classes.items():
        v = model.view(k)
        vdiff = _vflavor_classes(model, k, v, cl) or vdiff
        for e in v['props'].values():
            if e['kind'] == 'override':
                n_over += 1
                base = model.view(model.superof(k))['props'][lc(e['name'])]
                if base['name'] != e['name']:
                    case = True
            elif e['kind'] == 'inherited':
                n_inh += 1
        for e in v['methods'].values():
            if e['kind'] == 'override':
                n_mover += 1
        if spec['super'] and \
                spec['super'] != model.classes[lc(spec['super'])]['name']:
            case = True
        for q in _all_quals(spec):
            d = model.qd[lc(q[0])]
            if d['name'] in ('Key', 'Override', 'In', 'Association'):
                continue
            if d['name'] != q[0]:
                case = True
            if d['tosub'] is False:
                restricted = True
            if d['ovr'] is False:
                disable = True
            if d['tosub'] is False and d['ovr'] is False:
                both = True
        if v['violations']:
            cl.append('has-disableoverride-violation')
        if spec['assoc']:
            cl.append('has-association')
    if n_over:
        cl.append('has-property-override')
    if n_mover:
        cl.append('has-method-override')
    if restricted:
        cl.append('uses-restricted')
    if disable:
        cl.append('uses-disableoverride')
    if both:
        cl.append('uses-restricted+disableoverride')
    if case:
        cl.append('case-variant-names')
    nontrivial = (depth >= 2 and (n_over + n_mover > 0)) or restricted or \
        disable or case or vdiff
    return sorted(set(cl)), nontrivial


# ---------------------------------------------------------------------------
# comparison of a returned class with the model

CLASS_SIG = 'full:class-level-qualifier-inheritance-not-resolved'
PARAM_SIG = 'full:method-parameter-qualifiers-not-resolved'
GHOST_SIG = 'full:restricted-qualifier-shown-on-inherited-element'
RESTATED_SIG = 'full:restated-qualifier-flavors-not-initialised'
# a flavor stated on the qualifier value (CIMQualifier(..., tosubclass=,
# overridable=) / MOF 'Q(v) : Restricted') is not the one that is exposed
# and applied: + ':tosubclass' | ':overridable'
VFLAVOR_SIG = 'full:flavor-stated-on-qualifier-value-not-honoured:'


def _qdict(nocase):
    return {lc(k): q for k, q in nocase.items()}


def diag(parent_act, lq, attr='tosubclass'):
    """
    State of qualifier lq on the element the qualifier is inherited from, as
    the server returns it: noparent | absent | noflavor | on | off
    """
    if parent_act is None:
        return 'noparent'
    q = _qdict(parent_act).get(lq)
    if q is None:
        return 'absent'
    v = getattr(q, attr)
    return 'noflavor' if v is None else 'on' if v else 'off'


def cmp_quals(ctx, where, level, kind, exp, act, ghost, parent_act,
              xres=(), parent_exp=None):
    """
    exp: {lname: {'name','type','value','src', flavors}}; act: NocaseDict of
    CIMQualifier.  level: class|property|method|parameter; kind: new|
    override|inherited|class.  parent_act: qualifiers of the same element in
    the superclass as returned by the server (None if there is none); used
    only to attribute a difference to its root cause.  xres: qualifiers of
    the overridden element whose value states Restricted (attribution only);
    parent_exp: expected qualifiers of the same element in the superclass
    (to recognise what was reported there already).
    """
    a = _qdict(act)
    free = [lq for lq, q in exp.items() if q.get('free')]
    if free:
        ctx.event('unasserted:qualifier-with-undetermined-flavors', len(free))
        exp = {lq: q for lq, q in exp.items() if lq not in free}
        a = {lq: q for lq, q in a.items() if lq not in free}
    # the flavors a value states itself are exposed as stated
    for lq in sorted(set(a) & set(exp)):
        q = exp[lq]
        if q['src'] != 'own':
            continue
        for attr, want in (('tosubclass', q['xts']),
                           ('overridable', q['xov'])):
            if want is not None and getattr(a[lq], attr) is not want:
                ctx.fail(VFLAVOR_SIG + attr,
                         '%s: qualifier %s is declared here with %s=%r, '
                         'exposed with %s=%r' %
                         (where, q['name'], attr, want, attr,
                          getattr(a[lq], attr)))
    for lq in sorted(set(exp) - set(a)):
        q = exp[lq]
        if q['src'] == 'inherited':
            d = diag(parent_act, lq)
            if d == 'off' and q['xts'] is True and level != 'class':
                ctx.fail(VFLAVOR_SIG + 'tosubclass',
                         '%s: qualifier %s = %r whose value states '
                         'ToSubclass in the superclass is absent; there it '
                         'is exposed as Restricted' %
                         (where, q['name'], q['value']))
                continue
            if d == 'absent':
                # already lost in the superclass (reported there)
                ctx.event('cascade:qualifier-missing-upstream')
                continue
            if d == 'noflavor' and level == 'parameter' and \
                    q.get('restated'):
                # two known root causes apply (parameters are not resolved,
                # restated qualifiers lose their flavors): reported by the
                # unambiguous cases
                ctx.event('ambiguous:parameter+restated')
                continue
            if d == 'noflavor':
                sig = PARAM_SIG if level == 'parameter' else \
                    RESTATED_SIG if q.get('restated') else \
                    'full:qualifier-flavors-not-initialised:%s' % level
            elif level == 'class':
                sig = CLASS_SIG
            elif level == 'parameter' and kind == 'override':
                sig = PARAM_SIG
            else:
                sig = 'full:%s-qualifier-not-propagated:%s:%s' % (
                    level, kind, d)
        else:
            sig = 'full:own-qualifier-lost:%s' % level
        ctx.fail(sig, '%s: qualifier %s (%s) expected with value %r, '
                 'absent; present: %s' %
                 (where, q['name'], q['src'], q['value'], sorted(a)))
    for lq in sorted(set(a) - set(exp)):
        sig = 'full:unexpected-qualifier:%s:%s' % (level, kind)
        if lq in ghost:
            d = diag(parent_act, lq)
            if d == 'off':
                sig = GHOST_SIG
            elif d == 'noflavor' and level == 'parameter' and \
                    ghost[lq]['restated']:
                ctx.event('ambiguous:parameter+restated')
                continue
            elif d == 'noflavor':
                sig = PARAM_SIG if level == 'parameter' else \
                    RESTATED_SIG if ghost[lq]['restated'] else \
                    'full:qualifier-flavors-not-initialised:%s' % level
            elif d == 'on' and ghost[lq]['xts'] is False:
                sig = VFLAVOR_SIG + 'tosubclass'
        elif lq in xres and diag(parent_act, lq) == 'on':
            sig = VFLAVOR_SIG + 'tosubclass'
        elif parent_exp is not None and lq not in parent_exp and \
                diag(parent_act, lq) == 'on':
            # unexpected (and reported) on the superclass' element already,
            # from where it propagates as a ToSubclass qualifier does
            ctx.event('cascade:unexpected-qualifier-upstream')
            continue
        ctx.fail(sig, '%s (%s): qualifier %s = %r is exposed but neither '
                 'declared here nor inherited with ToSubclass' %
                 (where, kind, a[lq].name, a[lq].value))
    for lq in sorted(set(a) & set(exp)):
        q = exp[lq]
        want = b_value(q['type'], q['value'])
        if a[lq].type != q['type'] or a[lq].value != want:
            if q['src'] == 'inherited' and \
                    diag(parent_act, lq) not in ('noparent', 'absent') and \
                    _qdict(parent_act)[lq].value != want:
                ctx.event('cascade:qualifier-value-wrong-upstream')
                continue
            ctx.fail('full:qualifier-value-wrong:%s:%s' % (level, q['src']),
                     '%s: qualifier %s: expected %r (%s), got %r' %
                     (where, q['name'], want, q['src'], a[lq].value))


def _names_diff(exp, act):
    return sorted(set(exp) - set(act)), sorted(set(act) - set(exp))


def cmp_full(ctx, model, ln, klass, sup_klass=None):
    """
    klass = GetClass(LocalOnly=False, IQ=True, ICO=True) vs. the model;
    sup_klass = the same for its superclass (diagnosis only)
    """
    v = model.view(ln)
    w = v['name']
    if lc(klass.classname) != ln:
        ctx.fail('full:classname', '%s: got %r' % (w, klass.classname))
    if lc(klass.superclass or '') != lc(v['super'] or ''):
        ctx.fail('full:superclass', '%s: expected superclass %r, got %r' %
                 (w, v['super'], klass.superclass))
    if not v['class_loose']:
        cmp_quals(ctx, w, 'class', 'class', v['quals'], klass.qualifiers,
                  {}, sup_klass.qualifiers if sup_klass is not None
                  else None)
    for kind, act, label in (('props', klass.properties, 'property'),
                             ('methods', klass.methods, 'method')):
        a = {lc(k): e for k, e in act.items()}
        pa_ = {}
        pe_ = {}
        if sup_klass is not None:
            pa_ = {lc(k): e for k, e in (
                sup_klass.properties if kind == 'props'
                else sup_klass.methods).items()}
            pe_ = model.view(model.superof(ln))[kind]
        missing, extra = _names_diff(v[kind], a)
        for le in missing:
            ctx.fail('full:%s-missing:%s' % (label, v[kind][le]['kind']),
                     '%s: %s %s (%s, from %s) is not exposed' %
                     (w, label, v[kind][le]['name'], v[kind][le]['kind'],
                      v[kind][le]['origin']))
        for le in extra:
            ctx.fail('full:%s-unexpected' % label,
                     '%s exposes %s %r that no class of its ancestry '
                     'declares' % (w, label, a[le].name))
        for le in sorted(set(a) & set(v[kind])):
            e, x = v[kind][le], a[le]
            where = '%s.%s' % (w, e['name'])
            if x.name != e['name'] and e['kind'] != 'inherited':
                ctx.fail('full:%s-name-spelling' % label,
                         '%s: nearest declaration spells it %r, got %r' %
                         (where, e['name'], x.name))
            if lc(x.class_origin or '') != lc(e['origin']):
                ctx.fail('full:class-origin-wrong:%s:%s' % (label,
                                                            e['kind']),
                         '%s (%s): class_origin expected %r, got %r' %
                         (where, e['kind'], e['origin'], x.class_origin))
            if e['kind'] == 'new' and x.propagated:
                ctx.fail('full:propagated-set-on-new-%s' % label,
                         '%s is introduced by %s but propagated=%r' %
                         (where, w, x.propagated))
            if e['kind'] == 'inherited' and x.propagated is not True:
                ctx.fail('full:propagated-not-set-on-inherited-%s' % label,
                         '%s is not redeclared by %s but propagated=%r' %
                         (where, w, x.propagated))
            px = pa_.get(le)
            cmp_quals(ctx, where, label, e['kind'], e['quals'],
                      x.qualifiers, e['ghost'],
                      px.qualifiers if px is not None else None,
                      xres=e['xres'],
                      parent_exp=pe_[le]['quals'] if le in pe_ else None)
            if kind == 'props':
                if (x.type, bool(x.is_array)) != (e['type'], e['is_array']):
                    ctx.fail('full:property-type-wrong:%s' % e['kind'],
                             '%s: expected %s%s, got %s%s' %
                             (where, e['type'], '[]' * e['is_array'],
                              x.type, '[]' * bool(x.is_array)))
                elif x.value != b_value(e['type'], e['value']):
                    ctx.fail('full:property-default-wrong:%s' % e['kind'],
                             '%s: default expected %r, got %r' %
                             (where, e['value'], x.value))
                if lc(x.reference_class or '') != lc(e['refclass'] or ''):
                    ctx.fail('full:reference-class-wrong',
                             '%s: %r' % (where, x.reference_class))
            else:
                if x.return_type != e['rtype']:
                    ctx.fail('full:method-return-type-wrong',
                             '%s: expected %s got %s' %
                             (where, e['rtype'], x.return_type))
                pa = {lc(k): p for k, p in x.parameters.items()}
                pm, pe = _names_diff(e['params'], pa)
                if pm or pe:
                    ctx.fail('full:parameter-set-wrong:%s' % e['kind'],
                             '%s: missing %s, unexpected %s' %
                             (where, pm, pe))
                for lp in sorted(set(pa) & set(e['params'])):
                    p, y = e['params'][lp], pa[lp]
                    if (y.type, bool(y.is_array)) != (p['type'],
                                                      p['is_array']):
                        ctx.fail('full:parameter-type-wrong',
                                 '%s(%s): %s' % (where, p['name'], y.type))
                    py = None
                    if px is not None:
                        py = {lc(k): z for k, z in
                              px.parameters.items()}.get(lp)
                    cmp_quals(ctx, '%s(%s)' % (where, p['name']),
                              'parameter',
                              'override' if p['over'] else e['kind'],
                              p['quals'], y.qualifiers, p['ghost'],
                              py.qualifiers if py is not None else None,
                              xres=p['xres'],
                              parent_exp=pe_[le]['params'][lp]['quals']
                              if le in pe_ and lp in pe_[le]['params']
                              else None)


def get_full(conn, name):
    # a private deep copy: a server that hands out its stored object would
    # otherwise make every later comparison with this answer a comparison of
    # the stored object with itself
    return copy.deepcopy(conn.GetClass(name, LocalOnly=False,
                                       IncludeQualifiers=True,
                                       IncludeClassOrigin=True))


# ---------------------------------------------------------------------------
# stability: an operation on one class does not change any other class

def canon(klass):
    """
    Flat, order-free picture of everything a returned class says (all public
    attributes of the class, its elements and their qualifiers, also those
    the model does not predict: propagated and flavors of qualifiers):
    {(holder, aspect): value}.  Plain data, so a cached picture cannot be
    changed by the server afterwards.
    """
    out = {('class', 'identity'): (klass.classname, klass.superclass,
                                   repr(klass.path))}

    def quals(holder, qd):
        for q in qd.values():
            h = '%s[%s]' % (holder, lc(q.name))
            out[(h, 'qualifier-value')] = (q.name, q.type, repr(q.value))
            out[(h, 'qualifier-propagated')] = q.propagated
            out[(h, 'qualifier-flavors')] = (q.tosubclass, q.overridable,
                                             q.translatable, q.toinstance)

    def typed(e):
        return (e.name, e.type, e.is_array, e.array_size, e.reference_class,
                e.embedded_object, repr(e.value))

    quals('class', klass.qualifiers)
    for e in klass.properties.values():
        h = 'property %s' % lc(e.name)
        out[(h, 'element')] = typed(e)
        out[(h, 'class-origin')] = e.class_origin
        out[(h, 'element-propagated')] = e.propagated
        quals(h, e.qualifiers)
    for e in klass.methods.values():
        h = 'method %s' % lc(e.name)
        out[(h, 'element')] = (e.name, e.return_type)
        out[(h, 'class-origin')] = e.class_origin
        out[(h, 'element-propagated')] = e.propagated
        quals(h, e.qualifiers)
        for x in e.parameters.values():
            hx = '%s(%s)' % (h, lc(x.name))
            out[(hx, 'element')] = typed(x)
            quals(hx, x.qualifiers)
    return out


def canon_diff(old, new):
    "-> (what differs first: stable label, text) of two canon() pictures"
    gone, added = _names_diff(old, new)
    if gone or added:
        k = (gone + added)[0]
        what = 'qualifier-set' if k[1].startswith('qualifier') else \
            'element-set'
        return what, 'no longer there: %s; new: %s' % (
            sorted(set(h for h, _ in gone)), sorted(set(h for h, _ in added)))
    for k in sorted(old):
        if old[k] != new[k]:
            return k[1], '%s: %s was %r, is now %r' % (k[0], k[1], old[k],
                                                       new[k])
    return None, ''


class Watch:
    """
    The full view of every class as it was first returned after the class was
    created (or last modified).  Every later full view of the class must be
    the same, whatever happened to other classes in between: CreateClass /
    ModifyClass / DeleteClass / CreateInstance / MOF compilation of one class
    (accepted or rejected) do not change what the server holds for another
    one.  Failures: '<op>:changes-other-class:<relation>:<what>' (relation of
    the changed class to the class the operation named: superclass |
    ancestor | subclass | unrelated | same-class (rejected operation)).
    """

    def __init__(self):
        self.seen = {}

    def forget(self, names):
        for ln in names:
            self.seen.pop(ln, None)

    def check(self, ctx, conn, model, op, target, tsuper=None, views=None,
              only=None):
        """
        op: what was just done (signature prefix); target: lower-cased name
        of the class it named (None: none); tsuper: its superclass (lower
        case) if the model does not hold the class (rejected creation,
        deleted class); views: full views already fetched, {lname:
        CIMClass}; only: the classes of the model that exist so far
        """
        n = 0
        for ln, spec in model.classes.items():
            if only is not None and ln not in only:
                continue
            if views is not None and ln in views:
                klass = views[ln]
            else:
                klass = conn.GetClass(spec['name'], LocalOnly=False,
                                      IncludeQualifiers=True,
                                      IncludeClassOrigin=True)
            c = canon(klass)
            old = self.seen.get(ln)
            self.seen[ln] = c       # a change is reported once
            if old is None or old == c:
                n += old is not None
                continue
            what, text = canon_diff(old, c)
            rel = self._relation(model, ln, target, tsuper)
            ctx.fail('%s:changes-other-class:%s:%s' % (op, rel, what),
                     'after %s(%s) the full view of %s differs from the '
                     'one returned when it was created: %s' %
                     (op, target, spec['name'], text))
        ctx.event('stability:views-compared-with-first-view', n)

    @staticmethod
    def _relation(model, ln, target, tsuper):
        if target is None:
            return 'unrelated'
        if ln == target:
            return 'same-class'
        if target in model.classes:
            tsuper = model.superof(target)
            if ln in model.subtree(target):
                return 'subclass'
        if tsuper is not None and tsuper in model.classes:
            if ln == tsuper:
                return 'superclass'
            if tsuper in model.subtree(ln):
                return 'ancestor'
        return 'unrelated'


# ---------------------------------------------------------------------------
# building a forest in a connection; expected rejections

PARTIAL_SCOPE_SIG = 'create:KeyError-for-declaration-with-partial-scopes'


def _parent_quals(sup_klass, level, elem):
    "qualifiers of the element a violation refers to, in the superclass"
    if sup_klass is None:
        return None
    if level == 'class':
        return sup_klass.qualifiers
    if level == 'props':
        e = sup_klass.properties.get(elem)
        return e.qualifiers if e is not None else None
    mname, _, pname = elem.partition('.')
    e = sup_klass.methods.get(mname)
    if e is None:
        return None
    if level == 'methods':
        return e.qualifiers
    x = e.parameters.get(pname)
    return x.qualifiers if x is not None else None


def report_violations(ctx, conn, spec, violations, how):
    """
    A class that changes the value of inherited DisableOverride qualifiers
    was accepted: attribute each to its root cause by what the server holds
    for the superclass.
    """
    sup = get_full(conn, spec['super'])
    for level, elem, (qname, restated, explicit) in violations:
        d = diag(_parent_quals(sup, level, elem), lc(qname), 'overridable')
        if d in ('absent', 'noparent'):
            ctx.event('cascade:qualifier-missing-upstream')
            continue
        if d == 'noflavor' and level == 'parameter' and restated:
            ctx.event('ambiguous:parameter+restated')
            continue
        if d == 'noflavor':
            sig = PARAM_SIG if level == 'parameter' else \
                RESTATED_SIG if restated else \
                'full:qualifier-flavors-not-initialised:%s' % level
        elif level == 'class':
            sig = CLASS_SIG
        elif d == 'on' and explicit:
            # the superclass exposes the qualifier as EnableOverride
            # although its value states DisableOverride
            sig = VFLAVOR_SIG + 'overridable'
        elif level == 'parameter':
            sig = PARAM_SIG
        else:
            sig = 'create:disableoverride-violation-accepted:%s' % \
                {'props': 'property', 'methods': 'method'}[level]
        ctx.fail(sig, '%s(%s) was accepted although it changes the value of '
                 'DisableOverride qualifier %s of %s %s' %
                 (how, spec['name'], qname, level, elem))


class Abort(Exception):
    "the case cannot continue (a failure has been recorded)"


def _has_partial(model, spec):
    return any(model.qd[lc(q[0])]['partial'] for q in _all_quals(spec))


def _ref_override_case(model, spec):
    "overriding reference whose Override value differs in case from its name"
    for p in spec['props']:
        if p['type'] == 'reference':
            for q in p['quals']:
                if lc(q[0]) == 'override' and q[2] != p['name'] and \
                        lc(q[2]) == lc(p['name']):
                    return True
    return False


ASSOC_SIG = ('create:association-subclass-with-references-rejected-unless-'
             'Association-is-restated')
REFCASE_SIG = ('create:reference-override-rejected-when-Override-value-'
               'differs-in-case')


def rejection_sig(specs, ghost_conflict, msg, restated_again=False):
    "root cause of the rejection of a valid class (None: unclassified)"
    if 'not allowed on non-association' in msg and \
            any(_assoc_not_restated(s) for s in specs):
        return ASSOC_SIG
    if 'Override must not change' in msg and \
            any(_ref_override_case(None, s) for s in specs):
        return REFCASE_SIG
    if 'Restricted in super' in msg and ghost_conflict:
        return GHOST_SIG
    if 'Restricted in super' in msg and restated_again:
        # the restated DisableOverride qualifier of the superclass has lost
        # its ToSubclass flavor and is taken for a Restricted one
        return RESTATED_SIG
    if 'not Association' in msg and any(s['assoc'] for s in specs):
        # the superclass inherited Association without restating it
        return CLASS_SIG
    return None


def _assoc_not_restated(spec):
    return spec['assoc'] and spec['super'] and \
        not any(lc(q[0]) == 'association' for q in spec['quals']) and \
        any(p['type'] == 'reference' for p in spec['props'])


def create_class(ctx, conn, model, spec, how='create'):
    """
    CreateClass (or ModifyClass) of a class recipe that is structurally valid
    (superclass exists / name is new).  Compares acceptance with the model
    and updates the model.  Returns True if the class is (now) defined by
    spec.
    """
    exists = lc(spec['name']) in model.classes
    pv = model.preview(spec)
    try:
        if how == 'modify':
            conn.ModifyClass(b_class(spec))
        else:
            conn.CreateClass(b_class(spec))
    except CIMError as exc:
        if pv['violations']:
            ctx.event('rejected:disableoverride-violation')
            if any(x[2][2] for x in pv['violations']):
                ctx.event('rejected:disableoverride-stated-on-value-'
                          'violation')
            return False
        if pv['loose'] or pv['class_loose']:
            ctx.event('rejected:restricted+disableoverride-restated')
            return False
        sig = rejection_sig([spec], pv['ghost_conflict'], str(exc),
                            pv['restated_again']) or \
            'create:valid-class-rejected:%s:%s' % (how, exc.status_code_name)
        ctx.fail(sig, '%s(%s) raised %s' % (how, spec['name'], exc))
        return False
    except KeyError as exc:
        if _has_partial(model, spec) and 'not found' in str(exc):
            ctx.fail(PARTIAL_SCOPE_SIG,
                     '%s(%s) raised KeyError %s' % (how, spec['name'], exc))
            raise Abort()
        raise
    if pv['violations']:
        report_violations(ctx, conn, spec, pv['violations'], how)
    if exists:
        model.replace(spec)
    else:
        model.add(spec)
    return True


class QuietCtx:
    """
    Stand-in for the recording context while a forest is only being built as
    the fixture of the flags/enum/delete sub-checks: what the creation itself
    shows is reported by the resolve sub-check (same generator), here it is
    only counted.
    """

    def __init__(self, ctx):
        self.ctx = ctx

    def fail(self, sig, detail, example=None):
        self.ctx.event('build:' + sig)

    def event(self, name, n=1):
        self.ctx.event(name, n)


def build_forest(ctx, forest, conn=None):
    "-> (conn, model); raises Abort"
    if forest['via'] == 'quiet':
        ctx = QuietCtx(ctx)
    model = Model(forest['qdecls'])
    model.watch = Watch()
    if conn is None:
        conn = new_conn(forest['qdecls'])
    for i, spec in enumerate(forest['classes']):
        if forest['premature'] is not None and i == 0:
            early = forest['classes'][forest['premature']]
            if lc(early['super']) not in model.classes:
                try:
                    conn.CreateClass(b_class(early))
                except CIMError:
                    ctx.event('premature-creation-rejected')
                else:
                    ctx.fail('create:class-accepted-before-its-superclass',
                             early['name'])
                    raise Abort()
        if (spec['super'] and lc(spec['super']) not in model.classes) or \
                any(lc(r) not in model.classes for r in _refs(spec)):
            ctx.event('skipped:superclass-was-rejected')
            continue
        create_class(ctx, conn, model, spec)
        # accepted or rejected: the classes that exist are what they were
        model.watch.check(ctx, conn, model, 'create', lc(spec['name']),
                          lc(spec['super']) if spec['super'] else None)
    for cname, key in forest['instances']:
        if lc(cname) not in model.classes:
            continue
        conn.CreateInstance(CIMInstance(cname, properties={KEYNAME: key}))
        model.instances.append((lc(cname), key))
    return conn, model


def variant(name, mask, i):
    "deterministic request spelling of a name"
    m = (mask >> (i % 7)) | (mask << 5)
    if (mask >> (i % 11)) & 1:
        return S.swapcase_name(name, m | 1)
    return name


# ---------------------------------------------------------------------------
# sub-check: resolve (full view of every class equals the model)

def check_views(ctx, conn, model, mask=0, op=None, target=None, tsuper=None):
    """
    op, target, tsuper: the operation that was just done (see Watch.check):
    the views are also compared with the first views of the classes
    """
    got = {}
    for i, ln in enumerate(model.classes):
        name = variant(model.classes[ln]['name'], mask, i)
        got[ln] = get_full(conn, name)
    if op is not None and model.watch is not None:
        model.watch.check(ctx, conn, model, op, target, tsuper, views=got)
    for ln in model.classes:
        sup = model.superof(ln)
        cmp_full(ctx, model, ln, got[ln], got.get(sup))


def resolve_oracle(ctx, forest):
    if forest['via'] == 'mof':
        mof_oracle(ctx, forest)
        return
    try:
        conn, model = build_forest(ctx, forest)
    except Abort:
        ctx.case(nontrivial=True, classes=('aborted',))
        return
    check_views(ctx, conn, model, forest['mask'], op='inst')
    cl, nontriv = classify(model, forest['mask'] != 0)
    ctx.case(nontrivial=nontriv, classes=cl + ['via:create'])


# ---------------------------------------------------------------------------
# sub-check: flags (every flag combination only removes information)

def cmp_filtered(ctx, model, ln, full, r, lo, iq, ico, pl, what='GetClass'):
    """
    r = class returned for flags (lo, iq, ico) and property list pl; full =
    the answer with LocalOnly=False, IQ=True, ICO=True (as returned by the
    server); the kind of each element (new/override/inherited) is taken from
    the recipe.
    """
    v = model.view(ln)
    tag = '%s(%s, LocalOnly=%r, IncludeQualifiers=%r, IncludeClassOrigin=%r,'\
        ' PropertyList=%r)' % (what, v['name'], lo, iq, ico, pl)
    local = lo is not False
    quals_on = iq is not False
    if isinstance(pl, str):
        pl = [pl]
    plset = None if pl is None else set(lc(p) for p in pl)
    if lc(r.classname) != lc(full.classname) or \
            lc(r.superclass or '') != lc(full.superclass or ''):
        ctx.fail('flags:class-identity', tag)
    for kind, label in (('props', 'property'), ('methods', 'method')):
        fa = {lc(k): e for k, e in (full.properties if kind == 'props'
                                    else full.methods).items()}
        ra = {lc(k): e for k, e in (r.properties if kind == 'props'
                                    else r.methods).items()}
        for le in sorted(set(ra) - set(fa)):
            ctx.fail('flags:%s-added' % label,
                     '%s returns %s %s that the full answer lacks' %
                     (tag, label, ra[le].name))
        for le in sorted(fa):
            ekind = v[kind][le]['kind'] if le in v[kind] else None
            if ekind is None:
                continue
            want = None      # None: not asserted
            if kind == 'props' and plset is not None and le not in plset:
                want = False
            elif local and ekind == 'inherited':
                want = False
            elif local and ekind == 'override':
                want = None
            else:
                want = True
            if want is True and le not in ra:
                if kind == 'props' and plset is not None:
                    sig = 'flags:property-named-in-PropertyList-removed'
                else:
                    sig = 'flags:%s-%s-removed:LocalOnly=%s' % (
                        ekind, label, 'on' if local else 'off')
                ctx.fail(sig, '%s lacks %s %s (%s)' %
                         (tag, label, fa[le].name, ekind))
            elif want is False and le in ra:
                ctx.fail('flags:%s-%s-not-removed:%s' %
                         (ekind, label,
                          'PropertyList' if (kind == 'props' and plset
                                             is not None and le not in plset)
                          else 'LocalOnly'),
                         '%s returns %s %s' % (tag, label, ra[le].name))
        for le in sorted(set(ra) & set(fa)):
            f, x = fa[le], ra[le]
            g = copy.deepcopy(f)
            if not quals_on:
                g.qualifiers = {}
                if kind == 'methods':
                    for p in g.parameters.values():
                        p.qualifiers = {}
            if ico is not True:
                g.class_origin = None
            if x == g:
                continue
            # tolerated: LocalOnly may also drop inherited qualifiers
            if quals_on and local:
                h = copy.deepcopy(x)
                h.qualifiers = g.qualifiers
                sub = all(k in f.qualifiers and f.qualifiers[k] == q
                          for k, q in x.qualifiers.items())
                if kind == 'methods':
                    for k, p in h.parameters.items():
                        if k in g.parameters:
                            sub = sub and all(
                                n in g.parameters[k].qualifiers and
                                g.parameters[k].qualifiers[n] == q
                                for n, q in p.qualifiers.items())
                            p.qualifiers = g.parameters[k].qualifiers
                if sub and h == g:
                    continue
            what_ = 'other'
            if not quals_on and (len(x.qualifiers) or (
                    kind == 'methods' and any(
                        len(p.qualifiers) for p in x.parameters.values()))):
                what_ = 'qualifiers-kept-with-IncludeQualifiers-False'
            elif x.class_origin != g.class_origin:
                what_ = 'class-origin-%s' % (
                    'missing' if x.class_origin is None else
                    'kept' if ico is not True else 'changed')
            elif quals_on and _qdict(x.qualifiers) != _qdict(g.qualifiers):
                what_ = 'qualifiers-differ'
            if what_ == 'class-origin-missing' and \
                    what.startswith('EnumerateClasses'):
                ctx.fail('enum:EnumerateClasses-ignores-IncludeClassOrigin',
                         '%s: %s %s has class_origin None' %
                         (tag, label, x.name))
                continue
            ctx.fail('flags:%s-differs:%s' % (label, what_),
                     '%s: %s %s is %r, in the full answer %r' %
                     (tag, label, x.name, x, f))
    if not quals_on:
        if len(r.qualifiers):
            ctx.fail('flags:class-qualifiers-kept-with-IncludeQualifiers-'
                     'False', tag)
    else:
        fq, rq = _qdict(full.qualifiers), _qdict(r.qualifiers)
        bad = [k for k in rq if k not in fq or fq[k] != rq[k]]
        if bad or (not local and set(fq) != set(rq)):
            ctx.fail('flags:class-qualifiers-differ', '%s: %r vs full %r' %
                     (tag, sorted(rq), sorted(fq)))
        own = set(k for k, q in v['quals'].items() if q['src'] == 'own')
        if own & set(fq) - set(rq):
            ctx.fail('flags:own-class-qualifier-removed', tag)


def flags_oracle(ctx, forest):
    try:
        conn, model = build_forest(ctx, forest)
    except Abort:
        ctx.case(nontrivial=True, classes=('aborted',))
        return
    plists = [None, []] + list(forest['plists'])
    n = 0
    for i, ln in enumerate(model.classes):
        spelled = model.classes[ln]['name']
        full = get_full(conn, spelled)
        for lo, iq, ico in itertools.product(FLAGS, FLAGS, FLAGS):
            for j, pl in enumerate(plists):
                name = variant(spelled, forest['mask'], i + j + n)
                n += 1
                kw = {}
                # None is also expressed by leaving the argument out
                if lo is not None or (n & 1):
                    kw['LocalOnly'] = lo
                if iq is not None or (n & 2):
                    kw['IncludeQualifiers'] = iq
                if ico is not None or (n & 4):
                    kw['IncludeClassOrigin'] = ico
                if pl is not None or (n & 8):
                    kw['PropertyList'] = pl
                r = conn.GetClass(name, **kw)
                cmp_filtered(ctx, model, ln, full, r, lo, iq, ico, pl)
        # the full answer is not changed by the queries (no aliasing)
        again = get_full(conn, spelled)
        if again != full:
            ctx.fail('flags:stored-class-changed-by-queries', spelled)
    ctx.event('getclass-calls', n)
    cl, nontriv = classify(model, forest['mask'] != 0)
    ctx.case(nontrivial=nontriv, classes=cl)


# ---------------------------------------------------------------------------
# sub-check: enum (class and instance enumerations mirror the hierarchy)

def _sorted_lc(names):
    return sorted(lc(n) for n in names)


def check_class_enums(ctx, conn, model, mask, flags=None, targets=None):
    names = list(model.classes)
    if targets is None:
        targets = [None] + names
    for i, ln in enumerate(targets):
        for di in FLAGS:
            cn = None if ln is None else \
                variant(model.classes[ln]['name'], mask, i)
            exp = model.subtree(ln) if di else model.children(ln)
            kw = {}
            if cn is not None:
                kw['ClassName'] = cn
            if di is not None or i % 2:
                kw['DeepInheritance'] = di
            got = conn.EnumerateClassNames(**kw)
            tag = 'EnumerateClassNames(%r, DeepInheritance=%r)' % (cn, di)
            if _sorted_lc(got) != sorted(exp):
                m, e = _names_diff(exp, _sorted_lc(got))
                dup = len(got) != len(set(_sorted_lc(got)))
                ctx.fail('enum:classnames:%s:%s' % (
                    'DeepInheritance' if di else 'children',
                    'duplicates' if dup and not m and not e else
                    'missing' if m and not e else
                    'unexpected' if e and not m else 'both'),
                    '%s: missing %s, unexpected %s, got %s' %
                    (tag, m, e, got))
            if flags is None:
                continue
            lo, iq, ico = flags[(i + (0 if di is None else 1 + di)) %
                                len(flags)]
            classes = conn.EnumerateClasses(
                LocalOnly=lo, IncludeQualifiers=iq, IncludeClassOrigin=ico,
                **kw)
            got2 = [c.classname for c in classes]
            if _sorted_lc(got2) != _sorted_lc(got):
                ctx.fail('enum:classes-names-differ-from-classnames',
                         '%s: EnumerateClasses %s vs %s' % (tag, got2, got))
            for c in classes:
                k = lc(c.classname)
                if k in model.classes:
                    cmp_filtered(ctx, model, k,
                                 get_full(conn, c.classname), c, lo, iq,
                                 ico, None, what='EnumerateClasses[%r,%r]' %
                                 (cn, di))


def _inst_ids(paths):
    return sorted((lc(p.classname), p.keybindings[KEYNAME]) for p in paths)


def check_instance_enums(ctx, conn, model, mask, both=True):
    for i, ln in enumerate(model.classes):
        cn = variant(model.classes[ln]['name'], mask, i + 3)
        sub = set(model.subtree(ln)) | {ln}
        exp = sorted(x for x in model.instances if x[0] in sub)
        got = _inst_ids(conn.EnumerateInstanceNames(cn))
        if got != exp:
            m, e = _names_diff(exp, got)
            ctx.fail('enum:instancenames:%s' % (
                'missing' if m and not e else 'unexpected' if e and not m
                else 'duplicates' if not m and not e else 'both'),
                'EnumerateInstanceNames(%r): missing %s, unexpected %s' %
                (cn, m, e))
        if both:
            kw = {}
            if i % 3 == 1:
                kw['DeepInheritance'] = bool(i % 2)
            got = _inst_ids(x.path for x in
                            conn.EnumerateInstances(cn, **kw))
            if got != exp:
                m, e = _names_diff(exp, got)
                ctx.fail('enum:instances:%s' % (
                    'missing' if m and not e else 'unexpected' if e and
                    not m else 'duplicates' if not m and not e else 'both'),
                    'EnumerateInstances(%r): missing %s, unexpected %s' %
                    (cn, m, e))


def enum_oracle(ctx, forest):
    try:
        conn, model = build_forest(ctx, forest)
    except Abort:
        ctx.case(nontrivial=True, classes=('aborted',))
        return
    combos = list(itertools.product(FLAGS, FLAGS, FLAGS))
    k = forest['pick'] % 27
    flags = combos[k:] + combos[:k]
    check_class_enums(ctx, conn, model, forest['mask'], flags=flags)
    check_instance_enums(ctx, conn, model, forest['mask'])
    cl, nontriv = classify(model, forest['mask'] != 0)
    cl.append('instances:%d' % min(len(model.instances), 3))
    with_sub = any(i[0] != k and i[0] in model.subtree(k)
                   for i in model.instances for k in model.classes)
    if with_sub:
        cl.append('instances-in-subclasses')
    ctx.case(nontrivial=nontriv or with_sub, classes=cl)


# ---------------------------------------------------------------------------
# sub-check: delete (DeleteClass removes exactly the subtree + instances)

def snapshot(conn, model):
    snap = {}
    for ln, spec in model.classes.items():
        snap[ln] = get_full(conn, spec['name'])
    return snap


def stored_state(conn):
    "what the repository itself holds (public cimrepository API)"
    cs = conn.cimrepository.get_class_store(NS)
    ist = conn.cimrepository.get_instance_store(NS)
    classes = sorted(lc(c.classname) for c in cs.iter_values())
    insts = sorted((lc(i.path.classname), i.path.keybindings[KEYNAME])
                   for i in ist.iter_values())
    return classes, insts


def do_delete(ctx, conn, model, name):
    "DeleteClass(name) of an existing class + all checks"
    ln = lc(name)
    before = snapshot(conn, model)
    tsuper = model.superof(ln)
    conn.DeleteClass(name)
    gone = model.remove(ln)
    classes, insts = stored_state(conn)
    if classes != sorted(model.classes):
        m, e = _names_diff(sorted(model.classes), classes)
        ctx.fail('delete:classes:%s' % (
            'subtree-class-survives' if e and not m else
            'unrelated-class-removed' if m and not e else 'both'),
            'DeleteClass(%r): should remove %s; still stored although in '
            'the subtree: %s; removed although outside: %s' %
            (name, sorted(gone), e, m))
    if insts != sorted(model.instances):
        m, e = _names_diff(sorted(model.instances), insts)
        ctx.fail('delete:instances:%s' % (
            'subtree-instance-survives' if e and not m else
            'unrelated-instance-removed' if m and not e else 'both'),
            'DeleteClass(%r): surviving instances of removed classes: %s; '
            'lost instances of other classes: %s' % (name, e, m))
    for k in sorted(gone):
        try:
            conn.GetClass(before[k].classname)
        except CIMError:
            pass
        else:
            ctx.fail('delete:deleted-class-still-returned', k)
    views = {}
    for k, spec in model.classes.items():
        now = views[k] = get_full(conn, spec['name'])
        if now != before[k] and model.watch is None:
            ctx.fail('delete:unrelated-class-changed',
                     'DeleteClass(%r) changed %s: %r -> %r' %
                     (name, k, before[k], now))
    if model.watch is not None:
        model.watch.forget(gone)
        model.watch.check(ctx, conn, model, 'delete', ln, tsuper,
                          views=views)
    return gone


def delete_oracle(ctx, forest):
    try:
        conn, model = build_forest(ctx, forest)
    except Abort:
        ctx.case(nontrivial=True, classes=('aborted',))
        return
    cl, nontriv = classify(model, forest['mask'] != 0)
    pick = forest['pick']
    rounds = 0
    big = False
    while model.classes and rounds < 3:
        names = list(model.classes)
        ln = names[(pick + rounds * 7) % len(names)]
        name = variant(model.classes[ln]['name'], forest['mask'], rounds)
        n_sub = len(model.subtree(ln))
        had_inst = any(i[0] in set(model.subtree(ln)) | {ln}
                       for i in model.instances)
        gone = do_delete(ctx, conn, model, name)
        if n_sub and len(model.classes):
            big = True
        cl.append('deleted-subtree:%d' % min(len(gone), 4))
        if had_inst:
            cl.append('deleted-class-with-instances')
        check_class_enums(ctx, conn, model, forest['mask'], targets=[None])
        check_instance_enums(ctx, conn, model, forest['mask'], both=False)
        rounds += 1
    ctx.case(nontrivial=big, classes=sorted(set(cl)))


# ---------------------------------------------------------------------------
# sub-check: mof (the same forest compiled from MOF text)

def forest_mof(forest):
    parts = [mof_qdecl(d) for d in STD_QDECLS + forest['qdecls']]
    for spec in forest['classes']:
        parts.append(mof_class(spec))
    for cname, key in forest['instances']:
        parts.append('instance of %s { %s = "%s"; };\n' %
                     (cname, KEYNAME, key))
    return '\n'.join(parts)


def _qual_holders(klass):
    "-> [(label, NocaseDict of qualifiers)] of a class, in a fixed order"
    out = [('class', klass.qualifiers)]
    for label, elems in (('property', klass.properties),
                         ('method', klass.methods)):
        for ln in sorted(elems.keys(), key=lc):
            e = elems[ln]
            out.append(('%s %s' % (label, e.name), e.qualifiers))
            if label == 'method':
                for lp in sorted(e.parameters.keys(), key=lc):
                    x = e.parameters[lp]
                    out.append(('parameter %s(%s)' % (e.name, x.name),
                                x.qualifiers))
    return out


def cmp_with_createclass(ctx, forest, conn, model):
    """
    Differential oracle: the forest that was compiled from MOF text (flavor
    lists on the qualifier values) is created again through CreateClass
    (CIMQualifier objects with tosubclass= / overridable=) in a second
    connection; every class must resolve to the same full view.  Needs no
    model: it also covers what the model leaves unasserted.
    """
    conn2 = new_conn(forest['qdecls'])
    try:
        for spec in forest['classes']:
            conn2.CreateClass(b_class(spec))
    except CIMError:
        ctx.event('differential:skipped:CreateClass-rejects-what-MOF-accepts')
        return
    ctx.event('differential:forests-compared')
    differs = set()
    for ln, spec in model.classes.items():
        m = get_full(conn, spec['name'])
        c = get_full(conn2, spec['name'])
        if m == c:
            continue
        differs.add(ln)
        if model.superof(ln) in differs:
            ctx.event('cascade:differential-superclass-differs')
            continue
        what = set()
        hm, hc = _qual_holders(m), _qual_holders(c)
        detail = {}
        if [h[0].lower() for h in hm] != [h[0].lower() for h in hc]:
            what.add('elements')
        else:
            for (label, qm), (_, qc) in zip(hm, hc):
                qm, qc = _qdict(qm), _qdict(qc)
                if set(qm) != set(qc):
                    what.add('qualifier-set')
                    detail.setdefault('qualifier-set', '%s: %s vs %s' % (
                        label, sorted(qm), sorted(qc)))
                for lq in sorted(set(qm) & set(qc)):
                    for attr in ('value', 'type', 'tosubclass',
                                 'overridable', 'translatable',
                                 'toinstance', 'propagated'):
                        if getattr(qm[lq], attr) != getattr(qc[lq], attr):
                            what.add('qualifier-' + attr)
                            detail.setdefault(
                                'qualifier-' + attr,
                                '%s: qualifier %s: %s %r vs %r' % (
                                    label, qm[lq].name, attr,
                                    getattr(qm[lq], attr),
                                    getattr(qc[lq], attr)))
        # one signature per class: the difference nearest to a cause
        w = ([x for x in ('elements', 'qualifier-tosubclass',
                          'qualifier-overridable', 'qualifier-translatable',
                          'qualifier-toinstance', 'qualifier-set',
                          'qualifier-type', 'qualifier-value',
                          'qualifier-propagated') if x in what] +
             ['other'])[0]
        ctx.fail('mof:class-resolved-differently-than-through-CreateClass:'
                 '%s' % w, '%s (MOF vs CreateClass): %s\n%r\n%r' %
                 (spec['name'], detail.get(w, ''), m, c))


def mof_oracle(ctx, forest):
    model = Model(forest['qdecls'])
    bad = None
    bads = []
    ghost = False
    again = False
    for spec in forest['classes']:
        pv = model.preview(spec)
        if pv['violations'] or pv['loose'] or pv['class_loose']:
            bad = pv
            bads.append((spec, pv))
        ghost = ghost or pv['ghost_conflict']
        again = again or pv['restated_again']
        model.add(spec)
    for cname, key in forest['instances']:
        model.instances.append((lc(cname), key))
    text = forest_mof(forest)
    conn = pywbem_mock.FakedWBEMConnection(default_namespace=NS)
    model.watch = Watch()
    # every other forest is compiled class by class (one compile_mof_string()
    # per class) so that the classes that exist can be looked at in between
    stepwise = forest['pick'] % 2 == 1
    try:
        if stepwise:
            conn.compile_mof_string(''.join(
                mof_qdecl(d) for d in STD_QDECLS + forest['qdecls']))
            done = []
            for spec in forest['classes']:
                conn.compile_mof_string(mof_class(spec))
                done.append(lc(spec['name']))
                model.watch.check(ctx, conn, model, 'mof', done[-1],
                                  only=done)
            if forest['instances']:
                conn.compile_mof_string('\n'.join(
                    'instance of %s { %s = "%s"; };' % (cname, KEYNAME, key)
                    for cname, key in forest['instances']))
        else:
            conn.compile_mof_string(text)
    except pywbem.MOFCompileError as exc:
        cl, nontriv = classify(model)
        if stepwise:
            cl.append('mof:class-by-class')
        if bad is not None:
            ctx.case(nontrivial=nontriv,
                     classes=cl + ['via:mof', 'mof-rejected'])
            return
        sig = rejection_sig(list(model.classes.values()), ghost, str(exc),
                            again) \
            or 'mof:valid-mof-rejected:%s' % type(exc).__name__
        ctx.fail(sig, '%s\n---\n%s' % (str(exc)[:400], text[-1500:]))
        ctx.case(nontrivial=True, classes=cl + ['via:mof'])
        return
    for spec, pv in bads:
        if pv['violations']:
            report_violations(ctx, conn, spec, pv['violations'], 'mof')
    check_views(ctx, conn, model, forest['mask'], op='mof-instances')
    check_class_enums(ctx, conn, model, forest['mask'], targets=[None])
    check_instance_enums(ctx, conn, model, forest['mask'], both=False)
    cmp_with_createclass(ctx, forest, conn, model)
    cl, nontriv = classify(model, forest['mask'] != 0)
    if stepwise:
        cl.append('mof:class-by-class')
    ctx.case(nontrivial=nontriv, classes=cl + ['via:mof'])


# ---------------------------------------------------------------------------
# sub-check: history (CreateClass / ModifyClass / DeleteClass /
# CreateInstance in any order the server accepts)

class Machine:
    def __init__(self, ctx):
        self.ctx = ctx
        self.conn = None
        self.model = None
        self.qdecls = None
        self.counter = 0
        self.events = set()
        self.mask = 0

    def init_strategy(self):
        @st.composite
        def strat(draw):
            qd = _g_qdecls(draw)
            for d in qd:
                d['partial'] = False
            return dict(qdecls=qd, mask=draw(_MASK))
        return strat()

    def setup(self, init):
        self.qdecls = init['qdecls']
        self.mask = init['mask']
        self.conn = new_conn(self.qdecls)
        self.model = Model(self.qdecls)
        self.model.watch = Watch()

    # -- steps
    def step_strategy(self):
        model = self.model
        qdecls = self.qdecls
        nth = self.counter

        @st.composite
        def strat(draw):
            names = list(model.classes)
            r = draw(S._I100)
            if not names or r < 45:
                # create
                sup = None
                if names and draw(S._I10) < 8:
                    cands = [k for k in names if model.depth(k) < 5 and
                             len(model.children(k)) < 4]
                    if cands:
                        sup = cands[-1] if draw(S._I10) < 4 else \
                            cands[draw(S._I100) % len(cands)]
                if sup is None and len(model.children(None)) >= 4:
                    sup = names[0] if model.depth(names[0]) < 5 and \
                        len(model.children(names[0])) < 4 else None
                    if sup is None:
                        return ('check',)
                x = draw(S._I100)
                if names and x < 5:
                    # superclass that does not exist
                    spec = _g_class(draw, 'TST_N%d' % nth, 'TST_Missing',
                                    None, qdecls)
                    return ('create-nosuper', spec)
                if names and x < 10:
                    # a class name that exists (in another spelling)
                    old = model.classes[names[draw(S._I100) % len(names)]]
                    spec = _g_class(draw, _g_variant(draw, old['name'], 5),
                                    None, None, qdecls)
                    return ('create-dup', spec)
                ends = None
                if sup is None and names and draw(S._I10) < 2:
                    plain = [c['name'] for c in model.classes.values()
                             if not c['assoc']]
                    if plain:
                        ends = (plain[draw(S._I100) % len(plain)],
                                plain[draw(S._I100) % len(plain)])
                spec = _g_class(
                    draw, 'TST_%s%d' % ('Nn'[draw(S._B)], nth),
                    _g_variant(draw, model.classes[sup]['name'], 3)
                    if sup else None,
                    model.view(sup) if sup else None, qdecls,
                    assoc_ends=ends)
                return ('create', spec)
            if r < 65:
                # modify: mostly leaves without instances
                leaves = [k for k in names if not model.children(k) and
                          not any(i[0] == k for i in model.instances)]
                if leaves and draw(S._I10) < 8:
                    k = leaves[draw(S._I100) % len(leaves)]
                else:
                    k = names[draw(S._I100) % len(names)]
                old = model.classes[k]
                sup = model.superof(k)
                ends = None
                if old['assoc'] and sup is None:
                    refs = [p['refclass'] for p in old['props']
                            if p['type'] == 'reference']
                    ends = tuple(refs[:2]) if len(refs) >= 2 and all(
                        lc(x) in model.classes for x in refs[:2]) else None
                    if ends is None:
                        return ('check',)
                spec = _g_class(draw, _g_variant(draw, old['name'], 2),
                                _g_variant(draw, old['super'], 2)
                                if sup else None,
                                model.view(sup) if sup else None, qdecls,
                                assoc_ends=ends)
                return ('modify', spec)
            if r < 80:
                if draw(S._I10) < 1:
                    return ('delete', 'TST_Missing')
                k = names[draw(S._I100) % len(names)]
                return ('delete', _g_variant(draw, model.classes[k]['name'],
                                             3))
            keyed = [k for k in names if model.has_key(k)]
            if keyed:
                k = keyed[draw(S._I100) % len(keyed)]
                return ('inst', _g_variant(draw, model.classes[k]['name'],
                                           2), 'i%d' % nth)
            return ('check',)
        return strat()

    def _referenced(self, gone):
        "classes outside `gone` with a reference to a class in `gone`"
        out = []
        for k, spec in self.model.classes.items():
            if k in gone:
                continue
            for p in spec['props']:
                if p['type'] == 'reference' and lc(p['refclass']) in gone:
                    out.append(k)
        return out

    def apply(self, step):
        ctx, conn, model = self.ctx, self.conn, self.model
        self.counter += 1
        op = step[0]
        self.events.add(op)
        # the class the step names and its superclass (for Watch.check)
        target = tsuper = None
        if op in ('create', 'create-nosuper', 'create-dup', 'modify'):
            target = lc(step[1]['name'])
            tsuper = lc(step[1]['super']) if step[1]['super'] else None
        elif op in ('delete', 'inst'):
            target = lc(step[1])
            tsuper = model.superof(target) if target in model.classes \
                else None
        if op == 'create':
            create_class(ctx, conn, model, step[1])
        elif op in ('create-nosuper', 'create-dup'):
            try:
                conn.CreateClass(b_class(step[1]))
            except CIMError:
                pass
            else:
                ctx.fail('history:%s-accepted' % op, step[1]['name'])
                return False
        elif op == 'modify':
            spec = step[1]
            k = lc(spec['name'])
            if k not in model.classes:
                return True
            blocked = bool(model.children(k)) or any(
                i[0] == k for i in model.instances)
            if not blocked:
                self.events.add('modify-leaf')
                if create_class(ctx, conn, model, spec, how='modify'):
                    # only this class has a new view
                    model.watch.forget([k])
            else:
                try:
                    conn.ModifyClass(b_class(spec))
                except CIMError:
                    self.events.add('modify-blocked')
                else:
                    ctx.fail('history:ModifyClass-accepted-for-class-with-'
                             '%s' % ('subclasses' if model.children(k)
                                     else 'instances'), spec['name'])
                    return False
        elif op == 'delete':
            k = lc(step[1])
            if k not in model.classes:
                try:
                    conn.DeleteClass(step[1])
                except CIMError:
                    pass
                else:
                    ctx.fail('history:DeleteClass-of-missing-class-accepted',
                             step[1])
            else:
                gone = set(model.subtree(k)) | {k}
                if self._referenced(gone):
                    # deleting a class that association classes still refer
                    # to leaves dangling references: outside this property
                    return True
                if len(gone) > 1:
                    self.events.add('delete-subtree')
                do_delete(ctx, conn, model, step[1])
        elif op == 'inst':
            k = lc(step[1])
            if k in model.classes and model.has_key(k):
                conn.CreateInstance(CIMInstance(
                    step[1], properties={KEYNAME: step[2]}))
                model.instances.append((k, step[2]))
        # invariants after every step
        check_views(ctx, conn, model, self.mask + self.counter,
                    op=op.split('-')[0], target=target, tsuper=tsuper)
        check_class_enums(ctx, conn, model, self.mask + self.counter,
                          targets=[None] + list(model.classes)[-3:])
        check_instance_enums(ctx, conn, model, self.mask + self.counter,
                             both=False)
        classes, insts = stored_state(conn)
        if classes != sorted(model.classes) or \
                insts != sorted(model.instances):
            ctx.fail('history:repository-content-differs-after-%s' % op,
                     'classes %s vs model %s; instances %s vs model %s' %
                     (classes, sorted(model.classes), insts,
                      sorted(model.instances)))
            return False
        return True

    def finish(self):
        cl, nontriv = classify(self.model, True)
        cl += ['step:' + e for e in sorted(self.events)]
        self.ctx.case(nontrivial=nontriv or 'modify-leaf' in self.events or
                      'delete-subtree' in self.events, classes=cl)

    def teardown(self):
        self.conn = None


# ---------------------------------------------------------------------------

SENSITIVITY = [
    "_resolve_objects: copied (non-redeclared) elements no longer get "
    "propagated=True -> resolve/full:propagated-not-set-on-inherited-"
    "property, ...-method; flags/flags:inherited-property-not-removed:"
    "LocalOnly",
    "get_class: LocalOnly filter inverted for properties (if not "
    "prop.propagated) -> flags/flags:new-property-removed:LocalOnly=on, "
    "flags/flags:inherited-property-not-removed:LocalOnly",
    "_get_subclass_names: recursion only for ClassName=None -> "
    "enum/enum:classnames:DeepInheritance:missing, enum/enum:instancenames:"
    "missing, delete/delete:classes:subtree-class-survives, delete/delete:"
    "instances:subtree-instance-survives",
    "filter_properties compares case-sensitively (pname not in "
    "property_list) -> flags/flags:property-named-in-PropertyList-removed",
    "_set_new_object: class_origin of an overriding element set to the new "
    "class -> resolve/full:class-origin-wrong:property:override (and "
    ":method:override, :inherited)",
    "_resolve_qualifiers: Restricted qualifiers propagate to overriding "
    "elements (if inh_qual.tosubclass is not None) -> resolve/full:"
    "unexpected-qualifier:property:override, ...:method:override",
    "_get_subclass_list_for_enums: only direct subclasses -> enum/enum:"
    "instancenames:missing, enum/enum:instances:missing",
    "_resolve_qualifiers: an overridable inherited qualifier replaces the "
    "value the subclass declares -> resolve/full:qualifier-value-wrong:"
    "property:own, ...:method:own",
    "_remove_qualifiers leaves parameter qualifiers -> flags/flags:method-"
    "differs:qualifiers-kept-with-IncludeQualifiers-False",
    "DeleteClass deletes only instances whose class name equals ClassName "
    "-> delete/delete:instances:subtree-instance-survives, history/history:"
    "repository-content-differs-after-delete",
    "_resolve_qualifiers: DisableOverride value check disabled -> "
    "resolve/create:disableoverride-violation-accepted:property, ...:method",
    "ModifyClass does not resolve a class that has a superclass -> "
    "history/full:property-missing:inherited, history/full:class-origin-"
    "wrong:property:new",
    "_mof_compiler._build_flavors: a flavor stated as False on a qualifier "
    "value (Restricted / DisableOverride) is replaced by the declaration's "
    "(seeded change 4) -> resolve/full:flavor-stated-on-qualifier-value-"
    "not-honoured:tosubclass, ...:overridable, resolve/mof:class-resolved-"
    "differently-than-through-CreateClass:qualifier-tosubclass, "
    "...:qualifier-overridable",
    "_resolve_qualifiers: propagation to an overriding element decided by "
    "the declaration's flavor instead of the inherited value's (if "
    "qualifier_store.get(inh_qname).tosubclass is not False) -> resolve/"
    "full:unexpected-qualifier:property:override, ...:method:override, "
    "...:parameter:override, resolve/full:property-qualifier-not-"
    "propagated:override:on, ...method-qualifier-...; found only through "
    "values that state a flavor other than the declaration's (stated "
    "flavors are still exposed unchanged, MOF and CreateClass still agree)",
    "_resolve_class takes the superclass from the class store without copy "
    "and _resolve_qualifiers sets propagated=True on the inherited "
    "qualifier before copying it (seeded change 6) -> resolve/create:"
    "changes-other-class:superclass:qualifier-propagated, resolve/mof:"
    "changes-other-class:..., history/create:changes-other-class:..., "
    "history/modify:changes-other-class:...",
]

_BUDGET = (300, 3000)     # soft wall-clock stop per shard (loaded machine)

SUBCHECKS = [
    Sub('resolve', strategy=forest_strategy, oracle=resolve_oracle,
        quick=(16, 120), thorough=(16, 3000), budget=_BUDGET),
    Sub('flags', strategy=lambda: forest_strategy(max_classes=7,
                                                  instances=False,
                                                  via='quiet'),
        oracle=flags_oracle, quick=(16, 20), thorough=(16, 500),
        budget=_BUDGET),
    Sub('enum', strategy=lambda: forest_strategy(via='quiet'),
        oracle=enum_oracle, quick=(16, 50), thorough=(16, 1500),
        budget=_BUDGET),
    Sub('delete', strategy=lambda: forest_strategy(via='quiet'),
        oracle=delete_oracle, quick=(16, 50), thorough=(16, 1500),
        budget=_BUDGET),
    Sub('history', machine=Machine, quick=(16, 30), thorough=(16, 800),
        steps=(25, 50), budget=_BUDGET),
]
