"""
Shared generators (DESIGN.md section 3).

Strategies draw *recipes* (plain tuples/dicts/lists of Python data) and
``build()`` turns a recipe into pywbem objects, so that replay files do not
depend on pywbem's pickling and so that variants (case swaps, shuffles) are
plain data transformations.

Recipe forms:
  value:      ('val', type, scalar | None | [scalar|None, ...])
  scalars:    bool, str, int, float, ('ts', y, mo, d, h, mi, s, us, offset),
              ('iv', days, seconds, microseconds), ('dtstr', text),
              {'k': 'ipath', ...} / {'k': 'cpath', ...} for references,
              {'k': 'inst' ...} / {'k': 'class', ...} for embedded objects
"""

import math
import string as _string
from datetime import datetime, timedelta

from hypothesis import strategies as st

import pywbem
from pywbem import (CIMInstanceName, CIMClassName, CIMInstance, CIMClass,
                    CIMProperty, CIMMethod, CIMParameter, CIMQualifier,
                    CIMQualifierDeclaration, CIMDateTime, MinutesFromUTC,
                    Char16, Uint8, Uint16, Uint32, Uint64, Sint8, Sint16,
                    Sint32, Sint64, Real32, Real64)

INT_TYPES = {
    'uint8': Uint8, 'uint16': Uint16, 'uint32': Uint32, 'uint64': Uint64,
    'sint8': Sint8, 'sint16': Sint16, 'sint32': Sint32, 'sint64': Sint64,
}
REAL_TYPES = {'real32': Real32, 'real64': Real64}
INT_RANGE = {
    'uint8': (0, 2 ** 8 - 1), 'uint16': (0, 2 ** 16 - 1),
    'uint32': (0, 2 ** 32 - 1), 'uint64': (0, 2 ** 64 - 1),
    'sint8': (-2 ** 7, 2 ** 7 - 1), 'sint16': (-2 ** 15, 2 ** 15 - 1),
    'sint32': (-2 ** 31, 2 ** 31 - 1), 'sint64': (-2 ** 63, 2 ** 63 - 1),
}
SIMPLE_TYPES = ['boolean', 'string', 'char16', 'datetime'] + \
    sorted(INT_TYPES) + sorted(REAL_TYPES)
ALL_TYPES = SIMPLE_TYPES + ['reference']

# ---------------------------------------------------------------------------
# names

_ID_START = _string.ascii_letters + '_'
_ID_CONT = _string.ascii_letters + _string.digits + '_'


def ident(min_size=1, max_size=8):
    "DSP0004 identifier, ASCII"
    return st.builds(
        lambda a, b: a + b,
        st.sampled_from(_ID_START),
        st.text(alphabet=_ID_CONT, min_size=max(0, min_size - 1),
                max_size=max_size - 1))


def cim_name(max_size=8):
    "Identifier, mostly from a small pool so that collisions/variants happen"
    return st.one_of(
        st.sampled_from(['A', 'b', 'Cc', 'Dd_1', 'E_e', 'Name', 'Key', 'pX',
                         'CIM_Foo', 'TST_Bar', 'InstanceID', 'P1', 'p2']),
        ident(1, max_size))


def classname():
    return st.one_of(
        st.sampled_from(['CIM_Foo', 'TST_Bar', 'C1', 'My_Class', 'A_b']),
        st.builds(lambda a, b: a + '_' + b, ident(1, 4), ident(1, 5)),
        ident(1, 8))


def namespace():
    return st.one_of(
        st.sampled_from(['root/cimv2', 'interop', 'root', 'Root/CIMv2',
                         'a/b/c']),
        st.lists(ident(1, 6), min_size=1, max_size=3).map('/'.join))


def host():
    v6 = st.sampled_from(['[::1]', '[fe80::1]', '[2001:db8::7:8]',
                          '[2001:db8::1]:5989', '[::ffff:10.1.2.3]'])
    name = st.sampled_from(['myhost', 'srv1.example.com', 'Host2', 'h',
                            'woot.com', '10.11.12.13', 'myhost:5989',
                            '10.11.12.13:5988', 'H.Example.ORG:80'])
    gen = st.builds(lambda a, p: a + p, ident(1, 8).map(
        lambda s: s.replace('_', 'x')),
        st.sampled_from(['', '', ':5988', ':15989', '.example.com']))
    return st.one_of(name, v6, gen)


def swapcase_name(s, mask):
    "Variant of s that differs only in the case of ASCII letters"
    out = []
    for i, c in enumerate(s):
        if c in _string.ascii_letters and (mask >> (i % 30)) & 1:
            out.append(c.swapcase())
        else:
            out.append(c)
    return ''.join(out)


# ---------------------------------------------------------------------------
# strings

_XML_SPECIAL = ['&', '<', '>', '"', "'", ']]>', '<![CDATA[', '&amp;', '&lt;',
                '&#13;', '\r', '\n', '\t', '\r\n', ' ', '  ', '\\', '\\n',
                '%', '=', ',', ':', '/', '.', '\x85', ' ', 'ä',
                '€', '\U0001F600', '\U00010000', '퟿', '',
                '�', 'TRUE', '42', '-1', '1.5', 'NULL', '{', '}',
                '20180911124613.128000+000', '//h/root:C.k=1', '\x7f']


def _xml_char_ok(c):
    o = ord(c)
    return (o in (0x9, 0xA, 0xD) or 0x20 <= o <= 0xD7FF or
            0xE000 <= o <= 0xFFFD or 0x10000 <= o <= 0x10FFFF)


def xml_text(max_size=20):
    "Arbitrary text restricted to XML 1.0 Char"
    return st.text(
        alphabet=st.characters(blacklist_categories=('Cs',),
                               blacklist_characters='￾￿').filter(
                                   _xml_char_ok),
        max_size=max_size)


def cim_string(max_size=24, no_cr=False):
    """
    XML-1.0-representable string with boosted probability for characters
    that are sensitive for XML, MOF and URIs.
    """
    special = [s for s in _XML_SPECIAL if not (no_cr and '\r' in s)]
    pieces = st.one_of(
        st.sampled_from(special),
        st.text(alphabet=_string.ascii_letters + _string.digits + ' ',
                min_size=1, max_size=6),
        xml_text(4).filter(lambda s: not (no_cr and '\r' in s)),
    )
    return st.one_of(
        st.just(''),
        st.sampled_from(['a', ' ', ' a ', 'abc', 'Hello World']),
        st.lists(pieces, min_size=1, max_size=5).map(''.join).filter(
            lambda s: len(s) <= max_size),
    )


_XML_ILLEGAL = ['\x00', '\x01', '\x08', '\x0b', '\x0c', '\x1f', '￾',
                '￿', '\ud800', '\udfff', '\udc00']


def cim_string_illegal(max_size=24):
    "String profile with XML-illegal characters (C03)"
    pieces = st.one_of(st.sampled_from(_XML_ILLEGAL), cim_string(8))
    return st.lists(pieces, min_size=1, max_size=4).map(''.join)


def char16():
    return st.one_of(
        st.sampled_from(['a', 'Z', ' ', '&', '<', "'", '"', '\\', '\n', '\t',
                         'ä', '€', '�', '0']),
        st.characters(min_codepoint=0x20, max_codepoint=0xFFFD,
                      blacklist_categories=('Cs',)))


# ---------------------------------------------------------------------------
# numbers, datetimes

def cim_int(type_):
    lo, hi = INT_RANGE[type_]
    edge = [lo, lo + 1, hi - 1, hi, 0, 1]
    if lo < 0:
        edge.append(-1)
    return st.one_of(st.sampled_from(edge), st.integers(lo, hi))


def _to_f32(x):
    import struct
    try:
        return struct.unpack('f', struct.pack('f', x))[0]
    except OverflowError:
        return math.copysign(math.inf, x)


def cim_real(type_, allow_nan=True, allow_inf=True):
    width = 32 if type_ == 'real32' else 64
    special = [0.0, -0.0, 1.0, -1.0, 1.5, 0.1, 1e16, 1e22, 1e-7,
               123456789.0, 3.4028234663852886e+38, 1.401298464324817e-45]
    if width == 64:
        special += [1.7976931348623157e+308, 5e-324, 2.2250738585072014e-308,
                    0.30000000000000004, 9007199254740993.0]
    else:
        special = [_to_f32(x) for x in special]
    if allow_inf:
        special += [math.inf, -math.inf]
    if allow_nan:
        special += [math.nan]
    return st.one_of(
        st.sampled_from(special),
        st.floats(width=width, allow_nan=allow_nan,
                  allow_infinity=allow_inf))


def timestamp(offsets=True):
    "('ts', y, mo, d, h, mi, s, us, offset_minutes)"
    def mk(y, mo, d, h, mi, s, us, off):
        # clip day to the month
        import calendar
        d = min(d, calendar.monthrange(y, mo)[1])
        return ('ts', y, mo, d, h, mi, s, us, off)
    return st.builds(
        mk,
        st.one_of(st.sampled_from([1, 2, 1970, 2000, 2020, 2024, 9999]),
                  st.integers(1, 9999)),
        st.integers(1, 12),
        st.one_of(st.sampled_from([1, 28, 29, 30, 31]), st.integers(1, 31)),
        st.integers(0, 23), st.integers(0, 59), st.integers(0, 59),
        st.one_of(st.sampled_from([0, 1, 999999, 128000, 500000]),
                  st.integers(0, 999999)),
        st.one_of(st.sampled_from([0, 60, -60, 720, -720, 721, -721, 999,
                                   -999, 1, -1]),
                  st.integers(-999, 999)) if offsets else st.just(0))


def interval():
    "('iv', days, seconds, microseconds)"
    return st.builds(
        lambda d, s, us: ('iv', d, s, us),
        st.one_of(st.sampled_from([0, 1, 99999999, 99999998, 12345678]),
                  st.integers(0, 99999999)),
        st.one_of(st.sampled_from([0, 1, 86399, 3600, 3599, 60, 59]),
                  st.integers(0, 86399)),
        st.one_of(st.sampled_from([0, 1, 999999]), st.integers(0, 999999)))


def _aster(s, first):
    "Replace everything from index `first` to index 21 except '.' by '*'"
    return ''.join('*' if (first <= i < 21 and c != '.') else c
                   for i, c in enumerate(s))


# legal precisions (index of first asterisk) for the two kinds
TS_PRECISIONS = [4, 6, 8, 10, 12, 15, 16, 17, 18, 19, 20]
IV_PRECISIONS = [8, 10, 12, 15, 16, 17, 18, 19, 20]
# timestamp with asterisks from the year (0) makes year 0: rejected by pywbem
# (datetime cannot hold it); interval precision 0 is legal.
IV_PRECISIONS_ALL = [0] + IV_PRECISIONS


def dtstr_from(rec, precision):
    "DSP0004 string for a ts/iv recipe with asterisks from `precision`"
    if rec[0] == 'ts':
        _, y, mo, d, h, mi, s, us, off = rec
        base = '%04d%02d%02d%02d%02d%02d.%06d%s%03d' % (
            y, mo, d, h, mi, s, us, '+' if off >= 0 else '-', abs(off))
    else:
        _, days, secs, us = rec
        base = '%08d%02d%02d%02d.%06d:000' % (
            days, secs // 3600, secs % 3600 // 60, secs % 60, us)
    if precision is None:
        return base
    return _aster(base, precision)


def datetime_scalar():
    "ts | iv | dtstr (with asterisks)"
    def with_prec(rec, p):
        precs = TS_PRECISIONS if rec[0] == 'ts' else IV_PRECISIONS_ALL
        return ('dtstr', dtstr_from(rec, precs[p % len(precs)]))
    return st.one_of(
        timestamp(), interval(),
        st.builds(with_prec, st.one_of(timestamp(), interval()),
                  st.integers(0, 50)))


def build_datetime(rec):
    if rec[0] == 'ts':
        _, y, mo, d, h, mi, s, us, off = rec
        return CIMDateTime(datetime(y, mo, d, h, mi, s, us,
                                    MinutesFromUTC(off)))
    if rec[0] == 'iv':
        return CIMDateTime(timedelta(days=rec[1], seconds=rec[2],
                                     microseconds=rec[3]))
    if rec[0] == 'dtstr':
        return CIMDateTime(rec[1])
    raise ValueError(rec)


# ---------------------------------------------------------------------------
# typed values

def scalar(type_, ref_depth=1, strings=None, allow_nan=True):
    if type_ == 'boolean':
        return st.booleans()
    if type_ == 'string':
        return strings if strings is not None else cim_string()
    if type_ == 'char16':
        return char16()
    if type_ == 'datetime':
        return datetime_scalar()
    if type_ in INT_TYPES:
        return cim_int(type_)
    if type_ in REAL_TYPES:
        return cim_real(type_, allow_nan=allow_nan)
    if type_ == 'reference':
        return instance_path(depth=ref_depth)
    raise ValueError(type_)


def build_scalar(type_, v):
    if v is None:
        return None
    if type_ == 'boolean':
        return bool(v)
    if type_ == 'string':
        if isinstance(v, dict):
            return build(v)     # embedded object
        return v
    if type_ == 'char16':
        return v
    if type_ == 'datetime':
        return build_datetime(v)
    if type_ in INT_TYPES:
        return INT_TYPES[type_](v)
    if type_ in REAL_TYPES:
        return REAL_TYPES[type_](v)
    if type_ == 'reference':
        return build(v)
    raise ValueError(type_)


def build_value(type_, v):
    if isinstance(v, list):
        return [build_scalar(type_, x) for x in v]
    return build_scalar(type_, v)


def array_of(elem, max_size=4, nulls=True):
    e = st.one_of(st.none(), elem) if nulls else elem
    return st.lists(e, max_size=max_size)


def typed_value(types=None, arrays=True, nulls=True, ref_depth=1,
                strings=None, allow_nan=True):
    """
    (type, is_array, value): value None | scalar | list
    """
    types = types or ALL_TYPES

    def for_type(t):
        sc = scalar(t, ref_depth=ref_depth, strings=strings,
                    allow_nan=allow_nan)
        opts = [sc.map(lambda v: (t, False, v))]
        if nulls:
            opts.append(st.just((t, False, None)))
        if arrays:
            opts.append(array_of(sc).map(lambda v: (t, True, v)))
            if nulls:
                opts.append(st.just((t, True, None)))
        return st.one_of(opts)
    return st.sampled_from(types).flatmap(for_type)


# ---------------------------------------------------------------------------
# paths

KEY_TYPES = ['string', 'string', 'boolean', 'char16', 'datetime', 'uint8',
             'sint32', 'uint64', 'real32', 'real64', 'int', 'float']


def keyvalue(depth, key_types=None, strings=None, allow_nan=False):
    """
    (ktype, v): ktype in KEY_TYPES or 'reference'; 'int'/'float' are plain
    Python numbers (untyped keybindings).
    """
    kts = list(key_types or KEY_TYPES)

    def for_type(t):
        if t == 'int':
            return st.integers(-2 ** 63, 2 ** 64 - 1).map(lambda v: (t, v))
        if t == 'float':
            return cim_real('real64', allow_nan=allow_nan).map(
                lambda v: (t, v))
        if t == 'reference':
            return instance_path(depth=depth - 1, key_types=key_types,
                                 strings=strings).map(lambda v: (t, v))
        return scalar(t, strings=strings, allow_nan=allow_nan).map(
            lambda v: (t, v))
    if depth > 0:
        kts = kts + ['reference', 'reference']
    return st.sampled_from(kts).flatmap(for_type)


def keybindings(depth=1, min_size=1, max_size=3, key_types=None,
                strings=None):
    "list of (name, ktype, value) with case-insensitively unique names"
    return st.lists(
        st.tuples(cim_name(), keyvalue(depth, key_types, strings)),
        min_size=min_size, max_size=max_size,
        unique_by=lambda kv: kv[0].lower()).map(
            lambda l: [(n, kt, v) for n, (kt, v) in l])


def instance_path(depth=1, with_ns=None, with_host=None, key_types=None,
                  strings=None, min_keys=1):
    """
    {'k':'ipath','classname','keys':[(name, ktype, v)],'namespace','host'}
    host only together with a namespace.
    """
    def mk(cn, keys, ns, h):
        if ns is None:
            h = None
        return {'k': 'ipath', 'classname': cn, 'keys': keys,
                'namespace': ns, 'host': h}
    ns = st.one_of(st.none(), namespace())
    if with_ns is True:
        ns = namespace()
    elif with_ns is False:
        ns = st.none()
    h = st.one_of(st.none(), host())
    if with_host is True:
        h = host()
    elif with_host is False:
        h = st.none()
    return st.builds(mk, classname(),
                     keybindings(depth, min_keys, 3, key_types, strings),
                     ns, h)


def class_path(with_ns=None, with_host=None):
    def mk(cn, ns, h):
        if ns is None:
            h = None
        return {'k': 'cpath', 'classname': cn, 'namespace': ns, 'host': h}
    ns = st.one_of(st.none(), namespace())
    if with_ns is True:
        ns = namespace()
    elif with_ns is False:
        ns = st.none()
    h = st.one_of(st.none(), host())
    if with_host is True:
        h = host()
    elif with_host is False:
        h = st.none()
    return st.builds(mk, classname(), ns, h)


def build_keyvalue(kt, v):
    if kt == 'int':
        return int(v)
    if kt == 'float':
        return float(v)
    if kt == 'char16':
        return Char16(v)
    return build_scalar(kt, v)


# ---------------------------------------------------------------------------
# qualifiers, properties, methods, classes, instances

QUAL_TYPES = ['boolean', 'string', 'char16', 'datetime'] + \
    sorted(INT_TYPES) + sorted(REAL_TYPES)
tristate = st.sampled_from([None, True, False])


def qualifier(strings=None, allow_nan=True, flavors=True):
    def mk(name, tv, prop, ov, tos, toi, tr):
        t, is_arr, v = tv
        return {'k': 'qual', 'name': name, 'type': t, 'value': v,
                'is_array': is_arr,
                'propagated': prop, 'overridable': ov, 'tosubclass': tos,
                'toinstance': toi, 'translatable': tr}
    fl = tristate if flavors else st.none()
    return st.builds(
        mk, st.one_of(st.sampled_from(['Description', 'Key', 'MaxLen',
                                       'Values', 'ValueMap', 'Q1']),
                      cim_name()),
        typed_value(QUAL_TYPES, strings=strings, allow_nan=allow_nan),
        fl, fl, fl, fl, fl)


def qualifiers(max_size=2, **kw):
    return st.lists(qualifier(**kw), max_size=max_size,
                    unique_by=lambda q: q['name'].lower())


SCOPES = ['CLASS', 'ASSOCIATION', 'INDICATION', 'PROPERTY', 'REFERENCE',
          'METHOD', 'PARAMETER', 'ANY']


def qualifier_declaration(strings=None, allow_nan=True):
    def mk(name, tv, asz, scopes, ov, tos, toi, tr):
        t, is_arr, v = tv
        return {'k': 'qualdecl', 'name': name, 'type': t, 'value': v,
                'is_array': is_arr,
                'array_size': asz if is_arr else None,
                'scopes': scopes, 'overridable': ov, 'tosubclass': tos,
                'toinstance': toi, 'translatable': tr}
    return st.builds(
        mk, cim_name(),
        typed_value(QUAL_TYPES, strings=strings, allow_nan=allow_nan),
        st.one_of(st.none(), st.integers(1, 9)),
        st.one_of(st.none(),
                  st.dictionaries(st.sampled_from(SCOPES), st.booleans(),
                                  max_size=4).map(
                                      lambda d: sorted(d.items()))),
        tristate, tristate, tristate, tristate)


def embedded_value(depth, kind):
    "scalar embedded object recipe"
    if kind == 'instance':
        return cim_instance(depth=depth - 1, with_path=False)
    return st.one_of(cim_instance(depth=depth - 1, with_path=False),
                     cim_class(depth=depth - 1, small=True))


def cim_property(depth=0, decl=None, strings=None, allow_nan=True,
                 quals=True, ref_depth=1):
    """
    {'k':'prop', name, type, value, is_array, array_size, reference_class,
     embedded_object, class_origin, propagated, qualifiers}
    """
    def mk(name, tv, asz, refcls, co, prop, qs):
        t, is_arr, v = tv
        return {'k': 'prop', 'name': name, 'type': t, 'value': v,
                'is_array': is_arr,
                'array_size': asz if is_arr else None,
                'reference_class': refcls if t == 'reference' else None,
                'embedded_object': None,
                'class_origin': co, 'propagated': prop, 'qualifiers': qs}
    # references cannot be arrays in properties
    def tv_filter(tv):
        return not (tv[0] == 'reference' and tv[1])
    base = st.builds(
        mk, cim_name(),
        typed_value(ALL_TYPES, strings=strings, allow_nan=allow_nan,
                    ref_depth=ref_depth).filter(tv_filter),
        st.one_of(st.none(), st.integers(1, 9)),
        st.one_of(st.none(), classname()),
        st.one_of(st.none(), classname()),
        tristate,
        qualifiers(strings=strings, allow_nan=allow_nan) if quals
        else st.just([]))
    if depth <= 0:
        return base

    def mk_emb(name, kind, is_arr, vals, co, prop, qs):
        if is_arr:
            v = vals
        else:
            v = vals[0] if vals else None
        return {'k': 'prop', 'name': name, 'type': 'string', 'value': v,
                'is_array': is_arr, 'array_size': None,
                'reference_class': None, 'embedded_object': kind,
                'class_origin': co, 'propagated': prop, 'qualifiers': qs}
    emb = st.sampled_from(['instance', 'object']).flatmap(
        lambda kind: st.builds(
            mk_emb, cim_name(), st.just(kind), st.booleans(),
            st.lists(embedded_value(depth, kind), min_size=1, max_size=2),
            st.one_of(st.none(), classname()), tristate,
            qualifiers(strings=strings, allow_nan=allow_nan) if quals
            else st.just([])))
    return st.one_of(base, base, emb)


def properties(depth=0, max_size=3, **kw):
    return st.lists(cim_property(depth=depth, **kw), max_size=max_size,
                    unique_by=lambda p: p['name'].lower())


def cim_parameter(strings=None, allow_nan=True, quals=True, with_value=False):
    def mk(name, tv, asz, refcls, qs):
        t, is_arr, v = tv
        return {'k': 'param', 'name': name, 'type': t,
                'value': v if with_value else None,
                'is_array': is_arr,
                'array_size': asz if is_arr else None,
                'reference_class': refcls if t == 'reference' else None,
                'embedded_object': None, 'qualifiers': qs}
    return st.builds(
        mk, cim_name(),
        typed_value(ALL_TYPES, strings=strings, allow_nan=allow_nan),
        st.one_of(st.none(), st.integers(1, 9)),
        st.one_of(st.none(), classname()),
        qualifiers(strings=strings, allow_nan=allow_nan) if quals
        else st.just([]))


def cim_method(strings=None, allow_nan=True):
    def mk(name, rt, params, co, prop, qs):
        return {'k': 'meth', 'name': name, 'return_type': rt,
                'parameters': params, 'class_origin': co, 'propagated': prop,
                'qualifiers': qs}
    return st.builds(
        mk, cim_name(), st.sampled_from(SIMPLE_TYPES),
        st.lists(cim_parameter(strings=strings, allow_nan=allow_nan),
                 max_size=3, unique_by=lambda p: p['name'].lower()),
        st.one_of(st.none(), classname()), tristate,
        qualifiers(strings=strings, allow_nan=allow_nan))


def cim_instance(depth=0, with_path=None, strings=None, allow_nan=True,
                 path_kinds=('none', 'keys', 'ns', 'host')):
    """
    {'k':'inst', classname, properties, qualifiers, path}
    path kinds: None | keys only | with namespace | with host+namespace
    """
    def mk(cn, props, qs, pk, path):
        if pk == 'none':
            p = None
        else:
            p = dict(path)
            p['classname'] = cn
            if pk == 'keys':
                p['namespace'] = None
                p['host'] = None
            elif pk == 'ns':
                p['namespace'] = p['namespace'] or 'root/cimv2'
                p['host'] = None
            else:
                p['namespace'] = p['namespace'] or 'root/cimv2'
                p['host'] = p['host'] or 'myhost'
        return {'k': 'inst', 'classname': cn, 'properties': props,
                'qualifiers': qs, 'path': p}
    if with_path is False:
        pk = st.just('none')
    elif with_path is True:
        pk = st.sampled_from([k for k in path_kinds if k != 'none'])
    else:
        pk = st.sampled_from(list(path_kinds))
    return st.builds(
        mk, classname(),
        properties(depth=depth, strings=strings, allow_nan=allow_nan),
        qualifiers(max_size=1, strings=strings, allow_nan=allow_nan),
        pk, instance_path(depth=1, strings=strings))


def cim_class(depth=0, small=False, strings=None, allow_nan=True):
    def mk(cn, sup, props, meths, qs):
        return {'k': 'class', 'classname': cn, 'superclass': sup,
                'properties': props, 'methods': meths, 'qualifiers': qs}
    return st.builds(
        mk, classname(), st.one_of(st.none(), classname()),
        properties(depth=depth, max_size=2 if small else 3, strings=strings,
                   allow_nan=allow_nan),
        st.lists(cim_method(strings=strings, allow_nan=allow_nan),
                 max_size=1 if small else 2,
                 unique_by=lambda m: m['name'].lower()),
        qualifiers(strings=strings, allow_nan=allow_nan))


# ---------------------------------------------------------------------------
# build

def _build_quals(qs):
    return [build(q) for q in qs]


def build(r):
    "recipe -> pywbem object"
    if r is None:
        return None
    k = r['k']
    if k == 'ipath':
        kbs = [(n, build_keyvalue(kt, v)) for n, kt, v in r['keys']]
        return CIMInstanceName(r['classname'], keybindings=kbs,
                               host=r['host'], namespace=r['namespace'])
    if k == 'cpath':
        return CIMClassName(r['classname'], host=r['host'],
                            namespace=r['namespace'])
    if k == 'qual':
        return CIMQualifier(
            r['name'], build_value(r['type'], r['value']), type=r['type'],
            propagated=r['propagated'], overridable=r['overridable'],
            tosubclass=r['tosubclass'], toinstance=r['toinstance'],
            translatable=r['translatable'])
    if k == 'qualdecl':
        scopes = dict(r['scopes']) if r['scopes'] is not None else None
        return CIMQualifierDeclaration(
            r['name'], r['type'], value=build_value(r['type'], r['value']),
            is_array=r['is_array'], array_size=r['array_size'],
            scopes=scopes, overridable=r['overridable'],
            tosubclass=r['tosubclass'], toinstance=r['toinstance'],
            translatable=r['translatable'])
    if k == 'prop':
        return CIMProperty(
            r['name'], build_value(r['type'], r['value']), type=r['type'],
            class_origin=r['class_origin'], array_size=r['array_size'],
            propagated=r['propagated'], is_array=r['is_array'],
            reference_class=r['reference_class'],
            qualifiers=_build_quals(r['qualifiers']),
            embedded_object=r['embedded_object'])
    if k == 'param':
        return CIMParameter(
            r['name'], r['type'], reference_class=r['reference_class'],
            is_array=r['is_array'], array_size=r['array_size'],
            qualifiers=_build_quals(r['qualifiers']),
            value=build_value(r['type'], r['value']),
            embedded_object=r['embedded_object'])
    if k == 'meth':
        return CIMMethod(
            r['name'], r['return_type'],
            parameters=[build(p) for p in r['parameters']],
            class_origin=r['class_origin'], propagated=r['propagated'],
            qualifiers=_build_quals(r['qualifiers']))
    if k == 'inst':
        return CIMInstance(
            r['classname'], properties=[build(p) for p in r['properties']],
            qualifiers=_build_quals(r['qualifiers']), path=build(r['path']))
    if k == 'class':
        return CIMClass(
            r['classname'], properties=[build(p) for p in r['properties']],
            methods=[build(m) for m in r['methods']],
            superclass=r['superclass'],
            qualifiers=_build_quals(r['qualifiers']))
    raise ValueError('unknown recipe kind %r' % (k,))


# ---------------------------------------------------------------------------
# recipe inspection helpers (non-triviality classification)

def walk(r):
    "yield all nested recipes/values"
    yield r
    if isinstance(r, dict):
        for v in r.values():
            yield from walk(v)
    elif isinstance(r, (list, tuple)):
        for v in r:
            yield from walk(v)


def has_null_entry(r):
    for x in walk(r):
        if isinstance(x, list) and any(e is None for e in x) and \
                not any(isinstance(e, (dict, tuple)) and
                        not (isinstance(e, tuple) and e and
                             e[0] in ('ts', 'iv', 'dtstr')) for e in x):
            return True
    return False


def interesting_string(r):
    for x in walk(r):
        if isinstance(x, str) and x and (
                any(ord(c) > 127 or c in '&<>"\'\r\n\t\\' for c in x) or
                x != x.strip()):
            return True
    return False


def embedded_depth(r, d=0):
    best = d
    if isinstance(r, dict):
        if r.get('k') == 'prop' and r.get('embedded_object'):
            best = max(best, embedded_depth(r['value'], d + 1))
            return best
        for v in r.values():
            best = max(best, embedded_depth(v, d))
    elif isinstance(r, (list, tuple)):
        for v in r:
            best = max(best, embedded_depth(v, d))
    return best


def has_nested_ref(r):
    for x in walk(r):
        if isinstance(x, dict) and x.get('k') == 'ipath':
            for _, kt, _v in x['keys']:
                if kt == 'reference':
                    return True
    return False
