"""
Shared generators (DESIGN.md section 3).

Strategies draw *recipes* (plain tuples/dicts/lists of Python data) and
``build()`` turns a recipe into pywbem objects, so that replay files do not
depend on pywbem's pickling and so that variants (case swaps, shuffles) are
plain data transformations.

Recipe forms:
  value:      ('val', type, scalar | None | [scalar|None, ...])
  scalars:    bool, str, int, float, ('ts', y, mo, d, h, mi, s, us, offset),
              ('iv', days, seconds, microseconds), ('dtstr', text),
              {'k': 'ipath', ...} / {'k': 'cpath', ...} for references,
              {'k': 'inst' ...} / {'k': 'class', ...} for embedded objects
"""

import math
import string as _string
from datetime import datetime, timedelta

from hypothesis import strategies as st

import pywbem
from pywbem import (CIMInstanceName, CIMClassName, CIMInstance, CIMClass,
                    CIMProperty, CIMMethod, CIMParameter, CIMQualifier,
                    CIMQualifierDeclaration, CIMDateTime, MinutesFromUTC,
                    Char16, Uint8, Uint16, Uint32, Uint64, Sint8, Sint16,
                    Sint32, Sint64, Real32, Real64)

INT_TYPES = {
    'uint8': Uint8, 'uint16': Uint16, 'uint32': Uint32, 'uint64': Uint64,
    'sint8': Sint8, 'sint16': Sint16, 'sint32': Sint32, 'sint64': Sint64,
}
REAL_TYPES = {'real32': Real32, 'real64': Real64}
INT_RANGE = {
    'uint8': (0, 2 ** 8 - 1), 'uint16': (0, 2 ** 16 - 1),
    'uint32': (0, 2 ** 32 - 1), 'uint64': (0, 2 ** 64 - 1),
    'sint8': (-2 ** 7, 2 ** 7 - 1), 'sint16': (-2 ** 15, 2 ** 15 - 1),
    'sint32': (-2 ** 31, 2 ** 31 - 1), 'sint64': (-2 ** 63, 2 ** 63 - 1),
}
SIMPLE_TYPES = ['boolean', 'string', 'char16', 'datetime'] + \
    sorted(INT_TYPES) + sorted(REAL_TYPES)
ALL_TYPES = SIMPLE_TYPES + ['reference']

# ---------------------------------------------------------------------------
# Implementation note: generators are plain functions ``_g_xxx(draw, ...)``
# over prebuilt atomic strategies; the public functions wrap them with
# st.composite.  (A tree of one_of/flatmap/builds strategies that is rebuilt
# on every draw costs ~30 ms per object; this form costs ~1-2 ms.)

def _wrap(fn, *args, **kw):
    @st.composite
    def strat(draw):
        return fn(draw, *args, **kw)
    return strat()


_B = st.booleans()
_TRI = st.sampled_from([None, True, False])
tristate = _TRI
_I10 = st.integers(0, 9)
_I100 = st.integers(0, 99)

# ---------------------------------------------------------------------------
# names

_ID_START = _string.ascii_letters + '_'
_ID_CONT = _string.ascii_letters + _string.digits + '_'


def ident(min_size=1, max_size=8):
    "DSP0004 identifier, ASCII"
    return st.builds(
        lambda a, b: a + b,
        st.sampled_from(_ID_START),
        st.text(alphabet=_ID_CONT, min_size=max(0, min_size - 1),
                max_size=max_size - 1))


_NAME_POOL = ['A', 'b', 'Cc', 'Dd_1', 'E_e', 'Name', 'Key', 'pX',
              'CIM_Foo', 'TST_Bar', 'InstanceID', 'P1', 'p2']
_NAME = st.one_of(st.sampled_from(_NAME_POOL), ident(1, 8))


def cim_name(max_size=8):
    "Identifier, mostly from a small pool so that collisions/variants happen"
    if max_size == 8:
        return _NAME
    return st.one_of(st.sampled_from(_NAME_POOL), ident(1, max_size))


_CLASSNAME = st.one_of(
    st.sampled_from(['CIM_Foo', 'TST_Bar', 'C1', 'My_Class', 'A_b']),
    st.builds(lambda a, b: a + '_' + b, ident(1, 4), ident(1, 5)),
    ident(1, 8))


def classname():
    return _CLASSNAME


_NAMESPACE = st.one_of(
    st.sampled_from(['root/cimv2', 'interop', 'root', 'Root/CIMv2',
                     'a/b/c']),
    st.lists(ident(1, 6), min_size=1, max_size=3).map('/'.join))


def namespace():
    return _NAMESPACE


_HOST = st.one_of(
    st.sampled_from(['myhost', 'srv1.example.com', 'Host2', 'h',
                     'woot.com', '10.11.12.13', 'myhost:5989',
                     '10.11.12.13:5988', 'H.Example.ORG:80']),
    st.sampled_from(['[::1]', '[fe80::1]', '[2001:db8::7:8]',
                     '[2001:db8::1]:5989', '[::ffff:10.1.2.3]']),
    st.builds(lambda a, p: a + p,
              ident(1, 8).map(lambda s: s.replace('_', 'x')),
              st.sampled_from(['', '', ':5988', ':15989', '.example.com'])))


def host():
    return _HOST


def swapcase_name(s, mask):
    "Variant of s that differs only in the case of ASCII letters"
    out = []
    for i, c in enumerate(s):
        if c in _string.ascii_letters and (mask >> (i % 30)) & 1:
            out.append(c.swapcase())
        else:
            out.append(c)
    return ''.join(out)


# ---------------------------------------------------------------------------
# strings

_XML_SPECIAL = ['&', '<', '>', '"', "'", ']]>', '<![CDATA[', '&amp;', '&lt;',
                '&#13;', '\r', '\n', '\t', '\r\n', '\r', ' ', '  ', '\\',
                '\\n', '%', '=', ',', ':', '/', '.', '\x85', ' ',
                'ä', '€', '\U0001F600', '\U00010000', '퟿',
                '', '�', 'TRUE', '42', '-1', '1.5', 'NULL', '{',
                '}', '{}', '{0}', '{x}', '{0!A}', '%s', '%(x)s', '{{',
                '20180911124613.128000+000', '//h/root:C.k=1', '\x7f']


def _xml_char_ok(c):
    o = ord(c)
    return (o in (0x9, 0xA, 0xD) or 0x20 <= o <= 0xD7FF or
            0xE000 <= o <= 0xFFFD or 0x10000 <= o <= 0x10FFFF)


_XML_CHARS = st.characters(blacklist_categories=('Cs',),
                           blacklist_characters='￾￿').filter(
                               _xml_char_ok)


def xml_text(max_size=20):
    "Arbitrary text restricted to XML 1.0 Char"
    return st.text(alphabet=_XML_CHARS, max_size=max_size)


_ASCII_WORD = st.text(alphabet=_string.ascii_letters + _string.digits + ' ',
                      min_size=1, max_size=6)


def cim_string(max_size=24, no_cr=False):
    """
    XML-1.0-representable string with boosted probability for characters
    that are sensitive for XML, MOF and URIs.
    """
    special = [s for s in _XML_SPECIAL if not (no_cr and '\r' in s)]
    pieces = st.one_of(
        st.sampled_from(special),
        st.sampled_from(special),
        _ASCII_WORD,
        xml_text(4).filter(lambda s: not (no_cr and '\r' in s)),
    )
    return st.one_of(
        st.just(''),
        st.sampled_from(['a', ' ', ' a ', 'abc', 'Hello World']),
        st.lists(pieces, min_size=1, max_size=5).map(
            lambda l: ''.join(l)[:max_size]),
        st.lists(pieces, min_size=1, max_size=5).map(
            lambda l: ''.join(l)[:max_size]),
    )


_CIMSTR = cim_string()

_XML_ILLEGAL = ['\x00', '\x01', '\x08', '\x0b', '\x0c', '\x1f', '￾',
                '￿', '\ud800', '\udfff', '\udc00']


def cim_string_illegal(max_size=24):
    "String profile with XML-illegal characters (C03)"
    pieces = st.one_of(st.sampled_from(_XML_ILLEGAL), cim_string(8))
    return st.lists(pieces, min_size=1, max_size=4).map(''.join)


_CHAR16 = st.one_of(
    st.sampled_from(['a', 'Z', ' ', '&', '<', "'", '"', '\\', '\n', '\t',
                     '\r', 'ä', '€', '�', '0']),
    st.characters(min_codepoint=0x20, max_codepoint=0xFFFD,
                  blacklist_categories=('Cs',)))


def char16():
    return _CHAR16


# ---------------------------------------------------------------------------
# numbers, datetimes

def cim_int(type_):
    lo, hi = INT_RANGE[type_]
    edge = [lo, lo + 1, hi - 1, hi, 0, 1]
    if lo < 0:
        edge.append(-1)
    return st.one_of(st.sampled_from(edge), st.integers(lo, hi))


_INT = {t: cim_int(t) for t in INT_TYPES}


def _to_f32(x):
    import struct
    try:
        return struct.unpack('f', struct.pack('f', x))[0]
    except OverflowError:
        return math.copysign(math.inf, x)


def cim_real(type_, allow_nan=True, allow_inf=True):
    width = 32 if type_ == 'real32' else 64
    special = [0.0, -0.0, 1.0, -1.0, 1.5, 0.1, 1e16, 1e22, 1e-7,
               123456789.0, 3.4028234663852886e+38, 1.401298464324817e-45]
    if width == 64:
        special += [1.7976931348623157e+308, 5e-324, 2.2250738585072014e-308,
                    0.30000000000000004, 9007199254740993.0]
    else:
        special = [_to_f32(x) for x in special]
    if allow_inf:
        special += [math.inf, -math.inf]
    if allow_nan:
        special += [math.nan]
    return st.one_of(
        st.sampled_from(special),
        st.floats(width=width, allow_nan=allow_nan,
                  allow_infinity=allow_inf))


_REAL = {(t, n): cim_real(t, allow_nan=n) for t in REAL_TYPES
         for n in (True, False)}

_TS_ATOMS = (
    st.one_of(st.sampled_from([1, 2, 1970, 2000, 2020, 2024, 9999]),
              st.integers(1, 9999)),
    st.integers(1, 12),
    st.one_of(st.sampled_from([1, 28, 29, 30, 31]), st.integers(1, 31)),
    st.integers(0, 23), st.integers(0, 59), st.integers(0, 59),
    st.one_of(st.sampled_from([0, 1, 999999, 128000, 500000]),
              st.integers(0, 999999)),
    st.one_of(st.sampled_from([0, 60, -60, 720, -720, 721, -721, 999,
                               -999, 1, -1]),
              st.integers(-999, 999)))


def _g_timestamp(draw, offsets=True):
    import calendar
    y, mo, d, h, mi, s, us = [draw(a) for a in _TS_ATOMS[:7]]
    off = draw(_TS_ATOMS[7]) if offsets else 0
    d = min(d, calendar.monthrange(y, mo)[1])
    return ('ts', y, mo, d, h, mi, s, us, off)


def timestamp(offsets=True):
    "('ts', y, mo, d, h, mi, s, us, offset_minutes)"
    return _wrap(_g_timestamp, offsets)


_IV_ATOMS = (
    st.one_of(st.sampled_from([0, 1, 99999999, 99999998, 12345678]),
              st.integers(0, 99999999)),
    st.one_of(st.sampled_from([0, 1, 86399, 3600, 3599, 60, 59]),
              st.integers(0, 86399)),
    st.one_of(st.sampled_from([0, 1, 999999]), st.integers(0, 999999)))


def _g_interval(draw):
    return ('iv',) + tuple(draw(a) for a in _IV_ATOMS)


def interval():
    "('iv', days, seconds, microseconds)"
    return _wrap(_g_interval)


def _aster(s, first):
    "Replace everything from index `first` to index 21 except '.' by '*'"
    return ''.join('*' if (first <= i < 21 and c != '.') else c
                   for i, c in enumerate(s))


# legal precisions (index of first asterisk) for the two kinds
TS_PRECISIONS = [4, 6, 8, 10, 12, 15, 16, 17, 18, 19, 20]
IV_PRECISIONS = [8, 10, 12, 15, 16, 17, 18, 19, 20]
# timestamp with asterisks from the year (0) makes year 0: rejected by pywbem
# (datetime cannot hold it); interval precision 0 is legal.
IV_PRECISIONS_ALL = [0] + IV_PRECISIONS


def dtstr_from(rec, precision):
    "DSP0004 string for a ts/iv recipe with asterisks from `precision`"
    if rec[0] == 'ts':
        _, y, mo, d, h, mi, s, us, off = rec
        base = '%04d%02d%02d%02d%02d%02d.%06d%s%03d' % (
            y, mo, d, h, mi, s, us, '+' if off >= 0 else '-', abs(off))
    else:
        _, days, secs, us = rec
        base = '%08d%02d%02d%02d.%06d:000' % (
            days, secs // 3600, secs % 3600 // 60, secs % 60, us)
    if precision is None:
        return base
    return _aster(base, precision)


def _g_datetime(draw):
    k = draw(_I10)
    rec = _g_timestamp(draw) if draw(_B) else _g_interval(draw)
    if k < 6:
        return rec
    precs = TS_PRECISIONS if rec[0] == 'ts' else IV_PRECISIONS_ALL
    return ('dtstr', dtstr_from(rec, precs[draw(_I100) % len(precs)]))


def datetime_scalar():
    "ts | iv | dtstr (with asterisks)"
    return _wrap(_g_datetime)


def build_datetime(rec):
    if rec[0] == 'ts':
        _, y, mo, d, h, mi, s, us, off = rec
        return CIMDateTime(datetime(y, mo, d, h, mi, s, us,
                                    MinutesFromUTC(off)))
    if rec[0] == 'iv':
        return CIMDateTime(timedelta(days=rec[1], seconds=rec[2],
                                     microseconds=rec[3]))
    if rec[0] == 'dtstr':
        return CIMDateTime(rec[1])
    raise ValueError(rec)


# ---------------------------------------------------------------------------
# typed values

def _g_scalar(draw, type_, ref_depth=1, strings=None, allow_nan=True):
    if type_ == 'boolean':
        return draw(_B)
    if type_ == 'string':
        return draw(strings if strings is not None else _CIMSTR)
    if type_ == 'char16':
        return draw(_CHAR16)
    if type_ == 'datetime':
        return _g_datetime(draw)
    if type_ in INT_TYPES:
        return draw(_INT[type_])
    if type_ in REAL_TYPES:
        return draw(_REAL[(type_, bool(allow_nan))])
    if type_ == 'reference':
        return _g_ipath(draw, depth=ref_depth, strings=strings)
    raise ValueError(type_)


def scalar(type_, ref_depth=1, strings=None, allow_nan=True):
    return _wrap(_g_scalar, type_, ref_depth, strings, allow_nan)


def build_scalar(type_, v):
    if v is None:
        return None
    if type_ == 'boolean':
        return bool(v)
    if type_ == 'string':
        if isinstance(v, dict):
            return build(v)     # embedded object
        return v
    if type_ == 'char16':
        return v
    if type_ == 'datetime':
        return build_datetime(v)
    if type_ in INT_TYPES:
        return INT_TYPES[type_](v)
    if type_ in REAL_TYPES:
        return REAL_TYPES[type_](v)
    if type_ == 'reference':
        return build(v)
    raise ValueError(type_)


def build_value(type_, v):
    if isinstance(v, list):
        return [build_scalar(type_, x) for x in v]
    return build_scalar(type_, v)


def array_of(elem, max_size=4, nulls=True):
    e = st.one_of(st.none(), elem) if nulls else elem
    return st.lists(e, max_size=max_size)


_ARRLEN = st.sampled_from([0, 1, 1, 2, 2, 3, 4])


def _g_typed_value(draw, types=None, arrays=True, nulls=True, ref_depth=1,
                   strings=None, allow_nan=True):
    types = types or ALL_TYPES
    t = types[draw(_I100) % len(types)]
    shape = draw(_I10)
    if nulls and shape == 0:
        return (t, False, None)
    if arrays and nulls and shape == 1:
        return (t, True, None)
    if arrays and shape in (2, 3, 4):
        n = draw(_ARRLEN)
        v = []
        for _ in range(n):
            if nulls and draw(_I10) < 2:
                v.append(None)
            else:
                v.append(_g_scalar(draw, t, ref_depth, strings, allow_nan))
        return (t, True, v)
    return (t, False, _g_scalar(draw, t, ref_depth, strings, allow_nan))


def typed_value(types=None, arrays=True, nulls=True, ref_depth=1,
                strings=None, allow_nan=True):
    """
    (type, is_array, value): value None | scalar | list
    """
    return _wrap(_g_typed_value, types, arrays, nulls, ref_depth, strings,
                 allow_nan)


# ---------------------------------------------------------------------------
# paths

KEY_TYPES = ['string', 'string', 'boolean', 'char16', 'datetime', 'uint8',
             'sint32', 'uint64', 'real32', 'real64', 'int', 'float']
_PLAININT = st.integers(-2 ** 63, 2 ** 64 - 1)


def _g_keyvalue(draw, depth, key_types=None, strings=None, allow_nan=False):
    kts = list(key_types or KEY_TYPES)
    if depth > 0:
        kts = kts + ['reference', 'reference']
    t = kts[draw(_I100) % len(kts)]
    if t == 'int':
        return (t, draw(_PLAININT))
    if t == 'float':
        return (t, draw(_REAL[('real64', bool(allow_nan))]))
    if t == 'reference':
        return (t, _g_ipath(draw, depth=depth - 1, key_types=key_types,
                            strings=strings))
    return (t, _g_scalar(draw, t, 0, strings, allow_nan))


def keyvalue(depth, key_types=None, strings=None, allow_nan=False):
    """
    (ktype, v): ktype in KEY_TYPES or 'reference'; 'int'/'float' are plain
    Python numbers (untyped keybindings).
    """
    return _wrap(_g_keyvalue, depth, key_types, strings, allow_nan)


def _uniq_names(names):
    "make names case-insensitively unique by appending a suffix"
    seen = set()
    out = []
    for n in names:
        m = n
        i = 1
        while m.lower() in seen:
            i += 1
            m = '%s%d' % (n, i)
        seen.add(m.lower())
        out.append(m)
    return out


def _g_keybindings(draw, depth=1, min_size=1, max_size=3, key_types=None,
                   strings=None):
    n = min_size + draw(_I100) % (max_size - min_size + 1)
    names = _uniq_names([draw(_NAME) for _ in range(n)])
    out = []
    for name in names:
        kt, v = _g_keyvalue(draw, depth, key_types, strings)
        out.append((name, kt, v))
    return out


def keybindings(depth=1, min_size=1, max_size=3, key_types=None,
                strings=None):
    "list of (name, ktype, value) with case-insensitively unique names"
    return _wrap(_g_keybindings, depth, min_size, max_size, key_types,
                 strings)


def _g_opt(draw, strat, flag):
    "flag: None -> sometimes, True -> always, False -> never"
    if flag is False:
        return None
    if flag is True or draw(_B):
        return draw(strat)
    return None


def _g_ipath(draw, depth=1, with_ns=None, with_host=None, key_types=None,
             strings=None, min_keys=1):
    cn = draw(_CLASSNAME)
    keys = _g_keybindings(draw, depth, min_keys, 3, key_types, strings)
    ns = _g_opt(draw, _NAMESPACE, with_ns)
    h = _g_opt(draw, _HOST, with_host)
    if ns is None:
        h = None
    return {'k': 'ipath', 'classname': cn, 'keys': keys,
            'namespace': ns, 'host': h}


def instance_path(depth=1, with_ns=None, with_host=None, key_types=None,
                  strings=None, min_keys=1):
    """
    {'k':'ipath','classname','keys':[(name, ktype, v)],'namespace','host'}
    host only together with a namespace.
    """
    return _wrap(_g_ipath, depth, with_ns, with_host, key_types, strings,
                 min_keys)


def _g_cpath(draw, with_ns=None, with_host=None):
    cn = draw(_CLASSNAME)
    ns = _g_opt(draw, _NAMESPACE, with_ns)
    h = _g_opt(draw, _HOST, with_host)
    if ns is None:
        h = None
    return {'k': 'cpath', 'classname': cn, 'namespace': ns, 'host': h}


def class_path(with_ns=None, with_host=None):
    return _wrap(_g_cpath, with_ns, with_host)


def build_keyvalue(kt, v):
    if kt == 'int':
        return int(v)
    if kt == 'float':
        return float(v)
    if kt == 'char16':
        return Char16(v)
    return build_scalar(kt, v)


# ---------------------------------------------------------------------------
# qualifiers, properties, methods, classes, instances

QUAL_TYPES = ['boolean', 'string', 'char16', 'datetime'] + \
    sorted(INT_TYPES) + sorted(REAL_TYPES)
_QNAME = st.one_of(st.sampled_from(['Description', 'Key', 'MaxLen',
                                    'Values', 'ValueMap', 'Q1']), _NAME)


def _g_qualifier(draw, strings=None, allow_nan=True, flavors=True):
    name = draw(_QNAME)
    t, is_arr, v = _g_typed_value(draw, QUAL_TYPES, strings=strings,
                                  allow_nan=allow_nan)
    fl = [draw(_TRI) if flavors else None for _ in range(5)]
    return {'k': 'qual', 'name': name, 'type': t, 'value': v,
            'is_array': is_arr,
            'propagated': fl[0], 'overridable': fl[1], 'tosubclass': fl[2],
            'toinstance': fl[3], 'translatable': fl[4]}


def qualifier(strings=None, allow_nan=True, flavors=True):
    return _wrap(_g_qualifier, strings, allow_nan, flavors)


_QCOUNT = st.sampled_from([0, 0, 0, 1, 1, 2, 3])


def _g_qualifiers(draw, max_size=2, **kw):
    n = min(draw(_QCOUNT), max_size)
    qs = [_g_qualifier(draw, **kw) for _ in range(n)]
    for q, name in zip(qs, _uniq_names([q['name'] for q in qs])):
        q['name'] = name
    return qs


def qualifiers(max_size=2, **kw):
    return _wrap(_g_qualifiers, max_size, **kw)


SCOPES = ['CLASS', 'ASSOCIATION', 'INDICATION', 'PROPERTY', 'REFERENCE',
          'METHOD', 'PARAMETER', 'ANY']
_OPT_SIZE = st.sampled_from([None, None, 1, 2, 5, 9])


def _g_qualdecl(draw, strings=None, allow_nan=True):
    name = draw(_NAME)
    t, is_arr, v = _g_typed_value(draw, QUAL_TYPES, strings=strings,
                                  allow_nan=allow_nan)
    asz = draw(_OPT_SIZE)
    if draw(_I10) < 3:
        scopes = None
    else:
        scopes = sorted((s, draw(_B)) for s in SCOPES if draw(_I10) < 4)
    fl = [draw(_TRI) for _ in range(4)]
    return {'k': 'qualdecl', 'name': name, 'type': t, 'value': v,
            'is_array': is_arr,
            'array_size': asz if is_arr else None,
            'scopes': scopes, 'overridable': fl[0], 'tosubclass': fl[1],
            'toinstance': fl[2], 'translatable': fl[3]}


def qualifier_declaration(strings=None, allow_nan=True):
    return _wrap(_g_qualdecl, strings, allow_nan)


def _g_embedded_value(draw, depth, kind, strings=None, allow_nan=True):
    if kind == 'instance' or draw(_B):
        return _g_instance(draw, depth=depth - 1, with_path=False,
                           strings=strings, allow_nan=allow_nan)
    return _g_class(draw, depth=depth - 1, small=True, strings=strings,
                    allow_nan=allow_nan)


def embedded_value(depth, kind):
    "scalar embedded object recipe"
    return _wrap(_g_embedded_value, depth, kind)


def _g_property(draw, depth=0, decl=None, strings=None, allow_nan=True,
                quals=True, ref_depth=1):
    name = draw(_NAME)
    co = draw(_CLASSNAME) if draw(_I10) < 3 else None
    prop = draw(_TRI)
    qs = _g_qualifiers(draw, strings=strings, allow_nan=allow_nan) \
        if quals else []
    if depth > 0 and draw(_I10) < 3:
        kind = 'instance' if draw(_B) else 'object'
        is_arr = draw(_B)
        n = 1 + draw(_B)
        vals = [_g_embedded_value(draw, depth, kind, strings, allow_nan)
                for _ in range(n)]
        if is_arr and draw(_I10) < 2:
            vals.insert(0, None)
        v = vals if is_arr else vals[0]
        return {'k': 'prop', 'name': name, 'type': 'string', 'value': v,
                'is_array': is_arr, 'array_size': None,
                'reference_class': None, 'embedded_object': kind,
                'class_origin': co, 'propagated': prop, 'qualifiers': qs}
    while True:
        t, is_arr, v = _g_typed_value(draw, ALL_TYPES, strings=strings,
                                      allow_nan=allow_nan,
                                      ref_depth=ref_depth)
        if not (t == 'reference' and is_arr):
            break
    asz = draw(_OPT_SIZE)
    refcls = draw(_CLASSNAME) if draw(_B) else None
    return {'k': 'prop', 'name': name, 'type': t, 'value': v,
            'is_array': is_arr,
            'array_size': asz if is_arr else None,
            'reference_class': refcls if t == 'reference' else None,
            'embedded_object': None,
            'class_origin': co, 'propagated': prop, 'qualifiers': qs}


def cim_property(depth=0, decl=None, strings=None, allow_nan=True,
                 quals=True, ref_depth=1):
    """
    {'k':'prop', name, type, value, is_array, array_size, reference_class,
     embedded_object, class_origin, propagated, qualifiers}
    """
    return _wrap(_g_property, depth, decl, strings, allow_nan, quals,
                 ref_depth)


_PCOUNT = st.sampled_from([0, 1, 1, 2, 2, 3, 4])


def _g_properties(draw, depth=0, max_size=3, **kw):
    n = min(draw(_PCOUNT), max_size)
    ps = [_g_property(draw, depth=depth, **kw) for _ in range(n)]
    for p, name in zip(ps, _uniq_names([p['name'] for p in ps])):
        p['name'] = name
    return ps


def properties(depth=0, max_size=3, **kw):
    return _wrap(_g_properties, depth, max_size, **kw)


def _g_parameter(draw, strings=None, allow_nan=True, quals=True,
                 with_value=False):
    name = draw(_NAME)
    t, is_arr, v = _g_typed_value(draw, ALL_TYPES, strings=strings,
                                  allow_nan=allow_nan)
    asz = draw(_OPT_SIZE)
    refcls = draw(_CLASSNAME) if draw(_B) else None
    qs = _g_qualifiers(draw, strings=strings, allow_nan=allow_nan) \
        if quals else []
    return {'k': 'param', 'name': name, 'type': t,
            'value': v if with_value else None,
            'is_array': is_arr,
            'array_size': asz if is_arr else None,
            'reference_class': refcls if t == 'reference' else None,
            'embedded_object': None, 'qualifiers': qs}


def cim_parameter(strings=None, allow_nan=True, quals=True, with_value=False):
    return _wrap(_g_parameter, strings, allow_nan, quals, with_value)


def _g_method(draw, strings=None, allow_nan=True):
    name = draw(_NAME)
    rt = SIMPLE_TYPES[draw(_I100) % len(SIMPLE_TYPES)]
    n = min(draw(_PCOUNT), 3)
    params = [_g_parameter(draw, strings, allow_nan) for _ in range(n)]
    for p, pn in zip(params, _uniq_names([p['name'] for p in params])):
        p['name'] = pn
    co = draw(_CLASSNAME) if draw(_I10) < 3 else None
    return {'k': 'meth', 'name': name, 'return_type': rt,
            'parameters': params, 'class_origin': co,
            'propagated': draw(_TRI),
            'qualifiers': _g_qualifiers(draw, strings=strings,
                                        allow_nan=allow_nan)}


def cim_method(strings=None, allow_nan=True):
    return _wrap(_g_method, strings, allow_nan)


def _g_instance(draw, depth=0, with_path=None, strings=None, allow_nan=True,
                path_kinds=('none', 'keys', 'ns', 'host')):
    cn = draw(_CLASSNAME)
    props = _g_properties(draw, depth=depth, strings=strings,
                          allow_nan=allow_nan)
    qs = _g_qualifiers(draw, max_size=1, strings=strings,
                       allow_nan=allow_nan)
    if with_path is False:
        pk = 'none'
    else:
        kinds = [k for k in path_kinds if k != 'none'] if with_path is True \
            else list(path_kinds)
        pk = kinds[draw(_I100) % len(kinds)]
    if pk == 'none':
        p = None
    else:
        p = _g_ipath(draw, depth=1, strings=strings)
        p['classname'] = cn
        # key names must not collide with property names that carry other
        # values (pywbem keeps such keybindings and properties in sync; a
        # real instance has equal values there)
        pnames = set(pr['name'].lower() for pr in props)
        keys = []
        # (in one of four instances a collision is kept: build() assigns the
        # path after the properties, so nothing is propagated, and path key
        # and property legitimately differ - e.g. a locally modified
        # instance that still carries the path it was retrieved with)
        keep = draw(_I10) < 3 and not any(
            pr['embedded_object'] or pr['is_array'] or pr['value'] is None
            or pr['type'] == 'reference' for pr in props)
        for i, (n, kt, v) in enumerate(p['keys']):
            if keep and i == 0 and props:
                # force the collision (in another lexical case) instead of
                # waiting for the name pools to produce one
                n = props[0]['name'].swapcase()
            while n.lower() in pnames and not keep:
                n = 'k_' + n
            pnames.add(n.lower())
            keys.append((n, kt, v))
        p['keys'] = keys
        if pk == 'keys':
            p['namespace'] = None
            p['host'] = None
        elif pk == 'ns':
            p['namespace'] = p['namespace'] or 'root/cimv2'
            p['host'] = None
        else:
            p['namespace'] = p['namespace'] or 'root/cimv2'
            p['host'] = p['host'] or 'myhost'
    return {'k': 'inst', 'classname': cn, 'properties': props,
            'qualifiers': qs, 'path': p}


def cim_instance(depth=0, with_path=None, strings=None, allow_nan=True,
                 path_kinds=('none', 'keys', 'ns', 'host')):
    """
    {'k':'inst', classname, properties, qualifiers, path}
    path kinds: None | keys only | with namespace | with host+namespace
    """
    return _wrap(_g_instance, depth, with_path, strings, allow_nan,
                 path_kinds)


def _g_class(draw, depth=0, small=False, strings=None, allow_nan=True):
    cn = draw(_CLASSNAME)
    sup = draw(_CLASSNAME) if draw(_B) else None
    props = _g_properties(draw, depth=depth, max_size=2 if small else 3,
                          strings=strings, allow_nan=allow_nan)
    n = min(draw(_PCOUNT), 1 if small else 2)
    meths = [_g_method(draw, strings, allow_nan) for _ in range(n)]
    for m, mn in zip(meths, _uniq_names([m['name'] for m in meths])):
        m['name'] = mn
    return {'k': 'class', 'classname': cn, 'superclass': sup,
            'properties': props, 'methods': meths,
            'qualifiers': _g_qualifiers(draw, strings=strings,
                                        allow_nan=allow_nan)}


def cim_class(depth=0, small=False, strings=None, allow_nan=True):
    return _wrap(_g_class, depth, small, strings, allow_nan)


# ---------------------------------------------------------------------------
# build

def _build_quals(qs):
    return [build(q) for q in qs]


def build(r):
    "recipe -> pywbem object"
    if r is None:
        return None
    k = r['k']
    if k == 'ipath':
        kbs = [(n, build_keyvalue(kt, v)) for n, kt, v in r['keys']]
        return CIMInstanceName(r['classname'], keybindings=kbs,
                               host=r['host'], namespace=r['namespace'])
    if k == 'cpath':
        return CIMClassName(r['classname'], host=r['host'],
                            namespace=r['namespace'])
    if k == 'qual':
        return CIMQualifier(
            r['name'], build_value(r['type'], r['value']), type=r['type'],
            propagated=r['propagated'], overridable=r['overridable'],
            tosubclass=r['tosubclass'], toinstance=r['toinstance'],
            translatable=r['translatable'])
    if k == 'qualdecl':
        scopes = dict(r['scopes']) if r['scopes'] is not None else None
        return CIMQualifierDeclaration(
            r['name'], r['type'], value=build_value(r['type'], r['value']),
            is_array=r['is_array'], array_size=r['array_size'],
            scopes=scopes, overridable=r['overridable'],
            tosubclass=r['tosubclass'], toinstance=r['toinstance'],
            translatable=r['translatable'])
    if k == 'prop':
        return CIMProperty(
            r['name'], build_value(r['type'], r['value']), type=r['type'],
            class_origin=r['class_origin'], array_size=r['array_size'],
            propagated=r['propagated'], is_array=r['is_array'],
            reference_class=r['reference_class'],
            qualifiers=_build_quals(r['qualifiers']),
            embedded_object=r['embedded_object'])
    if k == 'param':
        return CIMParameter(
            r['name'], r['type'], reference_class=r['reference_class'],
            is_array=r['is_array'], array_size=r['array_size'],
            qualifiers=_build_quals(r['qualifiers']),
            value=build_value(r['type'], r['value']),
            embedded_object=r['embedded_object'])
    if k == 'meth':
        return CIMMethod(
            r['name'], r['return_type'],
            parameters=[build(p) for p in r['parameters']],
            class_origin=r['class_origin'], propagated=r['propagated'],
            qualifiers=_build_quals(r['qualifiers']))
    if k == 'inst':
        inst = CIMInstance(
            r['classname'], properties=[build(p) for p in r['properties']],
            qualifiers=_build_quals(r['qualifiers']))
        # the path is assigned afterwards, so that pywbem's (deprecated)
        # propagation of property values into same-named keybindings does
        # not change the path the recipe asked for
        inst.path = build(r['path'])
        return inst
    if k == 'class':
        return CIMClass(
            r['classname'], properties=[build(p) for p in r['properties']],
            methods=[build(m) for m in r['methods']],
            superclass=r['superclass'],
            qualifiers=_build_quals(r['qualifiers']))
    raise ValueError('unknown recipe kind %r' % (k,))


# ---------------------------------------------------------------------------
# recipe inspection helpers (non-triviality classification)

def walk(r):
    "yield all nested recipes/values"
    yield r
    if isinstance(r, dict):
        for v in r.values():
            yield from walk(v)
    elif isinstance(r, (list, tuple)):
        for v in r:
            yield from walk(v)


def has_null_entry(r):
    for x in walk(r):
        if isinstance(x, list) and any(e is None for e in x) and \
                not any(isinstance(e, (dict, tuple)) and
                        not (isinstance(e, tuple) and e and
                             e[0] in ('ts', 'iv', 'dtstr')) for e in x):
            return True
    return False


def interesting_string(r):
    for x in walk(r):
        if isinstance(x, str) and x and (
                any(ord(c) > 127 or c in '&<>"\'\r\n\t\\' for c in x) or
                x != x.strip()):
            return True
    return False


def embedded_depth(r, d=0):
    best = d
    if isinstance(r, dict):
        if r.get('k') == 'prop' and r.get('embedded_object'):
            best = max(best, embedded_depth(r['value'], d + 1))
            return best
        for v in r.values():
            best = max(best, embedded_depth(v, d))
    elif isinstance(r, (list, tuple)):
        for v in r:
            best = max(best, embedded_depth(v, d))
    return best


def has_nested_ref(r):
    for x in walk(r):
        if isinstance(x, dict) and x.get('k') == 'ipath':
            for _, kt, _v in x['keys']:
                if kt == 'reference':
                    return True
    return False
