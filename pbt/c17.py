"""
C17 - The listener answers any HTTP request with one well-formed response and
survives.  DESIGN.md 4.17.

A real ``pywbem.WBEMListener`` runs on a loopback port (one per shard
process); the client side is a raw socket: send the request bytes, half-close,
read until the server closes.  What comes back is parsed by an independent
little HTTP/1.x response parser; 200 bodies go through the shared CIM-XML
oracle (``xmlserver.validate_cimxml``, the C03 oracle).  After every request a
valid indication with a fresh marker is sent and must be answered with a
success response and be delivered to the callback exactly once.

Request-derived text comes back in the CIMErrorDetails header (rejected
header values, unsupported version values, parser messages) and in the
response body (message id, method and parameter names).  Control characters
only arrive there in the forms the transport lets through: character
references in XML (a literal CR/LF/TAB in an attribute value is normalized to
a blank by the XML parser; pywbem's _cim_xml writes them literally) and folded
header values (line break + blank/TAB; Python's header parser takes CR LF, a
bare LF and a bare CR as line breaks).  The generator produces both with
sequences of control characters (bare CR, bare LF, CR LF, LF CR, TAB, NUL, VT,
FF, ESC, FS, US, DEL, NEL); the response parser splits the header section on
CR LF only and reports any CR/LF/other control character left in a line.
"""

import io
import re
import sys
import time
import socket
import logging
import threading
import multiprocessing
import multiprocessing.util

from hypothesis import strategies as st
from lxml import etree

import pywbem
from pywbem import CIMInstance, CIMProperty, Uint16, Uint64, _cim_xml

from .runner import Sub, _pkg_dirs
from . import strategies as S
from . import responses as R
from .xmlserver import validate_cimxml

PROPERTY = 'C17'
RULE = (
    "Example = one HTTP request as a recipe: an ExportIndication message "
    "built with pywbem's own _cim_xml from a generated indication instance, "
    "plus 0..3 injected defects.  XML level: generic tree mutations (rename/"
    "delete/duplicate/move elements, delete/rename/set attributes, bad value "
    "text), byte damage (truncation, byte flips, ill-formed UTF-8, UTF-16, "
    "bogus encoding declaration, DOCTYPE with entities, deep nesting, "
    "trailing garbage, arbitrary bytes), unsupported/garbled CIMVERSION/"
    "DTDVERSION/PROTOCOLVERSION, unknown export method, missing/duplicate/"
    "extra/renamed/empty/non-instance EXPPARAMVALUE, odd MESSAGE ID, "
    "MULTIEXPREQ, XML declaration variants; control-character sequences "
    "(1..3 of bare CR, bare LF, CR LF, LF CR, TAB, NUL, SOH, BS, VT, FF, ESC, "
    "FS, US, DEL, NEL, blank) sent as character references + a recognizable "
    "tail: in an unsupported (certain reject) or 2.x/1.x/odd CIMVERSION/"
    "DTDVERSION/PROTOCOLVERSION value (version-ctl), at the start/end/in "
    "place of any ID, NAME, CLASSNAME, TYPE, version attribute value or "
    "VALUE text (ctl-ref).  HTTP level: method tokens POST, "
    "M-POST, GET, HEAD, PUT, PATCH, DELETE, OPTIONS, TRACE, CONNECT, unknown; "
    "HTTP/1.0 and 1.1; request targets; Content-Length exact/missing/"
    "non-numeric/negative/smaller/larger/huge/duplicate (also together with "
    "a non-POST method token: classes non-POST-with-cl:*); Accept, "
    "Accept-Charset (q-values), Accept-Range, Content-Type (charsets), "
    "Content-Encoding, Expect, Connection, Transfer-Encoding values "
    "(acceptable, unacceptable, odd characters, latin-1, NUL, obs-fold, "
    "very long, random latin-1 text), header name case, many headers, raw "
    "header lines; the same control-character sequences inside the value of "
    "every header the listener reflects when it rejects it (Accept, "
    "Accept-Charset, Accept-Range, Content-Type, Content-Encoding, "
    "Content-Length) after an unacceptable/acceptable/empty start, followed "
    "by blank/TAB (folded value; 1 in 6 without, i.e. a header line ended by "
    "a bare CR/LF) and the tail.  Classes ctl:<hdr|version|ref>:<bare-CR|"
    "bare-LF|CRLF|TAB-or-blank|other-control> count what is sent, "
    "ctl-reflected:CIMErrorDetails[:...] / ctl-reflected:body how often the "
    "tail comes back in that header / in the body, ctl-not-reflected:"
    "<status> the rest.  Every request is followed by a valid indication "
    "with a "
    "fresh marker (survival probe).  listener_responses: valid HTTP, "
    "arbitrary instances (embedded depth <= 1), arbitrary method names, "
    "parameter names and message ids, also with control characters as "
    "character references (responses that echo them go through "
    "the C03 oracle).  sequences: histories of such requests on one "
    "listener mixed with valid indications, bursts of 2..6 simultaneous "
    "valid indications, and up to 4 connections stalled in the middle of a "
    "request that are resumed or aborted (close/RST/half-close) later.  "
    "queue_full: a listener with max_ind_queue_size 1..3 whose callback "
    "blocks: n+1 accepted, the next 1..3 must get ERROR CODE 1, other "
    "requests still answered, everything accepted delivered once after "
    "release.  Non-trivial = method POST with a parsable request "
    "line (reaches the do_POST header checks) and >= 1 injected defect; for "
    "listener_responses = the listener answered 200 (body validated by the "
    "C03 oracle); for sequences = history with >= 1 defective request and "
    ">= 1 valid indication.  Distinct = distinct recipe / step list.")
ASSUMPTIONS = [
    "request line is 'token SP target SP HTTP/1.0|HTTP/1.1' (HTTP/0.9 simple "
    "requests, HTTP/2 request lines and an empty byte stream are not HTTP/1 "
    "requests; http.server answers them in HTTP/0.9 style)",
    "one request per connection; the client half-closes after sending, so a "
    "Content-Length larger than the body cannot block the server",
    "a connection reset by the server after a complete response (unread "
    "request bytes) counts as end of the response",
    "codes asserted for CIM-level errors are those named in WBEMListener's "
    "docstring (FAILED for a full queue) and listener code comments "
    "(NOT_SUPPORTED unknown method, INVALID_PARAMETER wrong parameters); "
    "only requests with exactly one injected defect whose class is certain "
    "get a specific expectation, all others only the generic oracle (one "
    "well-formed response, 200 with a DTD-valid export response or 4xx/5xx, "
    "no raw CR/LF in header lines, only header names the handler emits, "
    "listener survives); 'syntactically valid' for a response header line "
    "is RFC 9110 5.5: after splitting the header section on CR LF a field "
    "value consists of VCHAR, obs-text, SP and HTAB, so besides CR and LF "
    "no other C0 control character or DEL may be in it (C1 characters such "
    "as NEL are obs-text and allowed); a request target other than '/', a "
    "body shorter "
    "than Content-Length, duplicate parameters, case variants of names, a "
    "missing XML declaration, comments/PIs/DOCTYPE, VALUE.NAMEDINSTANCE "
    "or two INSTANCE children get the generic oracle only",
    "a valid request (also with acceptable Accept/Accept-Charset/"
    "Content-Type/Content-Encoding values, Expect: 100-continue, Connection, "
    "lower-case header names, HTTP/1.0, CIMVERSION/DTDVERSION 2.x, any "
    "MESSAGE ID) must be answered with success and be delivered exactly "
    "once; markers carry a check digit so that a mutated request cannot "
    "carry the marker of another one",
    "time limits (12 s per read, 20 s for a delivery) are stop conditions; "
    "after three expirations in a process they are lowered so that a run "
    "against a badly broken tree ends",
    "'malformed XML' = rejected by both expat and libxml2 as not well-formed",
    "a version value that starts with 9, 3.0, 4.1 or 20.0 is unsupported "
    "whatever follows (also control characters): 4xx/5xx + CIMError if the "
    "document is well-formed XML (character references to NUL etc. are "
    "not); values that start with 2.0/1.0/x/nothing and header values with "
    "control characters only get the generic oracle (where a header line "
    "ends then depends on the HTTP server's line splitting)",
    "header mismatches asserted: Accept/Content-Type naming only non-XML "
    "media types, Accept-Charset/charset naming only non-UTF-8 charsets, "
    "Content-Encoding other than identity; values whose acceptability "
    "depends on list/q-value parsing only get the generic oracle",
    "HTTP verbs for which the handler defines do_<VERB> must get 405 + Allow "
    "(docstring of invalid_method); M-POST and unknown tokens any 4xx/5xx",
    "the value of CIMError is only required to be a token; the listener's "
    "'unsupported-version' (DSP0200: unsupported-cim-version) is counted as "
    "a class, not asserted",
    "listener.queue_get_timeout (public attribute) is lowered for listeners "
    "that are stopped per example, only to make stop() fast",
]
SENSITIVITY = [
    "send_http_error() without end_headers() -> no-response:connection-"
    "closed-without-traceback (all sub-checks)",
    "invalid_method() writes a body without Content-Length -> response:"
    "body-in-HEAD-response (requests, sequences)",
    "unknown export method answered with send_success_response() -> expect:"
    "unknown-method-answered-with-success",
    "Content-Length of the CIM-XML error response counted in characters "
    "instead of bytes -> response:bytes-after-the-response + response-body:"
    "ill-formed-expat (non-ASCII method name / parameter name echoed)",
    "Content-Encoding check disabled -> expect:unsupported-version-or-"
    "header-mismatch-answered-200-success",
    "queue.Full no longer caught in do_POST -> queue_full/no-response:Full@"
    "_listener:_handle_indication:... + queue:valid-indication-not-answered-"
    "200",
    "'len(params) != 1' dropped from the parameter check -> expect:wrong-"
    "parameters-answered-with-success",
    "'except DTDVersionError' branch removed -> no-response:DTDVersionError@"
    "_tupleparse:parse_cim:raiseDTDVersionError",
    "ThreadedHTTPServer without ThreadingMixIn -> sequences/no-response:"
    "read-timeout-after-half-close + no-response:connection-not-accepted (a "
    "stalled connection blocks valid indications)",
    "_handle_indication() queues some indications twice -> indication-"
    "delivered-more-than-once",
    "Accept-Charset compared case-sensitively without '*' -> expect:valid-"
    "indication-rejected-with-406-header-mismatch",
    "non-instance NewIndication answered with success -> expect:wrong-"
    "parameters-answered-with-success",
    "(on top of the proposed fix) header value sanitizer keeps LF -> "
    "response-header:raw-CR-or-LF-inside-CIMErrorDetails",
    "exception escaping _deliver_indication_to_callbacks kills the callback "
    "thread -> accepted-indication-not-delivered + survival:accepted-"
    "indication-not-delivered + listener-thread-died",
    "_header_value() joins lines with r'\\s*\\n\\s*' and then only removes "
    "[\\x00-\\x08\\x0b\\x0c\\x0e-\\x1f\\x7f] (a bare CR passes) -> requests + "
    "sequences/response-header:raw-CR-or-LF-inside-CIMErrorDetails (version "
    "value with &#13;, header value folded with a bare CR)",
    "_header_value() keeps LF ([\\x00-\\x09\\x0b-\\x1f\\x7f]) -> response-"
    "header:raw-CR-or-LF-inside-CIMErrorDetails",
    "_header_value() only replaces [\\r\\n]+ -> response-header:control-"
    "character-inside-CIMErrorDetails",
]

MARKER = 'VerifMarker'
IO_TIMEOUT = 12.0          # s; stop condition for a read that never ends
DELIVERY_TIMEOUT = 20.0    # s; stop condition for waiting on the callback

# A listener that hangs or no longer delivers makes every request wait for
# the full time limit.  After three such waits in a process the limits are
# lowered, so that a run against a badly broken tree still ends (the
# violations are recorded already; on a healthy tree this is never used).
_WAITED = {'io': 0, 'delivery': 0, 'stop': 0}


def io_timeout():
    return IO_TIMEOUT if _WAITED['io'] < 3 else 1.5


def delivery_timeout():
    return DELIVERY_TIMEOUT if _WAITED['delivery'] < 3 else 1.0


# ---------------------------------------------------------------------------
# stderr capture (socketserver prints handler tracebacks there) and logging


class _Capture(io.TextIOBase):
    "thread-safe sys.stderr replacement that keeps what is written"

    def __init__(self):
        super().__init__()
        self._lock = threading.Lock()
        self._chunks = []

    def writable(self):
        return True

    def write(self, s):
        with self._lock:
            self._chunks.append(s)
            if len(self._chunks) > 20000:
                del self._chunks[:10000]
        return len(s)

    def flush(self):
        pass

    def take(self):
        with self._lock:
            text = ''.join(self._chunks)
            del self._chunks[:]
        return text

    def block_for(self, port):
        """
        Traceback block socketserver.handle_error printed for the connection
        that came from client port `port` (None if there is none).
        """
        with self._lock:
            text = ''.join(self._chunks)
            if len(text) > 400000:
                self._chunks[:] = [text[-200000:]]
        found = None
        for m in re.finditer(
                r"Exception occurred during processing of request from "
                r"\('127\.0\.0\.1', %d\)\n(.*?)\n-{40}" % port, text, re.S):
            found = m.group(1)
        return found


_CAP = None


def _capture():
    global _CAP
    if _CAP is None:
        _CAP = _Capture()
        sys.stderr = _CAP
        # the listener logs warnings for every error response; without a
        # handler logging's last-resort handler prints them to stderr
        logging.getLogger('pywbem.listener').addHandler(
            logging.NullHandler())
    return _CAP


_TB_FRAME = re.compile(r'^  File "([^"]+)", line \d+, in (\S+)\n(?:    (.*)\n)?',
                       re.M)


def tb_signature(text):
    """
    Root-cause key from traceback text printed by socketserver.handle_error:
    exception type + innermost frame inside pywbem (module:function:source).
    """
    i = text.rfind('Traceback (most recent call last)')
    if i < 0:
        return None
    block = text[i:]
    frames = _TB_FRAME.findall(block)
    inner = None
    import os
    for fn, func, src in frames:
        if os.path.realpath(fn).startswith(_pkg_dirs()):
            inner = (fn, func, src)
    if inner is None and frames:
        inner = frames[-1]
    exc = 'Exception'
    last = None
    for last in _TB_FRAME.finditer(block):
        pass
    tail = block[last.end():] if last is not None else block
    for line in tail.splitlines():
        if line[:1] in (' ', '\t', '-', '') or line.startswith('Traceback'):
            continue
        m = re.match(r'^([A-Za-z_][\w.]*)(?::|$)', line)
        if m:
            exc = m.group(1).split('.')[-1]
        break
    if inner is None:
        return exc
    mod = os.path.basename(inner[0])[:-3]
    src = re.sub(r'\s+', '', inner[2] or '')[:50]
    return '%s@%s:%s:%s' % (exc, mod, inner[1], src)


# ---------------------------------------------------------------------------
# listener fixture


def _free_port():
    s = socket.socket(socket.AF_INET, socket.SOCK_STREAM)
    try:
        s.bind(('127.0.0.1', 0))
        return s.getsockname()[1]
    finally:
        s.close()


class Fixture:
    "a running WBEMListener + callback log"

    def __init__(self, max_queue=None, fast_stop=False, gate=None):
        _capture()
        self.lock = threading.Lock()
        self.log = []           # marker values (or None) in delivery order
        self.entered = threading.Event()
        self.gate = gate        # threading.Event the callback waits for
        self.listener = None
        last = None
        for _ in range(30):
            port = _free_port()
            kw = {} if max_queue is None else \
                {'max_ind_queue_size': max_queue}
            lis = pywbem.WBEMListener('127.0.0.1', http_port=port, **kw)
            lis.add_callback(self._callback)
            if fast_stop:
                lis.queue_get_timeout = 0.05
            try:
                lis.start()
            except pywbem.ListenerPortError as exc:   # lost a port race
                last = exc
                continue
            self.listener = lis
            self.port = port
            break
        if self.listener is None:
            raise last

    def _callback(self, indication, host):
        # pylint: disable=unused-argument
        self.entered.set()
        if self.gate is not None:
            self.gate.wait(60)
        try:
            v = indication.properties[MARKER].value
            v = int(v)
        except Exception:  # pylint: disable=broad-except
            v = None
        with self.lock:
            self.log.append(v)

    def delivered(self, marker):
        with self.lock:
            return self.log.count(marker)

    def wait_delivered(self, marker, timeout=None):
        end = time.time() + (timeout or delivery_timeout())
        while True:
            if self.delivered(marker):
                return True
            if time.time() > end:
                _WAITED['delivery'] += 1
                return False
            time.sleep(0.001)

    def threads_alive(self):
        names = [t.name for t in threading.enumerate() if t.is_alive()]
        return 'http' in names and 'CallbackThread' in names

    def trim(self):
        with self.lock:
            if len(self.log) > 4000:
                del self.log[:2000]

    def stop(self):
        lis, self.listener = self.listener, None
        if lis is None:
            return None
        if self.gate is not None:
            self.gate.set()
        result = []

        def run():
            try:
                lis.stop()
            except Exception as exc:  # pylint: disable=broad-except
                # stop() problems are the subject of C16, not of this
                # property
                result.append(exc)
        # stop() waits for ever if the callback thread died with a non-empty
        # queue; do not let that block the harness
        t = threading.Thread(target=run, daemon=True)
        t.start()
        t.join(15 if _WAITED['stop'] < 2 else 1)
        if t.is_alive():
            _WAITED['stop'] += 1
            return RuntimeError('stop() did not return within 15 s')
        return result[0] if result else None


_FX = None
_MARK = [0]


def _in_worker():
    return multiprocessing.current_process().name != 'MainProcess'


def _stop_shared():
    global _FX
    if _FX is not None:
        fx, _FX = _FX, None
        fx.stop()


def shared_fixture(ctx=None):
    """
    The listener shared by all examples of a shard process.  Restarted if its
    threads died (which the caller reports as a violation).
    """
    global _FX
    if _FX is None or _FX.listener is None:
        first = _FX is None
        _FX = Fixture(fast_stop=True)
        if first and _in_worker():
            # worker exit: stop the non-daemon listener threads before
            # threading._shutdown() would wait for them
            multiprocessing.util.Finalize(None, _stop_shared,
                                          exitpriority=100)
    return _FX


def release_fixture():
    "outside pool workers (replay) the listener lives for one example only"
    global _CAP
    if not _in_worker():
        _stop_shared()
        if _CAP is not None and sys.stderr is _CAP:
            sys.stderr = sys.__stderr__
            _CAP = None


def next_marker():
    """
    Fresh marker value.  Markers are 14-digit numbers whose digit sum is a
    multiple of 10, so that a mutated request (byte flip in a digit, value
    text replaced by a small number) can never carry the marker of another
    request.
    """
    _MARK[0] += 1
    n = 10 ** 12 + _MARK[0]
    return n * 10 + (-sum(int(c) for c in str(n))) % 10


# ---------------------------------------------------------------------------
# client side


def _recv_all(sock):
    data = b''
    end = 'eof'
    try:
        while True:
            d = sock.recv(65536)
            if not d:
                break
            data += d
            if len(data) > 8 * 2 ** 20:
                end = 'too-much'
                break
    except socket.timeout:
        end = 'timeout'
        _WAITED['io'] += 1
    except (ConnectionResetError, ConnectionAbortedError, BrokenPipeError):
        end = 'reset'
    return data, end


def _send(sock, raw):
    "send; the server may answer and close before everything is sent"
    try:
        sock.sendall(raw)
    except (ConnectionResetError, BrokenPipeError, ConnectionAbortedError):
        return False
    return True


def _connect(port):
    "-> connected socket, or None if the listener does not accept any more"
    try:
        sock = socket.create_connection(('127.0.0.1', port),
                                        timeout=io_timeout())
    except (socket.timeout, ConnectionRefusedError, ConnectionResetError):
        _WAITED['io'] += 1
        return None
    sock.setsockopt(socket.IPPROTO_TCP, socket.TCP_NODELAY, 1)
    return sock


def exchange(port, raw):
    """
    One connection: send raw, half-close, read to the end.
    Returns (bytes, (how the stream ended, client port)).
    """
    sock = _connect(port)
    if sock is None:
        return b'', ('not-connected', 0)
    try:
        lport = sock.getsockname()[1]
        _send(sock, raw)
        try:
            sock.shutdown(socket.SHUT_WR)
        except OSError:
            pass
        data, end = _recv_all(sock)
        return data, (end, lport)
    finally:
        sock.close()


# ---------------------------------------------------------------------------
# HTTP response parsing (independent of http.client)

_STATUS = re.compile(rb'^HTTP/1\.[01] ([0-9]{3})(?: ([^\r\n]*))?\Z')
# not allowed in a field value (RFC 9110 5.5: VCHAR, obs-text, SP, HTAB)
_FIELD_CTL = re.compile(rb'[\x00-\x08\x0a-\x1f\x7f]')
_HEADER = re.compile(rb"^([!#$%&'*+\-.^_`|~0-9A-Za-z]+):[ \t]*(.*?)[ \t]*$",
                     re.S)
EMITTED_HEADERS = {'server', 'date', 'content-type', 'content-length',
                   'cimexport', 'cimerror', 'cimerrordetails', 'allow',
                   'connection'}


class Response:
    def __init__(self):
        self.status = None
        self.reason = b''
        self.headers = []       # (lower-case name str, value bytes)
        self.body = b''
        self.interim = 0
        self.problems = []      # (signature, detail)

    def get(self, name):
        for n, v in self.headers:
            if n == name:
                return v
        return None


def parse_response(raw, head_request=False):
    """
    raw = everything the server sent on the connection.  Optional 1xx interim
    responses + exactly one final response, nothing behind it.
    """
    r = Response()
    rest = raw
    while True:
        i = rest.find(b'\r\n\r\n')
        if i < 0:
            if not rest.startswith(b'HTTP/'):
                r.problems.append(('response:no-status-line',
                                   'starts with %r' % rest[:80]))
            else:
                r.problems.append(('response:header-section-not-terminated',
                                   '%r' % rest[:300]))
            return r
        head, rest = rest[:i], rest[i + 4:]
        lines = head.split(b'\r\n')
        m = _STATUS.match(lines[0])
        if not m:
            r.problems.append(('response:bad-status-line',
                               '%r' % lines[0][:200]))
            return r
        status = int(m.group(1))
        headers = []
        prev = 'status-line'
        for line in lines[1:]:
            if b'\n' in line or b'\r' in line:
                hm = _HEADER.match(line)
                name = hm.group(1).decode('latin-1') if hm else prev
                r.problems.append((
                    'response-header:raw-CR-or-LF-inside-' + name,
                    'header line %r' % line[:400]))
                if hm:
                    prev = name
                    headers.append((name.lower(), hm.group(2)))
                continue
            if line[:1] in (b' ', b'\t'):
                # obs-fold continuation: a line break inside a field value
                r.problems.append((
                    'response-header:raw-CR-or-LF-inside-' + prev,
                    'continuation line %r after header %s' %
                    (line[:300], prev)))
                continue
            hm = _HEADER.match(line)
            if not hm:
                r.problems.append(('response-header:malformed-line',
                                   '%r' % line[:300]))
                continue
            prev = hm.group(1).decode('latin-1')
            headers.append((prev.lower(), hm.group(2)))
            cm = _FIELD_CTL.search(hm.group(2))
            if cm:
                r.problems.append((
                    'response-header:control-character-inside-' + prev,
                    'character %r in header line %r' % (cm.group(0),
                                                       line[:400])))
            if prev.lower() not in EMITTED_HEADERS:
                r.problems.append(('response-header:injected-header-' + prev,
                                   '%r' % line[:300]))
        if 100 <= status < 200:
            r.interim += 1
            if r.interim > 5:
                r.problems.append(('response:too-many-interim', ''))
                return r
            continue
        r.status = status
        r.reason = m.group(2) or b''
        r.headers = headers
        break
    cl = r.get('content-length')
    if cl is not None:
        if not re.match(rb'^[0-9]+$', cl):
            r.problems.append(('response:bad-content-length', '%r' % cl))
            r.body = rest
        else:
            n = int(cl)
            if head_request:
                if rest:
                    r.problems.append(('response:body-in-HEAD-response',
                                       '%r' % rest[:200]))
            elif len(rest) < n:
                r.problems.append(('response:body-shorter-than-content-'
                                   'length', '%d < %d' % (len(rest), n)))
            elif len(rest) > n:
                r.problems.append((
                    'response:bytes-after-the-response',
                    'Content-Length %d, %d more bytes: %r' %
                    (n, len(rest) - n, rest[n:n + 200])))
            r.body = rest[:n]
    else:
        # HTTP/1.0 style: body delimited by connection close
        r.body = rest
        if head_request and rest:
            r.problems.append(('response:body-in-HEAD-response',
                               '%r' % rest[:200]))
        elif rest.lstrip()[:7] in (b'HTTP/1.', ):
            r.problems.append(('response:second-response-on-connection',
                               '%r' % rest[:200]))
    return r


def export_response(body):
    """
    -> (kind, code, msgid): kind 'success' | 'error' | None if the body is no
    export response.
    """
    try:
        root = etree.fromstring(body)
    except etree.XMLSyntaxError:
        return None, None, None
    if root.tag != 'CIM':
        return None, None, None
    msg = root.find('MESSAGE')
    if msg is None:
        return None, None, None
    rsp = msg.find('SIMPLEEXPRSP/EXPMETHODRESPONSE')
    if rsp is None:
        return None, None, msg.get('ID')
    err = rsp.find('ERROR')
    if err is None:
        return 'success', None, msg.get('ID')
    return 'error', err.get('CODE'), msg.get('ID')


# ---------------------------------------------------------------------------
# request recipes

VERBS_405 = ['GET', 'HEAD', 'PUT', 'PATCH', 'DELETE', 'OPTIONS', 'TRACE',
             'CONNECT']
VERBS_OTHER = ['M-POST', 'FOO', 'post', 'Post', 'POSTX', 'PROPFIND',
               'M_POST', 'GET0', '$%&', 'A' * 300]

ACCEPT_OK = ['text/xml', 'application/xml', '*/*']
ACCEPT_BAD = ['text/html', 'application/json', 'image/png', 'text/plain']
ACCEPT_MAYBE = ['text/xml, application/xml', 'text/*', 'TEXT/XML',
                'text/xml;q=0.5', 'application/xml; charset=utf-8',
                'text/html, */*;q=0.1', '', ' text/xml', '*']
ACHARSET_OK = ['utf-8', 'UTF-8', '*', 'iso-8859-1, utf-8;q=0.5',
               'utf-8;q=1.0', 'Utf-8, *;q=0.1']
ACHARSET_BAD = ['iso-8859-1', 'us-ascii', 'utf-16', 'latin1, ascii;q=0.5']
ACHARSET_MAYBE = ['utf-8;q=0', '', 'utf8', '*;q=0', 'utf-8;q=abc', ';;',
                  ',', 'utf-8 ;q=0.5']
CTYPE_OK = ['text/xml', 'application/xml', 'text/xml; charset=utf-8',
            'application/xml; charset="utf-8"', 'text/xml;charset=UTF-8',
            'Application/XML; charset=Utf-8']
CTYPE_BAD = ['text/plain', 'application/json', 'text/html; charset=utf-8',
             'text/xml; charset=iso-8859-1', 'application/xml; charset=utf-16',
             'multipart/form-data; boundary=x']
CTYPE_MAYBE = ['', 'text/xml; charset=', 'text/xml; charset="', 'xml',
               'text/xml, text/plain', 'text/xml; q=1; charset=utf-8',
               'text/xml;charset=utf-8;charset=latin1', ';', 'text/xml ']
CENC_OK = ['identity', 'Identity', 'IDENTITY']
CENC_BAD = ['gzip', 'deflate', 'compress', 'br', 'x-gzip']
CENC_MAYBE = ['', 'identity, gzip', ' identity', 'identity ']
ODD_VALUES = ['a\tb', 'caf\xe9', 'a\x00b', 'a\r\n b', 'a\r\n\tX-Injected: 1',
              '\xff\xfe', 'x' * 5000, '"', '%0d%0aX: y', 'a\x0bb\x0cc',
              '\x7f', 'a\x85b', '=?utf-8?q?a?=', '\xa0', 'a\r\n  b\r\n c',
              '{0}', '{0!A}', '%s %d']
TARGETS = ['/', '/', '*', '/cimlistener/x', 'http://127.0.0.1/', '/a?b=c',
           '/%0d%0a', '/' + 'a' * 2000, '/\xe9', '//', '/a b'.replace(' ', '')]
VERSION_UNSUPPORTED = {'CIMVERSION': ['3.0', '1.0', '1.2', '20.0'],
                       'DTDVERSION': ['3.0', '1.0', '1.1', '20.0'],
                       'PROTOCOLVERSION': ['2.0', '0.9', '3.0', '10.0']}
VERSION_ODD = ['abc', '', '2', '2x', ' 2.0', '2,0', '.', '2.€', '2.0.1',
               '1', '1.', '2.', 'x' * 300, '2.0\n', '-2.0', '€', '\u4e2d.0',
               '\u03a92.0', '3.€', '\u0662.\u0660', '\U0001F600', 'v2.0\u2028']
METHODS_UNKNOWN = ['ExportIndications', 'DeliverIndication', 'Foo',
                   'Export', 'GetInstance', 'X' * 500, 'Foo€', 'F\xe9',
                   'Foo\U0001F600', 'a b', 'Foo\nBar', '<&>"\'']
METHODS_MAYBE = ['exportindication', 'EXPORTINDICATION', '',
                 ' ExportIndication', 'ExportIndication ']
PARAM_NAMES = ['Foo', 'Indication', 'NewIndications', 'X' * 300, 'New€',
               'a\nb', '\xe9', "'\"<>&", 'New Indication', '{0}']
MSGIDS = ['1001', '', '0', 'x' * 2000, '€', 'a\nb', 'a\rb', '<&>"\'',
          '\U0001F600', ' ', '42 ', '%s', '{0}']
DECLS = ['none', 'UTF-8', 'utf-16', 'latin-1', 'x-bogus', 'bom', 'ws',
         'doctype', 'comment', 'pi', 'version11', 'standalone', 'crlf']
UNICODE_NAMES = ['\u4e2d', 'F\u4e2d', '\u0416', 'x\u0141', '\u00e9',
                 '\U00020000', '\u03a9mega']
NOTINST = ['VALUE', 'VALUE.ARRAY', 'CLASS', 'INSTANCENAME', 'CLASSNAME',
           'VALUE.NAMEDINSTANCE', 'TEXT', 'TWOINST', 'FOO', 'PROPERTY']

# Control characters inside text that the listener reflects (CIMErrorDetails
# header, echoed names in the response body).  A literal CR/LF/TAB in an XML
# attribute value is normalized to a blank by the XML parser and a literal
# CR/LF in a header value ends the header line, so the generator uses what
# does arrive: character references in XML, folded header values (line break
# followed by blank/TAB; Python's header parser takes a bare CR and a bare LF
# as line breaks, too).
INJECT = 'X-Verif-Injected: 1'
CTL_ATOMS = ['\r', '\r', '\r', '\r', '\n', '\n', '\r\n', '\r\n', '\n\r',
             '\t', '\x0b', '\x0c', '\x00', '\x01', '\x08', '\x1b', '\x1c',
             '\x1f', '\x7f', '\x85', ' ']
CTL_TAILS = [INJECT, INJECT, INJECT, 'b', '', INJECT + '\r', '€' + INJECT,
             INJECT + '\n c']
VERSION_CTL_PREFIX_BAD = ['9', '9', '3.0', '4.1', '20.0']
VERSION_CTL_PREFIX_MAYBE = ['2.0', '1.0', '', 'x']
HDR_CTL_BASE = {
    'Accept': ['text/html,', 'text/html', 'text/xml', ''],
    'Accept-Charset': ['iso-8859-1,', 'us-ascii', 'utf-8', ''],
    'Accept-Range': ['bytes', 'none,', ''],
    'Content-Type': ['text/plain;', 'application/json', 'text/xml;', ''],
    'Content-Encoding': ['gzip,', 'deflate', 'identity', ''],
}
CTL_REF_ATTRS = ['ID', 'NAME', 'NAME', 'CLASSNAME', 'TYPE', 'CIMVERSION',
                 'DTDVERSION', 'PROTOCOLVERSION', '<VALUE>']

_I = st.integers(0, 10 ** 6)


def _pick(draw, seq):
    return seq[draw(_I) % len(seq)]


def _g_ctl(draw):
    "1..3 control-character atoms, mostly a single one"
    n = draw(st.sampled_from([1, 1, 1, 1, 2, 3]))
    return ''.join(_pick(draw, CTL_ATOMS) for _ in range(n))


def ctl_kind(seq):
    "class label of a control-character sequence"
    rest = seq.replace('\r\n', '')
    if '\r' in rest:
        return 'bare-CR'
    if '\n' in rest:
        return 'bare-LF'
    if '\r\n' in seq:
        return 'CRLF'
    if seq.strip(' ') == '\t' * len(seq.strip(' ')):
        return 'TAB-or-blank'
    return 'other-control'


def xml_ctl(text):
    """
    XML attribute value / character data text in which control characters
    (and the line break characters NEL, LS) are character references, the only
    form in which they survive XML parsing.
    """
    out = []
    for ch in text:
        if ch in '&<>"':
            out.append({'&': '&amp;', '<': '&lt;', '>': '&gt;',
                        '"': '&quot;'}[ch])
        elif ord(ch) < 0x20 or ch in '\x7f\x85\u2028':
            out.append('&#%d;' % ord(ch))
        else:
            out.append(ch)
    return ''.join(out)


def _g_header_defect(draw):
    """
    -> (defect name, [(header, value)...], certainty) certainty: 'ok' value
    acceptable, 'bad' certain mismatch, 'maybe' no specific expectation
    """
    which = draw(st.integers(0, 18))
    cert = draw(st.integers(0, 9))
    if which >= 16:
        # control characters inside the value of a header whose value the
        # listener reflects when it rejects it; a line break is mostly
        # followed by a blank/TAB (folded value), otherwise it just ends the
        # header line
        name = _pick(draw, sorted(HDR_CTL_BASE))
        seq = _g_ctl(draw)
        fold = _pick(draw, [' ', ' ', ' ', '\t', '\t', ''])
        value = _pick(draw, HDR_CTL_BASE[name]) + seq + fold + \
            _pick(draw, CTL_TAILS)
        return ('hdr:%s:ctl' % name, [(name, value)], 'maybe')
    if which >= 14:
        name = draw(st.one_of(
            st.sampled_from(['Accept', 'Accept-Charset', 'Content-Type',
                             'Content-Encoding', 'Accept-Range', 'X-Any',
                             'Content-Language', 'Accept-Language']),
            st.text(alphabet="!#$%&'*+-.^_`|~09AZaz", min_size=1,
                    max_size=8)))
        value = draw(st.text(alphabet=st.characters(
            max_codepoint=255, blacklist_characters='\r\n'), max_size=30))
        return ('hdr:random', [(name, value)], 'maybe')
    if which <= 4:
        name, ok, bad, maybe = [
            ('Accept', ACCEPT_OK, ACCEPT_BAD, ACCEPT_MAYBE),
            ('Accept-Charset', ACHARSET_OK, ACHARSET_BAD, ACHARSET_MAYBE),
            ('Content-Type', CTYPE_OK, CTYPE_BAD, CTYPE_MAYBE),
            ('Content-Encoding', CENC_OK, CENC_BAD, CENC_MAYBE),
            ('Accept-Range', ['bytes'], ['bytes'], ['none', '', 'x']),
        ][which]
        if name == 'Accept-Range':
            return ('hdr:Accept-Range', [(name, _pick(draw, ['bytes', 'none',
                                                              '', 'x']))],
                    'maybe')
        if cert <= 2:
            return ('hdr:%s:ok' % name, [(name, _pick(draw, ok))], 'ok')
        if cert <= 5:
            return ('hdr:%s:bad' % name, [(name, _pick(draw, bad))], 'bad')
        if cert <= 7:
            return ('hdr:%s:maybe' % name, [(name, _pick(draw, maybe))],
                    'maybe')
        return ('hdr:%s:odd' % name, [(name, _pick(draw, ODD_VALUES))],
                'maybe')
    if which == 5:
        return ('hdr:Content-Type:missing', [('Content-Type', None)], 'maybe')
    if which == 6:
        v = _pick(draw, ['100-continue', '100-Continue', 'foo', ''])
        return ('hdr:Expect', [('Expect', v)],
                'ok' if v.lower() == '100-continue' else 'maybe')
    if which == 7:
        return ('hdr:Connection', [('Connection', _pick(draw, [
            'keep-alive', 'close', 'Keep-Alive', 'Close']))], 'ok')
    if which == 8:
        return ('hdr:Transfer-Encoding', [('Transfer-Encoding', _pick(draw, [
            'chunked', 'identity', 'gzip, chunked']))], 'maybe')
    if which == 9:
        n = _pick(draw, [1, 5, 90, 99, 100, 101, 150])
        return ('hdr:many', [('X-H%d' % i, 'v') for i in range(n)], 'maybe')
    if which == 10:
        return ('hdr:odd-extra', [
            (_pick(draw, ['X-Odd', 'CIMExportMethod', 'CIMExport', 'Host',
                          'Accept-Language', 'Content-Language', 'Range',
                          'Authorization', 'CIMProtocolVersion', 'Man',
                          'Accept-Encoding']),
             _pick(draw, ODD_VALUES))], 'maybe')
    if which == 11:
        return ('hdr:raw-line', [(None, _pick(draw, [
            'foo bar', ': empty-name', 'no-colon', ' leading-space: x',
            'X\x00Y: z', 'Caf\xe9: x', 'X-A : b', '\tTab: x']))], 'maybe')
    if which == 12:
        return ('hdr:lowercase-names', [('__lowercase__', None)], 'ok')
    return ('hdr:CIM-version', [('CIMProtocolVersion', _pick(draw, [
        '1.0', '2.0', 'abc']))], 'maybe')


def _g_cl_defect(draw):
    "Content-Length mode"
    k = draw(st.integers(0, 12))
    if k == 0:
        return ('missing',)
    if k == 12:
        # control characters in the (reflected) Content-Length value
        return ('text', _pick(draw, ['12', 'abc', '-1', '']) + _g_ctl(draw) +
                _pick(draw, [' ', ' ', '\t', '']) + _pick(draw, CTL_TAILS))
    if k == 1:
        return ('text', _pick(draw, ['abc', '', ' ', '1e3', '0x10', '12abc',
                                     '1.5', '\xb2', '٣'.encode(
                                         'utf-8').decode('latin-1'),
                                     '1_0', 'None', '- 5', '٣']))
    if k == 2:
        return ('text', _pick(draw, ['-1', '-5', '-0', '-99999999999999999'
                                     '9999']))
    if k == 3:
        return ('text', _pick(draw, [str(10 ** 20), str(2 ** 63),
                                     str(2 ** 63 - 1), str(2 ** 62),
                                     str(2 ** 64), '9' * 400]))
    if k in (4, 5):
        return ('delta', -draw(st.integers(1, 400)))
    if k in (6, 7):
        return ('delta', draw(st.integers(1, 400)))
    if k == 8:
        return ('text', _pick(draw, ['0', '00', '1', '2']))
    if k == 9:
        return ('dup', _pick(draw, ['5', '0', 'abc', '-1', 'same']))
    if k == 10:
        return ('plus', _pick(draw, ['+', ' ', '0', '00000000']))
    return ('list', _pick(draw, [', ', ',']))


def _g_ctl_ref(draw, attrs):
    """
    Control characters as character references inside an attribute value (or
    the text of a VALUE element): (attribute, which occurrence, where in the
    value: 0 start / 1 end / 2 instead of it, control sequence, tail).
    """
    return ('ctl-ref', (_pick(draw, attrs), draw(st.integers(0, 5)),
                        draw(st.integers(0, 2)), _g_ctl(draw),
                        _pick(draw, CTL_TAILS)))


def _g_xml_defect(draw):
    "-> (name, payload)"
    k = draw(st.integers(0, 22))
    if k >= 21:
        # version value with control characters (sent as character
        # references); an unsupported value is reflected in CIMErrorDetails
        a = _pick(draw, ['CIMVERSION', 'DTDVERSION', 'PROTOCOLVERSION'])
        prefix = _pick(draw, VERSION_CTL_PREFIX_BAD if draw(_I) % 4 else
                       VERSION_CTL_PREFIX_MAYBE)
        return ('version-ctl', (a, prefix, _g_ctl(draw),
                                _pick(draw, CTL_TAILS)))
    if k == 20:
        return _g_ctl_ref(draw, CTL_REF_ATTRS)
    if k >= 18:
        a = _pick(draw, ['CIMVERSION', 'DTDVERSION', 'PROTOCOLVERSION'])
        return ('version-odd', (a, _pick(draw, VERSION_ODD)))
    if k == 16:
        return ('unicode-tag', (_pick(draw, [
            'INSTANCE', 'PROPERTY', 'EXPPARAMVALUE', 'EXPMETHODCALL',
            'SIMPLEEXPREQ', 'MESSAGE', 'VALUE', 'CIM']),
            _pick(draw, UNICODE_NAMES)))
    if k == 17:
        return ('unicode-attr', (_pick(draw, [
            'TYPE="', 'CLASSNAME="', 'NAME="', 'ID="', 'CIMVERSION="',
            'DTDVERSION="', 'PROTOCOLVERSION="']),
            _pick(draw, UNICODE_NAMES), draw(st.booleans())))
    if k <= 2:
        return ('tree', [draw(R._MUT) for _ in
                         range(draw(st.sampled_from([1, 1, 2, 3])))])
    if k <= 5:
        return ('damage', (draw(st.integers(0, R.N_DAMAGE - 1)), draw(_I),
                           draw(_I)))
    if k == 6:
        return ('junk', draw(st.one_of(
            st.binary(max_size=40),
            st.sampled_from([b'', b'<', b'<CIM/>', b'<CIM', b'\xff\xfe',
                             b'<?xml version="1.0"?>', b'{}', b'\x00' * 10,
                             b'<a/>' * 3, b'<CIM></CIM>', b' ', b'\n']))))
    if k == 7:
        a = _pick(draw, ['CIMVERSION', 'DTDVERSION', 'PROTOCOLVERSION'])
        return ('version-unsupported', (a, _pick(draw,
                                                 VERSION_UNSUPPORTED[a])))
    if k == 8:
        a = _pick(draw, ['CIMVERSION', 'DTDVERSION', 'PROTOCOLVERSION'])
        return ('version-odd', (a, _pick(draw, VERSION_ODD)))
    if k == 9:
        return ('method-unknown', draw(st.one_of(
            st.sampled_from(METHODS_UNKNOWN), S.ident(1, 10).filter(
                lambda s: s.lower() != 'exportindication'))))
    if k == 10:
        return ('method-maybe', _pick(draw, METHODS_MAYBE))
    if k == 11:
        return ('params', _pick(draw, ['missing', 'extra-before',
                                       'extra-after', 'renamed', 'empty',
                                       'dup', 'case', 'dup-empty']) +
                ':' + _pick(draw, PARAM_NAMES))
    if k == 12:
        return ('notinst', _pick(draw, NOTINST))
    if k == 13:
        return ('msgid', draw(st.one_of(st.sampled_from(MSGIDS),
                                        S.cim_string(12))))
    if k == 14:
        return ('decl', _pick(draw, DECLS))
    return ('multi', _pick(draw, ['MULTIEXPREQ', 'SIMPLEREQ', 'twice']))


def _g_request(draw, profile='mixed', inst_depth=None):
    """
    Request recipe (plain data).
    """
    if inst_depth is None:
        inst_depth = draw(st.sampled_from([0, 0, 0, 1]))
    r = draw(st.integers(0, 99))
    inst = None
    if r % 3 != 0 or profile == 'responses':
        inst = S._g_instance(draw, depth=inst_depth, with_path=False)
    rec = {'inst': inst, 'xml': [], 'method': 'POST', 'version': 'HTTP/1.1',
           'target': '/', 'headers': [], 'cl': ('exact',)}
    if profile == 'responses':
        # CIM-XML level variety only: everything that yields a 200 response
        n = draw(st.sampled_from([0, 1, 1, 2]))
        for _ in range(n):
            k = draw(st.integers(0, 6))
            if k == 6:
                # message id, method name or parameter name with control
                # characters (echoed in the response body)
                rec['xml'].append(_g_ctl_ref(draw, ['ID', 'NAME']))
            elif k == 0:
                rec['xml'].append(('method-unknown', draw(st.one_of(
                    st.sampled_from(METHODS_UNKNOWN), S.cim_string(16)))))
            elif k == 1:
                rec['xml'].append(('params', _pick(draw, [
                    'missing', 'extra-before', 'extra-after', 'renamed',
                    'empty', 'dup', 'case', 'dup-empty']) + ':' + draw(
                        st.one_of(st.sampled_from(PARAM_NAMES),
                                  S.cim_string(16)))))
            elif k == 2:
                rec['xml'].append(('msgid', draw(st.one_of(
                    st.sampled_from(MSGIDS), S.cim_string(16)))))
            elif k == 3:
                rec['xml'].append(('method-maybe', _pick(draw,
                                                         METHODS_MAYBE)))
            elif k == 4:
                rec['xml'].append(('decl', _pick(draw, DECLS)))
            else:
                rec['xml'].append(('version-ok', (
                    _pick(draw, ['CIMVERSION', 'DTDVERSION']),
                    _pick(draw, ['2.0', '2.1', '2.3', '2.4', '2.99']))))
        rec['version'] = _pick(draw, ['HTTP/1.1', 'HTTP/1.0'])
        return rec
    if profile == 'valid':
        return rec
    # mixed profile
    if r < 6:
        nx, nh = 0, 0
    elif r < 45:
        nx, nh = draw(st.sampled_from([1, 1, 1, 2])), 0
    elif r < 85:
        nx, nh = 0, draw(st.sampled_from([1, 1, 1, 2]))
    else:
        nx, nh = 1, 1
    for _ in range(nx):
        rec['xml'].append(_g_xml_defect(draw))
    for _ in range(nh):
        k = draw(st.integers(0, 11))
        if k <= 4:
            rec['headers'].append(_g_header_defect(draw))
        elif k <= 7:
            rec['cl'] = _g_cl_defect(draw)
        elif k <= 9:
            rec['method'] = _pick(draw, VERBS_405 + VERBS_OTHER)
            if draw(_I) % 3 == 0:
                # every method x every Content-Length form
                rec['cl'] = _g_cl_defect(draw)
        elif k == 10:
            rec['target'] = _pick(draw, TARGETS)
        else:
            rec['version'] = 'HTTP/1.0'
    return rec


def request_strategy():
    return S._wrap(_g_request, 'mixed')


def responses_strategy():
    return S._wrap(_g_request, 'responses')


# ---------------------------------------------------------------------------
# recipe -> bytes


def _default_instance():
    return CIMInstance('CIM_AlertIndication',
                       properties={'Description': 'verif',
                                   'AlertType': Uint16(2)})


def build_body(rec, marker):
    """
    -> (body bytes, info).  info: 'defects' (names), 'sure' (dict with what is
    certain about the message), used to derive the expectation.
    """
    inst = S.build(rec['inst']) if rec['inst'] is not None else \
        _default_instance()
    inst.path = None
    inst.properties[MARKER] = CIMProperty(MARKER, Uint64(marker),
                                          type='uint64')
    method = 'ExportIndication'
    msgid = '1001'
    versions = {'CIMVERSION': '2.0', 'DTDVERSION': '2.0',
                'PROTOCOLVERSION': '1.0'}
    params = [('NewIndication', 'inst')]
    wrap = None
    info = {'defects': [], 'expect': [], 'interesting': False, 'ctl': []}
    post = []
    placeholders = []
    for name, payload in rec['xml']:
        info['defects'].append('xml:' + name)
        if name == 'version-ctl':
            attr, prefix, seq, tail = payload
            versions[attr] = 'VERIFCTL%dX' % len(placeholders)
            placeholders.append((versions[attr], prefix + seq + tail))
            info['ctl'].append('version:' + ctl_kind(seq))
            info['expect'].append(
                'reject' if prefix in VERSION_CTL_PREFIX_BAD else 'any')
        elif name in ('version-unsupported', 'version-odd', 'version-ok'):
            versions[payload[0]] = payload[1]
            if name == 'version-unsupported':
                info['expect'].append('reject')
            elif name == 'version-odd':
                info['expect'].append('any')
        elif name in ('method-unknown', 'method-maybe'):
            method = payload
            info['expect'].append('cim-error:7' if name == 'method-unknown'
                                  else 'any')
        elif name == 'params':
            how, pname = payload.split(':', 1)
            if how == 'missing':
                params = []
                info['expect'].append('cim-error:4')
            elif how == 'extra-before':
                params = [(pname, 'inst')] + params
                info['expect'].append('cim-error:4')
            elif how == 'extra-after':
                params = params + [(pname, 'inst')]
                info['expect'].append('cim-error:4')
            elif how == 'renamed':
                params = [(pname, 'inst')]
                info['expect'].append('cim-error:4')
            elif how == 'empty':
                params = [('NewIndication', 'none')]
                info['expect'].append('cim-error:4')
            elif how == 'dup':
                params = params + params
                info['expect'].append('any')
            elif how == 'dup-empty':
                params = params + [('NewIndication', 'none')]
                info['expect'].append('any')
            elif how == 'case':
                params = [('newindication', 'inst')]
                info['expect'].append('any')
        elif name == 'notinst':
            params = [('NewIndication', payload)]
            info['expect'].append('any' if payload in (
                'VALUE.NAMEDINSTANCE', 'TWOINST') else 'cim-error-or-reject')
        elif name == 'msgid':
            msgid = payload
            info['expect'].append('same')
        elif name == 'multi':
            wrap = payload
            info['expect'].append('cim-error-or-reject')
        else:
            post.append((name, payload))

    def child(kind):
        if kind == 'inst':
            return inst.tocimxml()
        if kind == 'none':
            return None
        if kind == 'VALUE':
            return _cim_xml.VALUE('abc')
        if kind == 'VALUE.ARRAY':
            return _cim_xml.VALUE_ARRAY([_cim_xml.VALUE('a')])
        if kind == 'CLASS':
            return pywbem.CIMClass('C').tocimxml()
        if kind == 'INSTANCENAME':
            return pywbem.CIMInstanceName('C', {'k': 1}).tocimxml()
        if kind == 'CLASSNAME':
            return _cim_xml.CLASSNAME('C')
        if kind == 'VALUE.NAMEDINSTANCE':
            return _cim_xml.VALUE_NAMEDINSTANCE(
                pywbem.CIMInstanceName('C', {'k': 1}).tocimxml(),
                inst.tocimxml())
        if kind == 'PROPERTY':
            return CIMProperty('p', 'v').tocimxml()
        return kind     # handled on the text level below
    plist = []
    for pname, kind in params:
        c = child(kind)
        if isinstance(c, str):
            el = _cim_xml.EXPPARAMVALUE(pname, None)
            el.setAttribute('VERIFKIND', c)
        else:
            el = _cim_xml.EXPPARAMVALUE(pname, c)
        plist.append(el)
    call = _cim_xml.EXPMETHODCALL(method, plist)
    if wrap == 'MULTIEXPREQ':
        req = _cim_xml.MULTIEXPREQ([_cim_xml.SIMPLEEXPREQ(call),
                                    _cim_xml.SIMPLEEXPREQ(call)])
    elif wrap == 'SIMPLEREQ':
        req = _cim_xml.SIMPLEREQ(_cim_xml.IMETHODCALL(
            'GetClass', _cim_xml.LOCALNAMESPACEPATH(
                [_cim_xml.NAMESPACE('root')]), []))
    else:
        req = _cim_xml.SIMPLEEXPREQ(call)
    msg = _cim_xml.MESSAGE(req, msgid, versions['PROTOCOLVERSION'])
    if wrap == 'twice':
        msg.appendChild(_cim_xml.SIMPLEEXPREQ(call))
    doc = _cim_xml.CIM(msg, versions['CIMVERSION'], versions['DTDVERSION'])
    text = doc.toxml()
    text = text.replace(' VERIFKIND="TEXT"/>', '>some text</EXPPARAMVALUE>')
    text = text.replace(' VERIFKIND="FOO"/>', '><FOO/></EXPPARAMVALUE>')
    if ' VERIFKIND="TWOINST"/>' in text:
        one = inst.tocimxml().toxml()
        text = text.replace(' VERIFKIND="TWOINST"/>',
                            '>' + one + one + '</EXPPARAMVALUE>')
    for token, value in placeholders:
        text = text.replace(token, xml_ctl(value))
    text = '<?xml version="1.0" encoding="utf-8" ?>\n' + text
    # generic tree mutations work on the text
    for name, payload in post:
        if name == 'ctl-ref':
            attr, which, where, seq, tail = payload
            text = _apply_ctl_ref(text, attr, which, where,
                                  xml_ctl(seq + tail))
            info['ctl'].append('ref:' + ctl_kind(seq))
            info['expect'].append('any')
        elif name == 'tree':
            try:
                text = R.mutate(text, payload)
            except (ValueError, etree.XMLSyntaxError):
                # e.g. a control character that lxml refuses to set
                pass
            info['expect'].append('any')
    body = text.encode('utf-8')
    for name, payload in post:
        if name == 'damage':
            body = R.damage(body, *payload)
            info['expect'].append('any')
        elif name == 'junk':
            body = payload
            info['expect'].append('any')
        elif name == 'unicode-tag':
            tag, new = payload
            t = body.decode('utf-8', 'surrogateescape')
            t = t.replace('<' + tag + ' ', '<' + new + ' ', 1).replace(
                '<' + tag + '>', '<' + new + '>', 1)
            # last end tag of that name (elements nest, first start tag is
            # the outermost)
            i = t.rfind('</' + tag + '>')
            if i >= 0 and ('<' + new) in t:
                t = t[:i] + '</' + new + '>' + t[i + len(tag) + 3:]
            body = t.encode('utf-8', 'surrogateescape')
            info['expect'].append('any')
        elif name == 'unicode-attr':
            attr, new, replace_value = payload
            t = body.decode('utf-8', 'surrogateescape')
            i = t.find(' ' + attr)
            if i >= 0:
                if replace_value:
                    j = t.index('"', i + len(attr) + 1)
                    t = t[:i + 1 + len(attr)] + new + t[j:]
                else:
                    t = t[:i] + ' ' + new + '="x"' + t[i:]
            body = t.encode('utf-8', 'surrogateescape')
            info['expect'].append('any')
        elif name == 'decl':
            body = _apply_decl(body, payload)
            info['expect'].append('same' if payload in (
                'UTF-8', 'ws', 'standalone', 'crlf') else 'any')
    return body, info


def _apply_ctl_ref(text, attr, which, where, insert):
    """
    Put the (already escaped) text `insert` into the value of the which-th
    attribute `attr` of the document text (attr '<VALUE>': into the text of
    the which-th VALUE element).
    """
    if attr == '<VALUE>':
        pat = re.compile(r'<VALUE>([^<]*)</VALUE>')
    else:
        pat = re.compile(r' %s="([^"]*)"' % re.escape(attr))
    found = list(pat.finditer(text))
    if not found:
        return text
    m = found[which % len(found)]
    old = m.group(1)
    new = insert + old if where == 0 else old + insert if where == 1 \
        else insert
    return text[:m.start(1)] + new + text[m.end(1):]


def _apply_decl(body, how):
    if not body.startswith(b'<?xml') or b'\n' not in body:
        return body
    decl, rest = body.split(b'\n', 1)
    if how == 'none':
        return rest
    if how in ('UTF-8', 'utf-16', 'latin-1', 'x-bogus'):
        return b'<?xml version="1.0" encoding="' + how.encode() + b'"?>\n' + \
            rest
    if how == 'bom':
        return b'\xef\xbb\xbf' + body
    if how == 'ws':
        return decl + b'\n\n  \t' + rest + b'\n \n'
    if how == 'doctype':
        return decl + b'\n<!DOCTYPE CIM SYSTEM "http://127.0.0.1:9/x.dtd">' + \
            rest
    if how == 'comment':
        return decl + b'\n<!-- c -->' + rest + b'<!-- d -->'
    if how == 'pi':
        return decl + b'\n<?foo bar?>' + rest
    if how == 'version11':
        return b'<?xml version="1.1" encoding="utf-8"?>\n' + rest
    if how == 'standalone':
        return b'<?xml version="1.0" encoding="utf-8" standalone="yes"?>\n' + \
            rest
    if how == 'crlf':
        return decl + b'\r\n' + rest.replace(b'><MESSAGE', b'>\r\n<MESSAGE')
    return body


def well_formed(body):
    """
    True / False / None (parsers disagree): is body a well-formed XML
    document for both expat and libxml2?
    """
    import xml.parsers.expat
    p = xml.parsers.expat.ParserCreate()
    try:
        p.Parse(body, True)
        a = True
    except xml.parsers.expat.ExpatError:
        a = False
    except LookupError:         # unknown encoding in the XML declaration
        return None
    try:
        etree.fromstring(body, etree.XMLParser(resolve_entities=False,
                                               no_network=True))
        b = True
    except etree.XMLSyntaxError:
        b = False
    if a == b:
        return a
    return None


def _ctl_part(value):
    "the control characters (and blanks between them) of a header value"
    m = re.search(r'[\x00-\x1f\x7f\x85][\x00-\x20\x7f\x85]*', value)
    return m.group(0).rstrip(' ') if m else ''


def build_request(rec, marker):
    """
    -> (raw bytes, info) ; info['expect'] in: 'success', 'reject'
    (4xx/5xx + CIMError), 'cim-error:N', 'cim-error-or-reject', '405',
    'http-error', 'any'.
    """
    body, info = build_body(rec, marker)
    sent_body = body
    headers = [('Host', '127.0.0.1'),
               ('Content-Type', 'application/xml; charset="utf-8"'),
               ('CIMExport', 'MethodRequest'),
               ('CIMExportMethod', 'ExportIndication')]
    raw_lines = []
    lower = False
    cert_by_header = {}     # the last setting of a header wins
    for name, hlist, cert in rec['headers']:
        info['defects'].append(name)
        if name.endswith(':ctl'):
            info['ctl'].append('hdr:' + ctl_kind(_ctl_part(hlist[0][1])))
        cert_by_header[hlist[0][0].lower() if hlist and hlist[0][0]
                       else name] = cert
        for hn, hv in hlist:
            if hn == '__lowercase__':
                lower = True
            elif hn is None:
                raw_lines.append(hv)
            else:
                headers = [(n, v) for n, v in headers
                           if n.lower() != hn.lower()]
                if hv is not None:
                    headers.append((hn, hv))
    cl = rec['cl']
    n = len(body)
    cl_values = []
    cl_state = 'exact'
    if cl[0] == 'exact':
        cl_values = [str(n)]
    elif cl[0] == 'missing':
        cl_state = 'other'
    elif cl[0] == 'text':
        cl_values = [cl[1]]
        cl_state = 'other'
    elif cl[0] == 'delta':
        v = n + cl[1]
        if v < 0:
            v = 0
        cl_values = [str(v)]
        cl_state = 'exact' if v == n else ('short' if v < n else 'long')
        if v < n:
            body = body[:v]
    elif cl[0] == 'dup':
        cl_values = [str(n), str(n) if cl[1] == 'same' else cl[1]]
        cl_state = 'other' if cl[1] != 'same' else 'exact'
    elif cl[0] == 'plus':
        cl_values = [cl[1] + str(n)]
        cl_state = 'exact' if cl[1] in ('0', '00000000') else 'other'
    elif cl[0] == 'list':
        cl_values = [str(n) + cl[1] + str(n)]
        cl_state = 'other'
    if cl[0] != 'exact':
        info['defects'].append('cl:' + cl[0])
        if cl[0] == 'text' and _ctl_part(cl[1]):
            info['ctl'].append('hdr:' + ctl_kind(_ctl_part(cl[1])))
    for v in cl_values:
        headers.append(('Content-Length', v))
    if rec['method'] != 'POST':
        info['defects'].append('method')
    if rec['target'] != '/':
        info['defects'].append('target')
    if rec['version'] != 'HTTP/1.1':
        info['defects'].append('http10')
    head = '%s %s %s\r\n' % (rec['method'], rec['target'], rec['version'])
    for hn, hv in headers:
        head += '%s: %s\r\n' % (hn.lower() if lower else hn, hv)
    for line in raw_lines:
        head += line + '\r\n'
    head += '\r\n'
    raw = head.encode('latin-1', 'replace') + sent_body

    # --- expectation -------------------------------------------------------
    exp = [e for e in info['expect'] if e != 'same']
    hdr_cert = list(cert_by_header.values())
    wf = well_formed(body)
    info['well_formed'] = wf
    if rec['method'] != 'POST':
        # http.server may refuse the header section before dispatching
        expect = '405' if rec['method'] in VERBS_405 and \
            'maybe' not in hdr_cert and rec['target'] == '/' \
            else 'http-error'
    elif cl_state == 'other' or 'maybe' in hdr_cert or \
            rec['target'] != '/':
        # (an unusual request target may be refused on the HTTP level)
        expect = 'any'
    elif 'bad' in hdr_cert:
        expect = 'reject'
    elif wf is False:
        expect = 'reject'
    elif wf is None:
        expect = 'any'
    elif cl_state != 'exact':
        # a body shorter than Content-Length may be refused
        expect = 'any'
    elif not exp:
        expect = 'success'
    elif len(exp) == 1:
        expect = exp[0]
    else:
        expect = 'any'
    info['expect'] = expect
    info['head_request'] = rec['method'] == 'HEAD'
    info['reaches_post'] = rec['method'] == 'POST'
    return raw, info


# ---------------------------------------------------------------------------
# the oracle for one exchange


def check_exchange(ctx, fx, raw, info, data, end, classes, where=''):
    """
    Judge what came back for one request.  Returns the Response (or None).
    """
    expect = info['expect']
    end, lport = end
    if end == 'not-connected':
        ctx.fail('no-response:connection-not-accepted',
                 'connect() to the listener port failed or timed out')
        classes.append('outcome:not-connected')
        return None
    if end == 'timeout':
        ctx.fail('no-response:read-timeout-after-half-close',
                 'nothing more within %s s; got %r' % (IO_TIMEOUT, data[:200]))
        classes.append('outcome:timeout')
        return None
    if not data:
        block = _CAP.block_for(lport) if _CAP is not None else None
        if block is None:
            time.sleep(0.05)
            block = _CAP.block_for(lport) if _CAP is not None else None
        sig = tb_signature(block) if block else None
        if sig and re.search(r'@_listener:do_POST:(content_len=int\(|'
                             r'body=self\.rfile\.read\(content_len\))', sig):
            # one root cause: the Content-Length value is used unchecked
            sig = 'unchecked-Content-Length-value-raises-in-do_POST'
        ctx.fail('no-response:' + (sig or 'connection-closed-without-'
                                   'traceback'),
                 'request %r...: connection ended (%s) without a single '
                 'byte of response\n%s' % (raw[:300], end, block or ''))
        classes.append('outcome:no-response')
        return None
    resp = parse_response(data, info.get('head_request', False))
    for sig, detail in resp.problems:
        ctx.fail(sig, '%s\nrequest: %r\nresponse: %r' %
                 (detail, raw[:600], data[:1200]))
    if resp.status is None:
        classes.append('outcome:unparsable')
        return resp
    if end == 'reset':
        classes.append('end:reset-after-response')
    status = resp.status
    classes.append('status:%d' % status)
    kind = code = None
    if status == 200:
        if resp.get('content-length') is None:
            ctx.fail('response:200-without-content-length',
                     '%r' % data[:400])
        ct = (resp.get('content-type') or b'').split(b';')[0].strip().lower()
        if ct not in (b'text/xml', b'application/xml'):
            ctx.fail('response:200-content-type-not-xml', '%r' % ct)
        bad = validate_cimxml(resp.body)
        if bad is not None:
            ctx.fail('response-body:' + bad[0],
                     '%s\nrequest: %r' % (bad[1], raw[:1500]))
        else:
            kind, code, _ = export_response(resp.body)
            if kind is None:
                ctx.fail('response-body:not-an-export-response',
                         '%r' % resp.body[:600])
            else:
                classes.append('resp:' + kind + (('-' + str(code))
                                                 if code else ''))
    elif 400 <= status <= 599:
        ce = resp.get('cimerror')
        if ce is not None:
            classes.append('cimerror:' + ce.decode('latin-1')[:40])
            if not re.match(rb"^[!#$%&'*+\-.^_`|~0-9A-Za-z]+$", ce):
                ctx.fail('response:CIMError-value-not-a-token',
                         '%r' % ce)
    else:
        ctx.fail('response:unexpected-status-%d' % status,
                 'request %r -> %r' % (raw[:300], data[:300]))
        return resp

    # expectations for requests whose class is certain
    def mismatch(what):
        ctx.fail('expect:' + what,
                 'expected %s; request %r\nresponse %r' %
                 (expect, raw[:1500], data[:800]))
    if expect == 'success':
        if kind != 'success':
            if status == 200 and kind == 'error':
                mismatch('valid-indication-answered-with-ERROR-%s' % code)
            elif status != 200:
                mismatch('valid-indication-rejected-with-%d-%s' % (
                    status, (resp.get('cimerror') or b'').decode('latin-1')))
    elif expect == 'reject':
        if status == 200:
            mismatch('%s-answered-200-%s' % (
                'malformed-xml' if info.get('well_formed') is False else
                'unsupported-version-or-header-mismatch', kind))
        elif resp.get('cimerror') is None:
            mismatch('rejected-with-%d-without-CIMError' % status)
    elif expect.startswith('cim-error:'):
        want = expect.split(':')[1]
        what = 'unknown-method' if want == '7' else 'wrong-parameters'
        if status != 200:
            mismatch('%s-answered-%d-instead-of-ERROR' % (what, status))
        elif kind == 'success':
            mismatch('%s-answered-with-success' % what)
        elif kind == 'error' and code != want:
            mismatch('%s-ERROR-code-%s' % (what, code))
    elif expect == 'cim-error-or-reject':
        if status == 200 and kind == 'success':
            mismatch('non-instance-parameter-or-multi-request-answered-'
                     'with-success')
        elif status != 200 and resp.get('cimerror') is None:
            mismatch('rejected-with-%d-without-CIMError' % status)
    elif expect == '405':
        if status != 405:
            mismatch('verb-answered-%d-instead-of-405' % status)
        elif resp.get('allow') is None:
            mismatch('405-without-Allow')
    elif expect == 'http-error':
        if status == 200:
            mismatch('non-POST-method-answered-200')
    return resp


def valid_request(marker, inst=None):
    rec = {'inst': inst, 'xml': [], 'method': 'POST', 'version': 'HTTP/1.1',
           'target': '/', 'headers': [], 'cl': ('exact',)}
    return build_request(rec, marker)


def survival_probe(ctx, fx, where='survival:'):
    "valid indication with a fresh marker: accepted and delivered once"
    marker = next_marker()
    raw, info = valid_request(marker)
    data, end = exchange(fx.port, raw)
    classes = []
    resp = check_exchange(ctx, fx, raw, info, data, end, classes,
                          where=where)
    ok = resp is not None and resp.status == 200
    if ok:
        if not fx.wait_delivered(marker):
            ctx.fail(where + 'accepted-indication-not-delivered',
                     'marker %d not seen by the callback within %s s' %
                     (marker, DELIVERY_TIMEOUT))
            ok = False
        elif fx.delivered(marker) != 1:
            ctx.fail(where + 'indication-delivered-more-than-once',
                     'marker %d: %d times' % (marker, fx.delivered(marker)))
    if not fx.threads_alive():
        ctx.fail('listener-thread-died',
                 'threads: %r' % [t.name for t in threading.enumerate()])
        fx.stop()
        ok = False
    return ok


def run_request(ctx, fx, rec, classes):
    """
    Full treatment of one request recipe.  Returns (info, resp).
    """
    marker = next_marker()
    raw, info = build_request(rec, marker)
    data, end = exchange(fx.port, raw)
    resp = check_exchange(ctx, fx, raw, info, data, end, classes)
    classes.append('expect:' + info['expect'])
    for d in info['defects']:
        classes.append('defect:' + d.split(':')[0] + ':' +
                       d.split(':')[1] if ':' in d else 'defect:' + d)
    classes.append('method:' + (rec['method'] if len(rec['method']) < 10
                                else 'long'))
    classes.append('cl:' + rec['cl'][0])
    if rec['method'] != 'POST' and rec['cl'][0] != 'exact':
        classes.append('non-POST-with-cl:' + rec['cl'][0])
    if info.get('well_formed') is False:
        classes.append('xml:ill-formed')
    for c in info['ctl']:
        classes.append('ctl:' + c)
    if info['ctl'] and resp is not None and resp.status is not None:
        # how often does the text around the control characters come back
        # (sanitized) in a header / in the body of the response
        token = INJECT.encode('ascii')
        if token in (resp.get('cimerrordetails') or b''):
            classes.append('ctl-reflected:CIMErrorDetails')
            for c in info['ctl']:
                classes.append('ctl-reflected:CIMErrorDetails:' + c)
        elif token in resp.body:
            classes.append('ctl-reflected:body')
        elif resp.status == 200:
            classes.append('ctl-not-reflected:200')
        else:
            classes.append('ctl-not-reflected:%d' % resp.status)
    # delivery of what was accepted
    if resp is not None and resp.status == 200:
        kind, _, _ = export_response(resp.body)
        if info['expect'] == 'success' and kind == 'success':
            if not fx.wait_delivered(marker):
                ctx.fail('accepted-indication-not-delivered',
                         'marker %d of request %r' % (marker, raw[:300]))
            elif fx.delivered(marker) != 1:
                ctx.fail('indication-delivered-more-than-once',
                         'marker %d: %d times' % (marker,
                                                  fx.delivered(marker)))
        elif kind == 'error' and fx.delivered(marker):
            ctx.fail('indication-answered-with-ERROR-was-delivered',
                     'marker %d' % marker)
    elif resp is not None and resp.status is not None and \
            fx.delivered(marker):
        ctx.fail('indication-answered-with-%d-was-delivered' % resp.status,
                 'marker %d' % marker)
    return info, resp


def request_oracle(ctx, rec):
    fx = shared_fixture()
    classes = []
    try:
        info, _ = run_request(ctx, fx, rec, classes)
        survival_probe(ctx, fx)
        fx.trim()
    finally:
        release_fixture()
    ctx.case(nontrivial=info['reaches_post'] and bool(info['defects']),
             classes=classes)


def responses_oracle(ctx, rec):
    fx = shared_fixture()
    classes = []
    try:
        info, resp = run_request(ctx, fx, rec, classes)
        survival_probe(ctx, fx)
        fx.trim()
    finally:
        release_fixture()
    ctx.case(nontrivial=resp is not None and resp.status == 200,
             classes=classes)


# ---------------------------------------------------------------------------
# histories


class Sequences:
    """
    History of requests on one listener: complete requests (any defects),
    valid indications, bursts of simultaneous valid indications, connections
    stalled in the middle of a request that are resumed or aborted later.
    The number of steps and the step alternatives depend only on the steps
    drawn so far, never on how the listener behaved.
    """

    MAX_STALLED = 4

    def __init__(self, ctx):
        self.ctx = ctx
        self.fx = None
        self.stalled = []    # dicts: sock, rest, raw, info, marker, fx
        self.valid = []      # markers that were accepted
        self.n_defect = 0
        self.n_valid = 0
        self.classes = []

    def init_strategy(self):
        return st.just(None)

    def setup(self, init):
        self.fx = shared_fixture()

    def step_strategy(self):
        opts = [
            st.tuples(st.just('req'), request_strategy()),
            st.tuples(st.just('req'), request_strategy()),
            st.tuples(st.just('valid'), st.one_of(
                st.none(), S.cim_instance(depth=0, with_path=False))),
        ]
        opts.append(st.tuples(st.just('burst'), st.integers(2, 6)))
        if len(self.stalled) < self.MAX_STALLED:
            opts.append(st.tuples(st.just('stall'), request_strategy(),
                                  st.integers(0, 1000)))
            opts.append(st.tuples(st.just('stall'), request_strategy(),
                                  st.integers(0, 1000)))
        if self.stalled:
            opts.append(st.tuples(st.just('resume'), st.integers(0, 3)))
            opts.append(st.tuples(st.just('abort'), st.integers(0, 3),
                                  st.sampled_from(['close', 'reset',
                                                   'halfclose'])))
        return st.one_of(opts)

    def _accepted(self, resp, marker):
        if resp is not None and resp.status == 200 and \
                export_response(resp.body)[0] == 'success':
            self.valid.append(marker)

    def _valid(self, inst):
        marker = next_marker()
        raw, info = valid_request(marker, inst)
        data, end = exchange(self.fx.port, raw)
        resp = check_exchange(self.ctx, self.fx, raw, info, data, end, [])
        self._accepted(resp, marker)
        self.n_valid += 1

    def _burst(self, k):
        "k valid indications sent at the same time on k connections"
        jobs = []
        for _ in range(k):
            marker = next_marker()
            raw, info = valid_request(marker)
            jobs.append([marker, raw, info, None])
        barrier = threading.Barrier(k)
        port = self.fx.port

        def run(job):
            try:
                barrier.wait(10)
            except threading.BrokenBarrierError:
                pass
            job[3] = exchange(port, job[1])
        threads = [threading.Thread(target=run, args=(j,), daemon=True)
                   for j in jobs]
        for t in threads:
            t.start()
        for t in threads:
            t.join(IO_TIMEOUT + 15)
        for marker, raw, info, res in jobs:
            if res is None:
                self.ctx.fail('no-response:read-timeout-after-half-close',
                              'burst of %d: no result' % k)
                continue
            resp = check_exchange(self.ctx, self.fx, raw, info, res[0],
                                  res[1], [])
            self._accepted(resp, marker)
        self.n_valid += 1

    def apply(self, step):
        kind = step[0]
        self.classes.append('step:' + kind)
        if kind == 'req':
            info, _ = run_request(self.ctx, self.fx, step[1], [])
            if info['defects']:
                self.n_defect += 1
        elif kind == 'valid':
            self._valid(step[1])
        elif kind == 'burst':
            self._burst(step[1])
        elif kind == 'stall':
            marker = next_marker()
            raw, info = build_request(step[1], marker)
            cut = len(raw) * step[2] // 1000
            sock = _connect(self.fx.port)
            if sock is None:
                self.ctx.fail('no-response:connection-not-accepted',
                              'connect() failed or timed out')
                sock = socket.socket()      # placeholder, never connected
                lport = 0
            else:
                lport = sock.getsockname()[1]
                _send(sock, raw[:cut])
            self.stalled.append(dict(sock=sock, rest=raw[cut:], raw=raw,
                                     info=info, marker=marker, lport=lport,
                                     fx=self.fx if lport else None))
            if info['defects']:
                self.n_defect += 1
        elif kind == 'resume':
            if self.stalled:
                self._resume(self.stalled.pop(step[1] % len(self.stalled)))
        elif kind == 'abort':
            if self.stalled:
                c = self.stalled.pop(step[1] % len(self.stalled))
                self._abort(c, step[2])
        if not self.fx.threads_alive():
            self.ctx.fail('listener-thread-died', 'after step %r' %
                          (step,))
            # go on with a new listener; connections stalled on the old one
            # are only closed later
            self.fx.stop()
            self.fx = shared_fixture()
        return True

    def _resume(self, c):
        sock = c['sock']
        try:
            if c['fx'] is not self.fx:
                return
            _send(sock, c['rest'])
            try:
                sock.shutdown(socket.SHUT_WR)
            except OSError:
                pass
            data, end = _recv_all(sock)
        finally:
            sock.close()
        resp = check_exchange(self.ctx, self.fx, c['raw'], c['info'], data,
                              (end, c['lport']), [])
        if c['info']['expect'] == 'success':
            self._accepted(resp, c['marker'])

    def _abort(self, c, how):
        sock = c['sock']
        try:
            if how == 'reset':
                import struct
                sock.setsockopt(socket.SOL_SOCKET, socket.SO_LINGER,
                                struct.pack('ii', 1, 0))
            elif how == 'halfclose' and c['fx'] is self.fx:
                # the request ends in the middle; only survival is checked
                try:
                    sock.shutdown(socket.SHUT_WR)
                except OSError:
                    pass
                _recv_all(sock)
        finally:
            sock.close()

    def finish(self):
        while self.stalled:
            self._resume(self.stalled.pop())
        survival_probe(self.ctx, self.fx, where='survival:')
        for m in self.valid:
            if not self.fx.wait_delivered(m):
                self.ctx.fail('accepted-indication-not-delivered',
                              'marker %d' % m)
            elif self.fx.delivered(m) != 1:
                self.ctx.fail('indication-delivered-more-than-once',
                              'marker %d: %d times' %
                              (m, self.fx.delivered(m)))
        self.classes.append('valid-delivered:%d' % min(len(self.valid), 5))
        self.ctx.case(nontrivial=self.n_defect >= 1 and self.n_valid >= 1,
                      classes=sorted(set(self.classes)))

    def teardown(self):
        for c in self.stalled:
            try:
                c['sock'].close()
            except OSError:
                pass
        self.stalled = []
        if self.fx is not None:
            self.fx.trim()
        release_fixture()


# ---------------------------------------------------------------------------
# queue full


def queue_strategy():
    return st.tuples(st.integers(1, 3), st.integers(1, 3),
                     st.lists(st.sampled_from(['valid', 'unknown-method',
                                               'ill-formed', 'get']),
                              max_size=2))


def queue_oracle(ctx, ex):
    """
    Listener with max_ind_queue_size = n whose callback blocks: one
    indication is in the callback, n fill the queue, the next m must be
    answered with 200 + ERROR CODE 1 (CIM_ERR_FAILED, WBEMListener
    docstring), other requests are still answered; after the callback is
    released everything accepted is delivered exactly once and a new
    indication is accepted.
    """
    n, m, extra = ex
    gate = threading.Event()
    fx = Fixture(max_queue=n, fast_stop=True, gate=gate)
    classes = ['queue:n=%d' % n]
    accepted = []
    refused = []
    try:
        def send_valid(expect_kind):
            marker = next_marker()
            raw, info = valid_request(marker)
            info['expect'] = 'any'
            data, end = exchange(fx.port, raw)
            resp = check_exchange(ctx, fx, raw, info, data, end, [],
                                  where='queue:')
            if resp is None or resp.status != 200:
                ctx.fail('queue:valid-indication-not-answered-200',
                         'status %r' % (resp and resp.status,))
                return
            kind, code, _ = export_response(resp.body)
            if expect_kind == 'success':
                if kind != 'success':
                    ctx.fail('queue:indication-refused-although-queue-not-'
                             'full', 'kind %s code %s, accepted so far %d, '
                             'max size %d' % (kind, code, len(accepted), n))
                    refused.append(marker)
                else:
                    accepted.append(marker)
            else:
                if kind == 'success':
                    ctx.fail('queue:indication-accepted-although-queue-full',
                             'accepted so far %d, max size %d' %
                             (len(accepted), n))
                    accepted.append(marker)
                else:
                    refused.append(marker)
                    if code != '1':
                        ctx.fail('queue:queue-full-ERROR-code-%s' % code,
                                 'expected CIM_ERR_FAILED (1)')
        send_valid('success')
        if not fx.entered.wait(DELIVERY_TIMEOUT):
            ctx.fail('queue:callback-not-called', '')
        for _ in range(n):
            send_valid('success')
        for _ in range(m):
            send_valid('failed')
        for what in extra:
            if what == 'valid':
                send_valid('failed')
            else:
                rec = {'inst': None, 'xml': [], 'method': 'POST',
                       'version': 'HTTP/1.1', 'target': '/', 'headers': [],
                       'cl': ('exact',)}
                if what == 'unknown-method':
                    rec['xml'] = [('method-unknown', 'Foo')]
                elif what == 'ill-formed':
                    rec['xml'] = [('damage', (0, 100, 0))]
                else:
                    rec['method'] = 'GET'
                raw, info = build_request(rec, next_marker())
                data, end = exchange(fx.port, raw)
                check_exchange(ctx, fx, raw, info, data, end, [],
                               where='queue:')
        gate.set()
        for mk in accepted:
            if not fx.wait_delivered(mk):
                ctx.fail('queue:accepted-indication-not-delivered',
                         'marker %d' % mk)
        # queue drained: a new indication is accepted again
        fx.gate = None
        marker = next_marker()
        raw, info = valid_request(marker)
        data, end = exchange(fx.port, raw)
        check_exchange(ctx, fx, raw, info, data, end, [], where='queue:')
        if not fx.wait_delivered(marker):
            ctx.fail('queue:indication-after-full-queue-not-delivered', '')
        for mk in accepted:
            if fx.delivered(mk) != 1:
                ctx.fail('queue:indication-delivered-more-than-once',
                         '%d times' % fx.delivered(mk))
        for mk in refused:
            if fx.delivered(mk):
                ctx.fail('queue:refused-indication-was-delivered', '')
        if not fx.threads_alive():
            ctx.fail('queue:listener-thread-died', '')
        time.sleep(0.02)
    finally:
        gate.set()
        if fx.stop() is not None:
            classes.append('queue:stop-raised')
    ctx.case(nontrivial=True, classes=classes)


SUBCHECKS = [
    Sub('requests', strategy=request_strategy, oracle=request_oracle,
        quick=(16, 1000), thorough=(16, 15000), case_timeout=120,
        budget=(70, 1200)),
    Sub('listener_responses', strategy=responses_strategy,
        oracle=responses_oracle, quick=(8, 600), thorough=(16, 8000),
        case_timeout=120, budget=(70, 1200)),
    Sub('sequences', machine=Sequences, quick=(8, 80), thorough=(16, 1500),
        steps=(12, 40), case_timeout=300, budget=(70, 1200)),
    Sub('queue_full', strategy=queue_strategy, oracle=queue_oracle,
        quick=(8, 6), thorough=(16, 60), case_timeout=120,
        budget=(70, 1200)),
]
