"""
C16 - Accepted indications reach each callback exactly once in order;
stop() is clean.  DESIGN.md 4.16.

Schedule exploration: a generated scenario (senders, callbacks, queue size,
start/stop program of the main thread) is run on the real WBEMListener code
under the deterministic cooperative scheduler of pbt/sched.py; the schedule
(a plain list of ints) decides at every queue / event / sleep / thread start /
join / callback entry+exit / server accept+shutdown+close point which thread
continues and which timed wait expires.
"""

import traceback
import socket
import time
import threading

from hypothesis import strategies as st

import pywbem
from pywbem import CIMInstance
import pywbem._listener as L

from .runner import Sub, HarnessError, exc_signature, exc_detail
from . import sched as SC

PROPERTY = 'C16'
RULE = (
    "sched: case = (scenario, schedule).  Scenario: max_ind_queue_size in "
    "{0,1,2}; 1-2 callbacks, each ok/raising and with 0-3 extra scheduling "
    "points inside; 1-3 senders x 1-3 indications, each sender belongs to a "
    "wave; main-thread program from 10 templates (stop after the senders "
    "finished, stop while they are active, stop+start+second wave+stop, "
    "restart while the first wave is still sending, senders before start, "
    "stop twice, stop before start).  Schedule: list of ints consumed at "
    "every decision point with >1 option (continue the running thread | any "
    "other runnable thread | fire the timeout of a thread in a timed wait); "
    "drawn uniform, sparse (few preemptions) or bursty; an exhausted schedule "
    "is completed fairly.  The real WBEMListener.start/stop/_callback_run/"
    "_handle_indication/_deliver_indication_to_callbacks run in real threads; "
    "queue/Event/sleep/Thread start+join/server are shims with a scheduling "
    "point before and after every operation.  sched_small: every schedule "
    "with <= 2 (thorough: 3) non-default choices of the smallest scenarios "
    "(1 sender x 1 indication x 1 callback), enumerated.  realsock: the same "
    "invariants on the unmodified listener over loopback sockets with OS "
    "scheduling (validates the shim semantics).  Non-trivial = at least 2 "
    "indications and at least one preemption of the callback thread between "
    "get() and task_done() or of the main thread inside stop().  Distinct = "
    "distinct (scenario, effective schedule).")
ASSUMPTIONS = [
    "callbacks raise only Exception subclasses (not SystemExit/"
    "KeyboardInterrupt) and are plain functions (have __name__)",
    "start()/stop() are called from one thread only, start() never on a "
    "started listener (documented precondition)",
    "a sender sends its indications one after the other, each after the "
    "response to the previous one (so acknowledgement order = send order)",
    "interleavings are explored at the granularity of queue, Event, sleep, "
    "thread start/join, callback entry/exit and server accept/shutdown/"
    "close operations, each operation itself atomic (CPython queue.Queue "
    "holds its mutex); HTTP parsing and response writing are not part of the "
    "model (senders call _handle_indication the way do_POST does)",
    "the stub server follows socketserver semantics: serve_forever polls and "
    "accepts one connection per iteration, shutdown() waits for the loop, "
    "server_close() frees the port, drops unaccepted connections and joins "
    "the handler threads",
    "only HTTP (no HTTPS) listeners",
    "from the max_ind_queue_size docstring: an indication arriving at a full "
    "queue is refused, the handler never waits for space",
]

PORT = 5988

PROGRAMS = {
    # 'nap' = the main thread sleeps: under the default (fair) completion the
    # senders finish first, a drawn choice ends the nap at any earlier point
    'after':        ('start', 'go0', 'wait0', 'stop'),
    'active':       ('start', 'go0', 'nap', 'stop'),
    'active-now':   ('start', 'go0', 'stop'),
    'restart-wave': ('start', 'go0', 'nap', 'stop', 'start', 'go1', 'wait1',
                     'stop'),
    'after-restart-active': ('start', 'go0', 'wait0', 'stop', 'start', 'go1',
                             'nap', 'stop'),
    'restart-active': ('start', 'go0', 'nap', 'stop', 'start', 'nap', 'stop'),
    'restart-active-wait': ('start', 'go0', 'stop', 'start', 'wait0', 'stop'),
    'early-senders': ('go0', 'nap', 'start', 'nap', 'stop'),
    'stop-twice':   ('start', 'go0', 'nap', 'stop', 'stop'),
    'stop-first':   ('stop', 'start', 'go0', 'wait0', 'stop'),
}

KNOWN_RACE = 'stop:raises-AttributeError:ind_queue-set-to-None-while-' \
    'callback-thread-still-uses-it'


# ---------------------------------------------------------------------------
# generation

@st.composite
def g_scenario(draw):
    maxq = draw(st.sampled_from([0, 1, 1, 2]))
    pname = draw(st.sampled_from(sorted(PROGRAMS)))
    waves = [0, 1] if 'go1' in PROGRAMS[pname] else [0]
    ncb = draw(st.integers(1, 2))
    cbs = tuple((draw(st.sampled_from(['ok', 'ok', 'raise'])),
                 draw(st.sampled_from([0, 0, 1, 3]))) for _ in range(ncb))
    ns = draw(st.integers(1, 3))
    senders = [(draw(st.sampled_from(waves)), draw(st.integers(1, 3)))
               for _ in range(ns)]
    if len(waves) == 2 and all(w == 0 for w, _ in senders):
        senders[-1] = (1, senders[-1][1])
    return (maxq, cbs, tuple(senders), pname)


@st.composite
def g_schedule(draw):
    # a run has 30..200 decision points (median 60) with 2..6 options
    kind = draw(st.sampled_from(['uniform', 'sparse', 'sparse', 'bursty',
                                 'late']))
    if kind == 'sparse':
        n = draw(st.integers(1, 120))
        sched = [0] * n
        for _ in range(draw(st.integers(1, 6))):
            sched[draw(st.integers(0, n - 1))] = draw(st.integers(1, 4))
        return sched
    n = draw(st.integers(0, 160))
    if kind == 'uniform':
        return draw(st.lists(st.integers(0, 5), min_size=n, max_size=n))
    if kind == 'bursty':
        return draw(st.lists(st.sampled_from([0, 0, 0, 0, 1, 2, 3]),
                             min_size=n, max_size=n))
    # late: run the default schedule for a while, then random
    return [0] * draw(st.integers(0, 100)) + \
        draw(st.lists(st.integers(0, 5), min_size=n // 4, max_size=n // 4))


def strategy():
    return st.tuples(g_scenario(), g_schedule())


# ---------------------------------------------------------------------------
# one run under the scheduler

class Run:
    "Everything observed in one run"

    def __init__(self):
        self.log = []         # ('enter'|'exit', cb index, key, thread name)
        self.acks = {}        # key -> 'success'|'refused'|'noconn'|('error',e)
        self.sent = []        # keys in the order the requests were begun
        self.calls = []       # (op, None | exception, post-state dict)
        self.outcome = None
        self.sched = None
        self.shims = None
        self.left = []
        self.listener = None
        self.stuck = ''


def run_case(scenario, schedule, max_steps=4000):
    maxq, cbs, senders, pname = scenario
    program = PROGRAMS[pname]
    s = SC.Scheduler(schedule, max_steps=max_steps)
    shims = SC.Shims(s, L)
    run = Run()
    run.sched = s
    run.shims = shims
    net = shims.net

    listener = pywbem.WBEMListener('127.0.0.1', http_port=PORT,
                                   max_ind_queue_size=maxq)
    listener.logger.propagate = False
    listener.logger.disabled = True
    run.listener = listener

    def make_cb(idx, kind, slow):
        def cb(indication, host):
            me = s.me()
            key = indication['Key']
            run.log.append(('enter', idx, key, me.name if me else '?'))
            s.yield_point('cb.enter')
            for _ in range(slow):
                s.yield_point('cb.work')
            run.log.append(('exit', idx, key, me.name if me else '?'))
            s.yield_point('cb.exit')
            if kind == 'raise':
                raise ValueError('callback %d fails on purpose' % idx)
        cb.__name__ = 'cb%d' % idx
        return cb

    for i, (kind, slow) in enumerate(cbs):
        listener.add_callback(make_cb(i, kind, slow))

    nwaves = 2
    released = [False] * nwaves
    sender_states = []

    def sender_fn(i, wave, n):
        def handle_factory(ind, msgid):
            def handle(srv):
                try:
                    # what ListenerRequestHandler.do_POST does after parsing
                    srv.listener._handle_indication(  # noqa
                        ind, '10.0.0.%d' % i, msgid)
                except L.queue.Full:
                    return 'refused'
                except Exception as exc:  # transported to the oracle
                    return ('error', exc)
                return 'success'
            return handle

        def fn():
            s.block(lambda: released[wave], None, 'sender.wait-go')
            for j in range(n):
                key = 's%d.%d' % (i, j)
                ind = CIMInstance('CIM_AlertIndication',
                                  properties={'Key': key})
                run.sent.append(key)
                kind, res = SC.client_request(
                    s, net, PORT, handle_factory(ind, '%d' % (1000 + j)))
                run.acks[key] = res if kind == 'handled' else 'noconn'
        return fn

    def post_state():
        return dict(
            alive=[t.name for t in shims.listener_threads if not t.done],
            bound=sorted(net.bound),
            queue_exists=listener.ind_queue_exists(),
            http_started=listener.http_started)

    def main_fn():
        me = s.me()
        try:
            for op in program:
                if op == 'start':
                    try:
                        listener.start()
                    except Exception as exc:  # transported to the oracle
                        run.calls.append((op, exc, post_state()))
                        break
                    run.calls.append((op, None, post_state()))
                elif op == 'stop':
                    me.flags.add('in-stop')
                    try:
                        listener.stop()
                    except Exception as exc:  # transported to the oracle
                        me.flags.discard('in-stop')
                        run.calls.append((op, exc, post_state()))
                        break
                    me.flags.discard('in-stop')
                    run.calls.append((op, None, post_state()))
                elif op == 'nap':
                    s.yield_point('main.nap')
                    s.block(lambda: False, 1.0, 'main.nap:wait')
                elif op.startswith('go'):
                    released[int(op[2:])] = True
                    s.yield_point('main.go')
                elif op.startswith('wait'):
                    w = int(op[4:])
                    s.block(lambda: all(t.done for t, sw in sender_states
                                        if sw == w), None, 'main.wait')
        finally:
            for w in range(nwaves):
                released[w] = True

    shims.install()
    try:
        main = s.spawn(main_fn, 'main', 'main')
        for i, (wave, n) in enumerate(senders):
            sender_states.append(
                (s.spawn(sender_fn(i, wave, n), 'sender%d' % i, 'sender'),
                 wave))
        essential = [main] + [t for t, _ in sender_states]
        run.outcome = s.run(lambda: all(t.done for t in essential))
        if run.outcome != 'done':
            run.stuck = ', '.join(
                '%s@%s%s' % (t.name, t.label,
                             '' if t.pred is None else '(blocked)')
                for t in s.threads if not t.done)
            run.cb_thread_alive = any(
                not t.done for t in shims.listener_threads
                if t.name == 'CallbackThread')
            run.main_label = main.label
            run.main_flags = set(main.flags)
    finally:
        try:
            run.left = s.shutdown()
        finally:
            shims.uninstall()
    if run.left:
        raise HarnessError('controlled threads did not end: %r' % run.left)
    return run


# ---------------------------------------------------------------------------
# oracle

def _in_callback_run(exc):
    for fr in traceback.extract_tb(exc.__traceback__):
        if fr.name == '_callback_run':
            return True
    return False


def is_known_race(exc):
    """
    The callback thread died with AttributeError on the None that
    _stop_indication_delivery stored into _ind_queue, and join() re-raised
    it in stop().
    """
    return isinstance(exc, AttributeError) and \
        "'NoneType' object has no attribute" in str(exc) and \
        _in_callback_run(exc)


def judge(ctx, scenario, run, classes):
    maxq, cbs, senders, pname = scenario
    ncb = len(cbs)
    s = run.sched

    # ---- start()/stop() results ----
    tainted = False     # a start/stop failure was reported: later state
    #                     checks would only repeat it
    for n, (op, exc, post) in enumerate(run.calls):
        if exc is not None:
            tainted = True
            if op == 'stop' and is_known_race(exc):
                classes.append('stop-raised:queue-None-race')
                ctx.fail(KNOWN_RACE, 'stop() raised %r\n%s\nschedule=%r' % (
                    exc, exc_detail(exc, 8), s.effective_schedule()))
            elif exc_signature(exc) is None:
                raise HarnessError('%s() raised without pywbem frame: %r' %
                                   (op, exc)) from exc
            else:
                ctx.fail('%s-raises:%s' % (op, exc_signature(exc)),
                         exc_detail(exc, 8))
            break
        if op == 'stop':
            if post['alive']:
                ctx.fail('stop:leaves-thread-behind:' +
                         '+'.join(sorted(set(post['alive']))),
                         'after stop() returned: %r' % (post,))
                tainted = True
            if post['bound']:
                ctx.fail('stop:leaves-port-bound', 'after stop() returned: '
                         '%r' % (post,))
                tainted = True
            if post['http_started'] or post['queue_exists']:
                # public state attributes documented as started/exists
                ctx.fail('stop:still-reported-started',
                         'after stop() returned: %r' % (post,))
        if op == 'start' and not tainted:
            if not post['bound'] or 'CallbackThread' not in post['alive'] \
                    or not post['http_started']:
                ctx.fail('start:returns-without-running-listener',
                         'after start() returned: %r' % (post,))

    # ---- liveness ----
    if run.outcome == 'deadlock':
        ctx.fail('deadlock:' + run.main_label, 'no thread can run: %s\n'
                 'schedule=%r' % (run.stuck, s.effective_schedule()))
        tainted = True
    elif run.outcome == 'steps':
        # the schedule proper is far shorter than the step bound; the rest
        # was the fair completion (timeouts fire only when nothing can run)
        if 'in-stop' in run.main_flags and not run.cb_thread_alive:
            ctx.fail('stop:never-returns:callback-thread-is-dead',
                     'stop() keeps polling: %s' % run.stuck)
        elif 'in-stop' in run.main_flags:
            ctx.fail('stop:never-returns:' + run.main_label,
                     'no progress under fair scheduling: %s' % run.stuck)
        else:
            ctx.fail('livelock:' + run.main_label,
                     'no progress under fair scheduling: %s' % run.stuck)
        tainted = True

    # ---- handler results ----
    for key in run.sent:
        res = run.acks.get(key)
        if isinstance(res, tuple):
            ctx.fail_exc(res[1], 'handler-leak')
    if s.qstats['put_blocked']:
        ctx.fail('queue-full:handler-waits-instead-of-refusing',
                 'a handler thread blocked in put() on a full queue '
                 '(max_ind_queue_size=%d)' % maxq)
    if maxq and s.qstats['max_len'] > maxq:
        ctx.fail('queue-full:queue-grew-beyond-max_ind_queue_size',
                 'max length %d > %d' % (s.qstats['max_len'], maxq))

    # ---- delivery log ----
    entered = {}     # cb idx -> list of keys
    per_key = {}     # key -> list of cb idx in order of entry
    open_cb = None
    threads = set()
    serial_ok = True
    for ev, idx, key, tname in run.log:
        threads.add(tname)
        if ev == 'enter':
            if open_cb is not None:
                serial_ok = False
            open_cb = (idx, key)
            entered.setdefault(idx, []).append(key)
            per_key.setdefault(key, []).append(idx)
        else:
            if open_cb != (idx, key):
                serial_ok = False
            open_cb = None
    if not serial_ok and run.outcome == 'done':
        ctx.fail('delivery:callbacks-overlap', 'log=%r' % (run.log,))
    if len(threads) > 1 or (threads and threads != {'CallbackThread'}):
        ctx.fail('delivery:not-on-the-callback-thread', 'threads=%r' %
                 (sorted(threads),))

    for key in run.sent:
        res = run.acks.get(key)
        got = per_key.get(key, [])
        if res == 'success':
            if run.outcome != 'done':
                continue    # reported above; the run was cut short
            missing = [i for i in range(ncb) if got.count(i) == 0]
            twice = [i for i in range(ncb) if got.count(i) > 1]
            if twice:
                ctx.fail('delivery:acknowledged-delivered-more-than-once',
                         '%s delivered %r; log=%r' % (key, got, run.log))
            if missing and not got:
                ctx.fail('delivery:acknowledged-never-delivered',
                         '%s acknowledged with success, callbacks got %r; '
                         'calls=%r' % (key, got,
                                       [(o, e) for o, e, _ in run.calls]))
            elif missing:
                ctx.fail('delivery:callback-skipped', '%s reached callbacks '
                         '%r of %d' % (key, got, ncb))
            elif got != sorted(got):
                ctx.fail('delivery:callbacks-not-in-registration-order',
                         '%s: %r' % (key, got))
        elif res == 'refused':
            if got:
                ctx.fail('delivery:refused-but-delivered', '%s: %r' %
                         (key, got))
        elif res == 'noconn':
            if got:
                ctx.fail('delivery:never-accepted-but-delivered', '%s: %r' %
                         (key, got))
    # per sender: delivery order = acknowledgement (= send) order
    for idx in range(ncb):
        for i in range(len(senders)):
            mine = [k for k in entered.get(idx, [])
                    if k.startswith('s%d.' % i)]
            nums = [int(k.split('.')[1]) for k in mine]
            if nums != sorted(nums):
                ctx.fail('delivery:sender-order-changed',
                         'callback %d got %r' % (idx, mine))
    return tainted


def classify(scenario, run):
    maxq, cbs, senders, pname = scenario
    s = run.sched
    classes = ['maxq=%d' % maxq, 'callbacks=%d' % len(cbs),
               'senders=%d' % len(senders), 'program=' + pname,
               'outcome=' + str(run.outcome)]
    nind = sum(n for _, n in senders)
    classes.append('indications=%s' % (nind if nind < 5 else '5+'))
    if any(k == 'raise' for k, _ in cbs):
        classes.append('callback-raises')
    if any(sl for _, sl in cbs):
        classes.append('callback-slow')
    vals = list(run.acks.values())
    for r in ('success', 'refused', 'noconn'):
        if r in vals:
            classes.append('some-' + r)
    if vals and all(v == 'success' for v in vals):
        classes.append('all-success')
    pre_cb = [p for p in s.preemptions
              if p[0] == 'CallbackThread' and 'holding-item' in p[2]]
    pre_stop = [p for p in s.preemptions
                if p[0] == 'main' and 'in-stop' in p[2]]
    if pre_cb:
        classes.append('preempt:callback-thread-between-get-and-task_done')
    if pre_stop:
        classes.append('preempt:main-inside-stop')
    if any(p[1] == 'q.empty:ret' and 'in-stop' in p[2]
           for p in s.preemptions):
        classes.append('preempt:stop-after-queue-seen-empty')
    if any(p[1] == 'ev.set' and 'in-stop' in p[2] for p in s.preemptions):
        classes.append('preempt:stop-before-stop_event-set')
    if s.early_timeouts:
        classes.append('timeout-fired-early')
    if s.qstats['queues'] > 1:
        classes.append('restarted')
    npre = len(s.preemptions)
    classes.append('preemptions=%s' % (npre if npre < 3 else
                                       '3-9' if npre < 10 else '10+'))
    nontrivial = nind >= 2 and bool(pre_cb or pre_stop)
    return classes, nontrivial


def oracle(ctx, example):
    scenario, schedule = example
    run = run_case(scenario, schedule)
    classes, nontrivial = classify(scenario, run)
    judge(ctx, scenario, run, classes)
    ctx.case(key=(scenario, tuple(run.sched.effective_schedule())),
             nontrivial=nontrivial, classes=classes)


# ---------------------------------------------------------------------------
# exhaustive enumeration for the smallest scenarios

SMALL = [
    (0, (('ok', 0),), ((0, 1),), 'active'),
    (1, (('ok', 1),), ((0, 1),), 'after'),
]


def enumerate_small(ctx, shard, nshards):
    bound = 2 if ctx.tier == 'quick' else 3
    for scenario in SMALL:
        # level 0
        root = run_case(scenario, [])
        nopt0 = list(root.sched.noptions)
        if shard == 0:
            _small_case(ctx, scenario, [], root)
        level1 = [(i, c) for i, n in enumerate(nopt0) for c in range(1, n)]
        for n, (i, c) in enumerate(level1):
            if n % nshards != shard:
                continue
            _small_dfs(ctx, scenario, [0] * i + [c], 1, bound)


def _small_case(ctx, scenario, schedule, run):
    ctx.current = (scenario, list(schedule))
    classes, nontrivial = classify(scenario, run)
    judge(ctx, scenario, run, classes)
    ctx.case(key=(scenario, tuple(schedule)), nontrivial=nontrivial or
             bool(run.sched.preemptions), classes=classes)


def _small_dfs(ctx, scenario, schedule, depth, bound):
    run = run_case(scenario, schedule)
    _small_case(ctx, scenario, schedule, run)
    if depth >= bound:
        return
    nopt = list(run.sched.noptions)
    base = len(schedule)
    for i in range(base, len(nopt)):
        for c in range(1, nopt[i]):
            _small_dfs(ctx, scenario, schedule + [0] * (i - base) + [c],
                       depth + 1, bound)


def replay_small(ctx, example):
    scenario, schedule = example
    run = run_case(tuple(scenario), list(schedule))
    _small_case(ctx, tuple(scenario), list(schedule), run)


SUBCHECKS = [
    Sub('sched', strategy=strategy, oracle=oracle, quick=(16, 300),
        thorough=(16, 10000), case_timeout=60, budget=(80, 1500)),
]
_small = Sub('sched_small', enumerate=enumerate_small, quick=(16, 0),
             thorough=(16, 0), budget=(80, 1500))
_small.replay = replay_small
SUBCHECKS.append(_small)

SENSITIVITY = []
