"""
C16 - Accepted indications reach each callback exactly once in order;
stop() is clean.  DESIGN.md 4.16.

Schedule exploration: a generated scenario (senders, callbacks, queue size,
start/stop program of the main thread) is run on the real WBEMListener code
under the deterministic cooperative scheduler of pbt/sched.py; the schedule
(a plain list of ints) decides at every queue / event / sleep / thread start /
join / callback entry+exit / server accept+shutdown+close / response-complete
point which thread continues and which timed wait expires.

A sender is a thread that connects to the stub server, is accepted, and waits
for the complete HTTP response; the stub server starts a handler thread per
accepted connection (socketserver.ThreadingMixIn) that runs the real
ListenerRequestHandler (request parsing, do_POST, response) on a stub socket.
The queue put and the write that completes the response are separate
scheduling points of that code, so the sender can go on with its next
indication while the handler thread of the previous one is anywhere behind
its response.
"""

import traceback
import socket
import time
import threading

from hypothesis import strategies as st

import pywbem
from pywbem import CIMInstance
import pywbem._listener as L

from .runner import Sub, HarnessError, exc_signature, exc_detail
from . import sched as SC

PROPERTY = 'C16'
RULE = (
    "sched: case = (scenario, schedule).  Scenario: max_ind_queue_size in "
    "{0,1,2} (0 = unbounded, 40 %); 1-2 callbacks, each ok/raising and with "
    "0-3 extra scheduling points inside or of long duration (a virtual 1 s = "
    "ten polls of stop(); by default everything else runs first, so the "
    "queue fills up); 1-3 senders x 1-3 indications, a sender sends the next "
    "indication when it has the complete response to the previous one; each "
    "sender belongs to a wave and has hold flags for the handler threads of "
    "its requests: slow = the handler thread waits a virtual 10 s for the "
    "rest of each request, so that by default stop() finds the request in "
    "flight; lag = the handler thread is held up right after the write that "
    "completed the response (10 s / 5 s / 3.3 s for the 1st/2nd/3rd request, "
    "so that by default the handler threads of one sender go on in reverse "
    "order while the sender already sent the next indication); main-thread "
    "program from 10 templates (stop "
    "after the senders "
    "finished, stop at any point while they are active, stop+start+second "
    "wave+stop, restart while the first wave is still sending, senders "
    "before start, stop twice, stop before start).  Schedule: list of ints "
    "consumed at every decision point with >1 option (continue the running "
    "thread | any other runnable thread | fire the timeout of a thread in a "
    "timed wait: queue.get(timeout), sleep, server poll, main's nap); drawn "
    "uniform, sparse (1-6 non-default choices), bursty or late-random; an "
    "exhausted schedule is completed fairly (non-preemptive, timeouts fire "
    "only when nothing can run).  The real WBEMListener.start/stop/"
    "_callback_run/_handle_indication/_deliver_indication_to_callbacks, the "
    "real ListenerRequestHandler (one handler thread per request, on a stub "
    "socket) and the pywbem thread classes run in real threads; queue/Event/"
    "sleep/Thread start+join/make_server/the write completing a response are "
    "shims with a scheduling point before and after every operation (30-200 "
    "decision points per run).  "
    "sched_small: every schedule with <= 2 (thorough: 3) non-default "
    "choices of four smallest scenarios (1 sender x 1 indication x 1 "
    "callback: stop while active / after, restart, slow sender), and every "
    "schedule with <= 1 (thorough: 2) of two scenarios with 1 sender x 2 "
    "indications on an unbounded queue (handler threads lagging / not), "
    "enumerated.  realsock: "
    "the same invariants on the unmodified listener over loopback sockets "
    "with OS scheduling (validates the shim semantics: FIFO, Full, join, "
    "restart, handler thread per request); in half of the cases the handler "
    "threads of every other indication sleep 30 ms before and after the "
    "hand-over to the listener.  Non-trivial = at least 2 indications and at "
    "least one preemption of the callback thread between get() and task_done() or of "
    "the main thread inside stop() (sched_small: any preemption; realsock: "
    ">= 2 indications).  Distinct = distinct (scenario, effective "
    "schedule).")
ASSUMPTIONS = [
    "callbacks raise only Exception subclasses (not SystemExit/"
    "KeyboardInterrupt) and are plain functions (have __name__)",
    "start()/stop() are called from one thread only, start() never on a "
    "started listener (documented precondition)",
    "a sender sends its indications one after the other, each after the "
    "response to the previous one (so acknowledgement order = send order)",
    "interleavings are explored at the granularity of queue, Event, sleep, "
    "thread start/join, callback entry/exit, server accept/shutdown/close "
    "operations and the write that completes a response, each operation "
    "itself atomic (CPython queue.Queue holds its mutex).  The handler "
    "threads run the real request handler class on a stub socket: the "
    "request is completely there when the handler starts (apart from the "
    "'slow' hold before it), partial response writes are not scheduling "
    "points (no other thread can observe them), one request per connection "
    "(a sender that re-uses a kept-alive connection is served by one handler "
    "thread and cannot be overtaken), senders have no response timeout",
    "a sender has its acknowledgement when the last byte of the response "
    "(header block + Content-Length bytes) has been written, not when the "
    "handler thread ends: http.client / requests return from reading the "
    "response at that point",
    "the stub server follows socketserver semantics: serve_forever polls and "
    "accepts one connection per iteration, shutdown() waits for the loop, "
    "server_close() frees the port, drops unaccepted connections and joins "
    "the handler threads it tracks; as in socketserver.ThreadingMixIn a "
    "handler is tracked only if block_on_close is true and daemon_threads "
    "false, and a rebind after traffic needs allow_reuse_address - the three "
    "attributes are read from pywbem._listener.ThreadedHTTPServer at case "
    "setup.  request_queue_size is not modelled (at most 3 connections are "
    "pending, below any realistic backlog)",
    "only HTTP (no HTTPS) listeners",
    "from the max_ind_queue_size docstring: an indication arriving at a full "
    "queue is refused, the handler never waits for space",
]

PORT = 5988

PROGRAMS = {
    # 'nap' = the main thread sleeps: under the default (fair) completion the
    # senders finish first, a drawn choice ends the nap at any earlier point
    'after':        ('start', 'go0', 'wait0', 'stop'),
    'active':       ('start', 'go0', 'nap', 'stop'),
    'active-now':   ('start', 'go0', 'stop'),
    'restart-wave': ('start', 'go0', 'nap', 'stop', 'start', 'go1', 'wait1',
                     'stop'),
    'after-restart-active': ('start', 'go0', 'wait0', 'stop', 'start', 'go1',
                             'nap', 'stop'),
    'restart-active': ('start', 'go0', 'nap', 'stop', 'start', 'nap', 'stop'),
    'restart-active-wait': ('start', 'go0', 'stop', 'start', 'wait0', 'stop'),
    'early-senders': ('go0', 'nap', 'start', 'nap', 'stop'),
    'stop-twice':   ('start', 'go0', 'nap', 'stop', 'stop'),
    'stop-first':   ('stop', 'start', 'go0', 'wait0', 'stop'),
}

KNOWN_RACE = 'stop:raises-AttributeError:ind_queue-set-to-None-while-' \
    'callback-thread-still-uses-it'


# ---------------------------------------------------------------------------
# generation

def _ints(lo, hi):
    """
    Integers lo..hi.  Not st.integers(): that strategy mixes in constants
    collected from the local source files, so draws would change whenever
    pywbem or a harness file is edited.
    """
    return st.sampled_from(range(lo, hi + 1))


LONG = 10       # callback duration: a timed wait instead of extra points


@st.composite
def g_scenario(draw):
    maxq = draw(st.sampled_from([0, 0, 1, 1, 2]))
    pname = draw(st.sampled_from(sorted(PROGRAMS)))
    waves = [0, 1] if 'go1' in PROGRAMS[pname] else [0]
    ncb = draw(_ints(1, 2))
    cbs = tuple((draw(st.sampled_from(['ok', 'ok', 'raise'])),
                 draw(st.sampled_from([0, 0, 1, 3, LONG])))
                for _ in range(ncb))
    ns = draw(_ints(1, 3))
    # third field = where the handler threads of this sender's requests are
    # held up for a virtual 10 s (bit 1, "slow": before the request is
    # complete - the sender transmits slowly; bit 2, "lag": right after the
    # write that completed the response - the thread is descheduled while
    # the sender already has its answer)
    senders = [(draw(st.sampled_from(waves)), draw(_ints(1, 3)),
                draw(st.sampled_from([0, 0, 0, 1, 2, 2, 3])))
               for _ in range(ns)]
    if len(waves) == 2 and all(sd[0] == 0 for sd in senders):
        senders[-1] = (1,) + senders[-1][1:]
    return (maxq, cbs, tuple(senders), pname)


def _sender(sd):
    "(wave, n, hold) of a sender recipe; older recipes have no hold flags"
    return (sd[0], sd[1], sd[2] if len(sd) > 2 else 0)


HOLD_RECV = 1       # handler waits for the rest of the request
HOLD_SENT = 2       # handler is descheduled right after the response

REQUEST = (
    'POST / HTTP/1.1\r\n'
    'Host: 127.0.0.1:%d\r\n'
    'Content-Type: application/xml; charset=utf-8\r\n'
    'Content-Length: %d\r\n'
    'CIMExport: MethodRequest\r\n'
    'CIMExportMethod: ExportIndication\r\n'
    'Connection: close\r\n'
    '\r\n')

BODY = (
    '<?xml version="1.0" encoding="utf-8" ?>\n'
    '<CIM CIMVERSION="2.0" DTDVERSION="2.4">'
    '<MESSAGE ID="%s" PROTOCOLVERSION="1.4">'
    '<SIMPLEEXPREQ><EXPMETHODCALL NAME="ExportIndication">'
    '<EXPPARAMVALUE NAME="NewIndication">%s</EXPPARAMVALUE>'
    '</EXPMETHODCALL></SIMPLEEXPREQ></MESSAGE></CIM>')


def export_request(ind, msgid):
    "The bytes of the HTTP export request for one indication"
    body = (BODY % (msgid, ind.tocimxml().toxml())).encode('utf-8')
    return (REQUEST % (PORT, len(body))).encode('ascii') + body


def read_response(req):
    """
    What the sender makes of the answer to its request: 'success' |
    'refused' | ('error', exception that ended the handler before a complete
    response) | ('badresp', text).
    """
    if not req.responded:
        if req.error is not None:
            return ('error', req.error)
        return ('badresp', 'connection closed after %r' %
                (req.response[:300],))
    head, _, body = req.response.partition(b'\r\n\r\n')
    status = head.split(b'\r\n')[0].split(b' ')
    if len(status) < 2 or status[1] != b'200':
        return ('badresp', 'HTTP response %r' % (head[:300],))
    if b'<ERROR' in body:
        if b'CODE="1"' in body and b'queue is full' in body:
            return 'refused'
        return ('badresp', 'CIM error response %r' % (body[:400],))
    if b'<EXPMETHODRESPONSE' in body:
        return 'success'
    return ('badresp', 'response body %r' % (body[:400],))


@st.composite
def g_schedule(draw):
    # a run has 30..200 decision points (median 60) with 2..6 options
    kind = draw(st.sampled_from(['uniform', 'sparse', 'sparse', 'bursty',
                                 'late']))
    if kind == 'sparse':
        n = draw(_ints(1, 120))
        sched = [0] * n
        for _ in range(draw(_ints(1, 6))):
            sched[draw(_ints(0, n - 1))] = draw(_ints(1, 4))
        return sched
    n = draw(_ints(0, 160))
    if kind == 'uniform':
        return draw(st.lists(_ints(0, 5), min_size=n, max_size=n))
    if kind == 'bursty':
        return draw(st.lists(st.sampled_from([0, 0, 0, 0, 1, 2, 3]),
                             min_size=n, max_size=n))
    # late: run the default schedule for a while, then random
    return [0] * draw(_ints(0, 100)) + \
        draw(st.lists(_ints(0, 5), min_size=n // 4, max_size=n // 4))


def strategy():
    return st.tuples(g_scenario(), g_schedule())


# ---------------------------------------------------------------------------
# one run under the scheduler

class Run:
    "Everything observed in one run"

    def __init__(self):
        self.log = []         # ('enter'|'exit', cb index, key, thread name)
        self.acks = {}        # key -> 'success'|'refused'|'noconn'|('error',e)
        self.sent = []        # keys in the order the requests were begun
        self.calls = []       # (op, None | exception, post-state dict)
        self.outcome = None
        self.sched = None
        self.shims = None
        self.left = []
        self.listener = None
        self.stuck = ''
        self.reqs = []        # (key, sched.Request) of accepted requests
        self.overlap = 0      # requests begun while the handler thread of
        #                       the same sender's previous request still ran


def run_case(scenario, schedule, max_steps=4000):
    maxq, cbs, senders, pname = scenario
    program = PROGRAMS[pname]
    s = SC.Scheduler(schedule, max_steps=max_steps)
    shims = SC.Shims(s, L)
    run = Run()
    run.sched = s
    run.shims = shims
    net = shims.net

    listener = pywbem.WBEMListener('127.0.0.1', http_port=PORT,
                                   max_ind_queue_size=maxq)
    listener.logger.propagate = False
    listener.logger.disabled = True
    run.listener = listener

    def make_cb(idx, kind, slow):
        def cb(indication, host):
            me = s.me()
            key = indication['Key']
            run.log.append(('enter', idx, key, me.name if me else '?'))
            s.yield_point('cb.enter')
            if slow == LONG:
                # a callback that takes long (virtual 1 s: ten polls of
                # stop()): under the fair completion everything else that
                # can run does so first
                s.block(lambda: False, 1.0, 'cb.work:long')
            else:
                for _ in range(slow):
                    s.yield_point('cb.work')
            run.log.append(('exit', idx, key, me.name if me else '?'))
            s.yield_point('cb.exit')
            if kind == 'raise':
                raise ValueError('callback %d fails on purpose' % idx)
        cb.__name__ = 'cb%d' % idx
        return cb

    for i, (kind, slow) in enumerate(cbs):
        listener.add_callback(make_cb(i, kind, slow))

    nwaves = 2
    released = [False] * nwaves
    sender_states = []

    def sender_fn(i, wave, n, hold):
        peer = ('10.0.0.%d' % i, 50000 + i)

        def handle(srv, req):
            # runs in the handler thread the server started for the request
            if hold & HOLD_RECV:
                # the handler thread waits for the rest of the request
                s.block(lambda: False, 10.0, 'handler.recv')
            # the real ListenerRequestHandler: parse, do_POST, response
            SC.run_handler(srv, req)

        def prepare(req, j):
            # the thread that handles an earlier request is held up longer
            # (10 s, 5 s, 3.3 s): under the fair completion the handler
            # threads of one sender's requests go on in reverse order
            if hold & HOLD_SENT:
                req.on_responded = lambda: s.block(
                    lambda: False, 10.0 / (j + 1), 'handler.sent')

        def fn():
            s.block(lambda: released[wave], None, 'sender.wait-go')
            prev = None
            for j in range(n):
                key = 's%d.%d' % (i, j)
                ind = CIMInstance('CIM_AlertIndication',
                                  properties={'Key': key})
                data = export_request(ind, '%d' % (1000 + j))
                run.sent.append(key)
                if prev is not None and prev.state != 'done':
                    run.overlap += 1
                kind, req = SC.client_request(
                    s, net, PORT, handle, data, peer,
                    lambda req, j=j: prepare(req, j))
                if kind == 'handled':
                    run.reqs.append((key, req))
                    run.acks[key] = read_response(req)
                    prev = req
                else:
                    run.acks[key] = 'noconn'
        return fn

    def post_state():
        return dict(
            alive=[t.name for t in shims.listener_threads if not t.done] +
            ['RequestHandler'] * net.handlers_running(),
            bound=sorted(net.bound),
            queue_exists=listener.ind_queue_exists(),
            http_started=listener.http_started)

    def main_fn():
        me = s.me()
        try:
            for op in program:
                if op == 'start':
                    try:
                        listener.start()
                    except Exception as exc:  # transported to the oracle
                        run.calls.append((op, exc, post_state()))
                        break
                    run.calls.append((op, None, post_state()))
                elif op == 'stop':
                    me.flags.add('in-stop')
                    try:
                        listener.stop()
                    except Exception as exc:  # transported to the oracle
                        me.flags.discard('in-stop')
                        run.calls.append((op, exc, post_state()))
                        break
                    me.flags.discard('in-stop')
                    run.calls.append((op, None, post_state()))
                elif op == 'nap':
                    s.yield_point('main.nap')
                    s.block(lambda: False, 1.0, 'main.nap:wait')
                elif op.startswith('go'):
                    released[int(op[2:])] = True
                    s.yield_point('main.go')
                elif op.startswith('wait'):
                    w = int(op[4:])
                    s.block(lambda: all(t.done for t, sw in sender_states
                                        if sw == w), None, 'main.wait')
        finally:
            for w in range(nwaves):
                released[w] = True

    shims.install()
    try:
        main = s.spawn(main_fn, 'main', 'main')
        for i, sd in enumerate(senders):
            wave, n, slow = _sender(sd)
            sender_states.append(
                (s.spawn(sender_fn(i, wave, n, slow), 'sender%d' % i,
                         'sender'), wave))
        essential = [main] + [t for t, _ in sender_states]
        run.outcome = s.run(lambda: all(t.done for t in essential))
        # a callback thread that survives the program (only after a failure
        # of start()/stop(), reported by itself) may have deliveries pending
        run.cut_short = run.outcome != 'done' or any(
            not t.done for t in shims.listener_threads
            if t.name == 'CallbackThread')
        if run.outcome != 'done':
            run.stuck = ', '.join(
                '%s@%s%s' % (t.name, t.label,
                             '' if t.pred is None else '(blocked)')
                for t in s.threads if not t.done)
            run.cb_thread_alive = any(
                not t.done for t in shims.listener_threads
                if t.name == 'CallbackThread')
            run.main_label = main.label
            run.stuck_sig = '+'.join(sorted(set(
                '%s@%s' % (t.name.rstrip('0123456789'), t.label)
                for t in s.threads if not t.done)))
            run.main_flags = set(main.flags)
    finally:
        try:
            run.left = s.shutdown()
        finally:
            shims.uninstall()
    if run.left:
        raise HarnessError('controlled threads did not end: %r' % run.left)
    return run


# ---------------------------------------------------------------------------
# oracle

def _in_callback_run(exc):
    for fr in traceback.extract_tb(exc.__traceback__):
        if fr.name == '_callback_run':
            return True
    return False


def is_known_race(exc):
    """
    The callback thread died with AttributeError on the None that
    _stop_indication_delivery stored into _ind_queue, and join() re-raised
    it in stop().
    """
    return isinstance(exc, AttributeError) and \
        "'NoneType' object has no attribute" in str(exc) and \
        _in_callback_run(exc)


def judge_delivery(ctx, ncb, nsenders, sent, acks, log, cut_short,
                   cb_thread='CallbackThread'):
    "The delivery invariants over (requests sent, responses, callback log)"
    # ---- delivery log ----
    entered = {}     # cb idx -> list of keys
    per_key = {}     # key -> list of cb idx in order of entry
    open_cb = None
    threads = set()
    serial_ok = True
    for ev, idx, key, tname in log:
        threads.add(tname)
        if ev == 'enter':
            if open_cb is not None:
                serial_ok = False
            open_cb = (idx, key)
            entered.setdefault(idx, []).append(key)
            per_key.setdefault(key, []).append(idx)
        else:
            if open_cb != (idx, key):
                serial_ok = False
            open_cb = None
    if not serial_ok and not cut_short:
        ctx.fail('delivery:callbacks-overlap', 'log=%r' % (log,))
    if len(threads) > 1 or (threads and threads != {cb_thread}):
        ctx.fail('delivery:not-on-the-callback-thread', 'threads=%r' %
                 (sorted(threads),))

    for key in sent:
        res = acks.get(key)
        got = per_key.get(key, [])
        if res == 'success':
            if cut_short and len(got) < ncb:
                continue    # the failure that cut the run short is reported
            missing = [i for i in range(ncb) if got.count(i) == 0]
            twice = [i for i in range(ncb) if got.count(i) > 1]
            if twice:
                ctx.fail('delivery:acknowledged-delivered-more-than-once',
                         '%s delivered %r; log=%r' % (key, got, log))
            if missing and not got:
                ctx.fail('delivery:acknowledged-never-delivered',
                         '%s acknowledged with success, callbacks got %r; '
                         'log=%r' % (key, got, log))
            elif missing:
                ctx.fail('delivery:callback-skipped', '%s reached callbacks '
                         '%r of %d' % (key, got, ncb))
            elif got != sorted(got):
                ctx.fail('delivery:callbacks-not-in-registration-order',
                         '%s: %r' % (key, got))
        elif res == 'refused':
            if got:
                ctx.fail('delivery:refused-but-delivered', '%s: %r' %
                         (key, got))
        elif res == 'noconn':
            if got:
                ctx.fail('delivery:never-accepted-but-delivered', '%s: %r' %
                         (key, got))
    # per sender: delivery order = acknowledgement (= send) order
    for idx in range(ncb):
        for i in range(nsenders):
            mine = [k for k in entered.get(idx, [])
                    if k.startswith('s%d.' % i)]
            nums = [int(k.split('.')[1]) for k in mine]
            if nums != sorted(nums):
                ctx.fail('delivery:sender-order-changed',
                         'callback %d got %r' % (idx, mine))


def judge(ctx, scenario, run, classes):
    maxq, cbs, senders, pname = scenario
    ncb = len(cbs)
    s = run.sched

    # ---- start()/stop() results ----
    tainted = False     # a start/stop failure was reported: later state
    #                     checks would only repeat it
    for n, (op, exc, post) in enumerate(run.calls):
        if exc is not None:
            tainted = True
            if is_known_race(exc):
                # (also reachable through the clean-up path of a failing
                # start(), same root cause)
                classes.append('stop-raised:queue-None-race')
                ctx.fail(KNOWN_RACE, 'stop() raised %r\n%s\nschedule=%r' % (
                    exc, exc_detail(exc, 8), s.effective_schedule()))
            elif exc_signature(exc) is None:
                raise HarnessError('%s() raised without pywbem frame: %r' %
                                   (op, exc)) from exc
            else:
                ctx.fail('%s-raises:%s' % (op, exc_signature(exc)),
                         exc_detail(exc, 8))
            break
        if op == 'stop':
            if post['alive']:
                ctx.fail('stop:leaves-thread-behind:' +
                         '+'.join(sorted(set(post['alive']))),
                         'after stop() returned: %r' % (post,))
                tainted = True
            if post['bound']:
                ctx.fail('stop:leaves-port-bound', 'after stop() returned: '
                         '%r' % (post,))
                tainted = True
            if post['http_started']:
                # documented: whether the listener is started for the port
                ctx.fail('stop:still-reported-started',
                         'after stop() returned: %r' % (post,))
        if op == 'start' and not tainted:
            if not post['bound'] or 'CallbackThread' not in post['alive'] \
                    or not post['http_started']:
                ctx.fail('start:returns-without-running-listener',
                         'after start() returned: %r' % (post,))

    # ---- liveness ----
    if run.outcome == 'deadlock':
        ctx.fail('deadlock:' + run.stuck_sig, 'no thread can run: %s\n'
                 'schedule=%r' % (run.stuck, s.effective_schedule()))
        tainted = True
    elif run.outcome == 'steps':
        # the schedule proper is far shorter than the step bound; the rest
        # was the fair completion (timeouts fire only when nothing can run)
        if 'in-stop' in run.main_flags and not run.cb_thread_alive:
            ctx.fail('stop:never-returns:callback-thread-is-dead',
                     'stop() keeps polling: %s' % run.stuck)
        elif 'in-stop' in run.main_flags:
            ctx.fail('stop:never-returns:' + run.main_label,
                     'no progress under fair scheduling: %s' % run.stuck)
        else:
            ctx.fail('livelock:' + run.main_label,
                     'no progress under fair scheduling: %s' % run.stuck)
        tainted = True

    # ---- handler results ----
    for key, req in run.reqs:
        if req.error is not None:
            # (socketserver prints the traceback and closes the connection)
            ctx.fail_exc(req.error, 'handler-leak')
    for key in run.sent:
        res = run.acks.get(key)
        if isinstance(res, tuple) and res[0] == 'badresp':
            ctx.fail('handler:unexpected-response-to-export-request',
                     '%s: %s' % (key, res[1]))
    if s.qstats['put_blocked']:
        ctx.fail('queue-full:handler-waits-instead-of-refusing',
                 'a handler thread blocked in put() on a full queue '
                 '(max_ind_queue_size=%d)' % maxq)
    if maxq and s.qstats['max_len'] > maxq:
        ctx.fail('queue-full:queue-grew-beyond-max_ind_queue_size',
                 'max length %d > %d' % (s.qstats['max_len'], maxq))

    judge_delivery(ctx, ncb, len(senders), run.sent, run.acks, run.log,
                   run.cut_short)
    return tainted


def classify(scenario, run):
    maxq, cbs, senders, pname = scenario
    s = run.sched
    classes = ['maxq=%d' % maxq, 'callbacks=%d' % len(cbs),
               'senders=%d' % len(senders), 'program=' + pname,
               'outcome=' + str(run.outcome)]
    senders = [_sender(sd) for sd in senders]
    nind = sum(n for _, n, _ in senders)
    if any(hold & HOLD_RECV for _, _, hold in senders):
        classes.append('slow-sender')
    if any(hold & HOLD_SENT for _, _, hold in senders):
        classes.append('handler-held-up-after-response')
    if run.overlap:
        classes.append('next-request-while-own-previous-handler-still-runs')
    serial = [i for i, (w, n, _) in enumerate(senders)
              if sum(run.acks.get('s%d.%d' % (i, j)) == 'success'
                     for j in range(n)) >= 2]
    if serial:
        classes.append('sender-with-2+-acknowledged')
        if maxq == 0:
            classes.append('sender-with-2+-acknowledged:unbounded-queue')
        if run.overlap:
            classes.append('sender-with-2+-acknowledged:handlers-overlap')
    if any(post['alive'].count('RequestHandler')
           for op, exc, post in run.calls if op == 'stop'):
        classes.append('handler-running-when-stop-returned')
    classes.append('indications=%s' % (nind if nind < 5 else '5+'))
    if any(k == 'raise' for k, _ in cbs):
        classes.append('callback-raises')
    if any(sl for _, sl in cbs):
        classes.append('callback-slow')
    if any(sl == LONG for _, sl in cbs):
        classes.append('callback-long')
    if s.qstats['put_on_full'] >= 2:
        classes.append('queue-full:2+-puts-refused')
    vals = list(run.acks.values())
    for r in ('success', 'refused', 'noconn'):
        if r in vals:
            classes.append('some-' + r)
    if vals and all(v == 'success' for v in vals):
        classes.append('all-success')
    pre_cb = [p for p in s.preemptions
              if p[0] == 'CallbackThread' and 'holding-item' in p[2]]
    pre_stop = [p for p in s.preemptions
                if p[0] == 'main' and 'in-stop' in p[2]]
    if pre_cb:
        classes.append('preempt:callback-thread-between-get-and-task_done')
    if pre_stop:
        classes.append('preempt:main-inside-stop')
    # a handler thread has done one of (queue put, complete response) and
    # another thread runs before it does the other / before it ends
    pre_h = [p for p in s.preemptions if p[0].startswith('RequestHandler')]
    if any(('has-put' in p[2]) != ('responded' in p[2]) for p in pre_h):
        classes.append('preempt:handler-between-put-and-response')
    if any('responded' in p[2] for p in pre_h):
        classes.append('preempt:handler-after-response')
    if any(p[1] == 'q.empty:ret' and 'in-stop' in p[2]
           for p in s.preemptions):
        classes.append('preempt:stop-after-queue-seen-empty')
    if any(p[1] == 'ev.set' and 'in-stop' in p[2] for p in s.preemptions):
        classes.append('preempt:stop-before-stop_event-set')
    if s.early_timeouts:
        classes.append('timeout-fired-early')
    if s.qstats['queues'] > 1:
        classes.append('restarted')
    if any(run.acks.get('s%d.%d' % (i, j)) == 'success'
           for i, (w, n, _) in enumerate(senders) if w == 1
           for j in range(n)):
        classes.append('success-after-restart')
    npre = len(s.preemptions)
    classes.append('preemptions=%s' % (npre if npre < 3 else
                                       '3-9' if npre < 10 else '10+'))
    nontrivial = nind >= 2 and bool(pre_cb or pre_stop)
    return classes, nontrivial


def oracle(ctx, example):
    scenario, schedule = example
    run = run_case(scenario, schedule)
    classes, nontrivial = classify(scenario, run)
    judge(ctx, scenario, run, classes)
    ctx.case(key=(scenario, tuple(run.sched.effective_schedule())),
             nontrivial=nontrivial, classes=classes)


# ---------------------------------------------------------------------------
# exhaustive enumeration for the smallest scenarios

SMALL = [
    (0, (('ok', 0),), ((0, 1),), 'active'),
    (1, (('ok', 1),), ((0, 1),), 'after'),
    (1, (('raise', 0),), ((0, 1),), 'restart-active-wait'),
    (0, (('ok', 0),), ((0, 1, 1),), 'active'),      # slow sender
    # one sender x 2 indications, unbounded queue: the second request is
    # sent after the response to the first; handler threads held up after
    # the response / not held up
    (0, (('ok', 0),), ((0, 2, 2),), 'after'),
    (0, (('ok', 0),), ((0, 2, 0),), 'after'),
]
# (quick, thorough) bound on the non-default choices, where not (2, 3)
SMALL_BOUND = {
    (0, (('ok', 0),), ((0, 2, 2),), 'after'): (1, 2),
    (0, (('ok', 0),), ((0, 2, 0),), 'after'): (1, 2),
}


def enumerate_small(ctx, shard, nshards):
    for scenario in SMALL:
        bound = SMALL_BOUND.get(scenario, (2, 3))[
            0 if ctx.tier == 'quick' else 1]
        # level 0
        root = run_case(scenario, [])
        nopt0 = list(root.sched.noptions)
        if shard == 0:
            _small_case(ctx, scenario, [], root)
        level1 = [(i, c) for i, n in enumerate(nopt0) for c in range(1, n)]
        for n, (i, c) in enumerate(level1):
            if n % nshards != shard:
                continue
            _small_dfs(ctx, scenario, [0] * i + [c], 1, bound)


def _small_case(ctx, scenario, schedule, run):
    ctx.current = (scenario, list(schedule))
    classes, nontrivial = classify(scenario, run)
    judge(ctx, scenario, run, classes)
    ctx.case(key=(scenario, tuple(schedule)), nontrivial=nontrivial or
             bool(run.sched.preemptions), classes=classes)


def _small_dfs(ctx, scenario, schedule, depth, bound):
    if ctx.deadline and time.time() > ctx.deadline:
        ctx.skipped += 1        # enumeration incomplete, shown as skipped=
        return
    run = run_case(scenario, schedule)
    _small_case(ctx, scenario, schedule, run)
    if depth >= bound:
        return
    nopt = list(run.sched.noptions)
    base = len(schedule)
    for i in range(base, len(nopt)):
        for c in range(1, nopt[i]):
            _small_dfs(ctx, scenario, schedule + [0] * (i - base) + [c],
                       depth + 1, bound)


def replay_small(ctx, example):
    scenario, schedule = example
    run = run_case(tuple(scenario), list(schedule))
    _small_case(ctx, tuple(scenario), list(schedule), run)


# ---------------------------------------------------------------------------
# model validation: the unmodified listener over loopback sockets

@st.composite
def g_real(draw):
    maxq = draw(st.sampled_from([0, 1, 2, 5]))
    ncb = draw(_ints(1, 2))
    cbs = tuple(draw(st.sampled_from(['ok', 'raise'])) for _ in range(ncb))
    senders = tuple(draw(_ints(1, 3))
                    for _ in range(draw(_ints(1, 3))))
    gate = draw(st.booleans())       # callbacks wait until all are sent
    restart = draw(st.booleans())
    # the handler threads of every other indication are held up for 30 ms
    # before and after they hand the indication over to the listener
    lag = draw(st.booleans())
    return (maxq, cbs, senders, gate, restart, lag)


def _free_port(seed):
    # below the ephemeral range (32768-60999): connections of other
    # processes cannot occupy it
    for n in range(200):
        port = 12000 + (seed * 7919 + n * 104729) % 18000
        sk = socket.socket(socket.AF_INET, socket.SOCK_STREAM)
        try:
            sk.bind(('127.0.0.1', port))
        except OSError:
            continue
        finally:
            sk.close()
        return port
    raise HarnessError('no free loopback port')


def oracle_real(ctx, example):
    maxq, cbs, senders, gate, restart = example[:5]
    lag = example[5] if len(example) > 5 else False
    ncb = len(cbs)
    before = set(threading.enumerate())
    port = _free_port(ctx.seed + ctx.evaluations * 31 + ctx.shard * 1009)
    listener = pywbem.WBEMListener('127.0.0.1', http_port=port,
                                   max_ind_queue_size=maxq)
    listener.logger.propagate = False
    listener.logger.disabled = True
    lock = threading.Lock()
    log, acks, sent = [], {}, []
    go = threading.Event()

    def make_cb(idx, kind):
        def cb(indication, host):
            key = indication['Key']
            tname = threading.current_thread().name
            with lock:
                log.append(('enter', idx, key, tname))
            if gate:
                go.wait(20)
            with lock:
                log.append(('exit', idx, key, tname))
            if kind == 'raise':
                raise ValueError('callback %d fails on purpose' % idx)
        cb.__name__ = 'cb%d' % idx
        return cb

    for i, kind in enumerate(cbs):
        listener.add_callback(make_cb(i, kind))

    if lag:
        # stands for the handler thread being descheduled at these points
        # (do_POST looks the method up on the listener object)
        orig_handle = listener._handle_indication  # noqa

        def lagging_handle(indication, host, msgid):
            held = indication['Key'].endswith(('.0', '.2'))
            if held:
                time.sleep(0.03)
            try:
                return orig_handle(indication, host, msgid)
            finally:
                if held:
                    time.sleep(0.03)

        listener._handle_indication = lagging_handle  # noqa

    def send(i, n):
        conn = pywbem.WBEMConnection('http://127.0.0.1:%d' % port,
                                     timeout=20)
        for j in range(n):
            key = 's%d.%d' % (i, j)
            with lock:
                sent.append(key)
            ind = CIMInstance('CIM_AlertIndication', properties={'Key': key})
            try:
                conn.ExportIndication(ind)
                res = 'success'
            except pywbem.CIMError as exc:
                res = 'refused' if exc.status_code == pywbem.CIM_ERR_FAILED \
                    and 'queue is full' in str(exc) else ('error', exc)
            except pywbem.ConnectionError:
                res = 'noconn'
            with lock:
                acks[key] = res
        conn.close()

    def delivered():
        with lock:
            want = [k for k, r in acks.items() if r == 'success']
            have = [e[2] for e in log if e[0] == 'exit' and e[1] == ncb - 1]
        return all(k in have for k in want)

    def wait_delivered():
        t_end = time.monotonic() + 20
        while not delivered() and time.monotonic() < t_end:
            time.sleep(0.005)
        time.sleep(0.05)    # the callback thread goes back to get()

    stop_exc = None
    classes = ['maxq=%d' % maxq, 'callbacks=%d' % ncb,
               'senders=%d' % len(senders)]
    try:
        listener.start()
        ths = [threading.Thread(target=send, args=(i, n), daemon=True)
               for i, n in enumerate(senders)]
        for t in ths:
            t.start()
        for t in ths:
            t.join(60)
        go.set()
        wait_delivered()
        complete = delivered()
        try:
            listener.stop()
        except Exception as exc:  # judged below
            stop_exc = exc
        if restart and stop_exc is None:
            classes.append('restarted')
            listener.start()
            send(len(senders), 1)
            wait_delivered()
            complete = complete and delivered()
            try:
                listener.stop()
            except Exception as exc:  # judged below
                stop_exc = exc
    finally:
        go.set()
        if stop_exc is None:
            listener.stop()

    if stop_exc is not None:
        if is_known_race(stop_exc):
            ctx.fail(KNOWN_RACE, 'stop() raised %r\n%s' %
                     (stop_exc, exc_detail(stop_exc, 8)))
        else:
            ctx.fail_exc(stop_exc, 'stop-raises')
    else:
        time.sleep(0.01)
        left = [t.name for t in threading.enumerate()
                if t not in before and t.is_alive() and
                not t.name.startswith('Thread-')]
        left += [t.name for t in threading.enumerate()
                 if t not in before and t.is_alive() and
                 t.name.startswith('Thread-') and t not in ths]
        if left:
            ctx.fail('stop:leaves-thread-behind:' + '+'.join(sorted(set(
                n.split('-')[0] for n in left))), 'threads: %r' % (left,))
        sk = socket.socket(socket.AF_INET, socket.SOCK_STREAM)
        sk.setsockopt(socket.SOL_SOCKET, socket.SO_REUSEADDR, 1)
        try:
            sk.bind(('127.0.0.1', port))
        except OSError as exc:
            ctx.fail('stop:leaves-port-bound', 'bind after stop(): %r' %
                     (exc,))
        finally:
            sk.close()
    for key, res in acks.items():
        if isinstance(res, tuple):
            ctx.fail('sender:unexpected-response:' + type(res[1]).__name__,
                     '%s: %r' % (key, res[1]))
    nsend = len(senders) + 1
    judge_delivery(ctx, ncb, nsend, sent, acks, log, cut_short=not complete)
    if not complete and stop_exc is None:
        ctx.fail('delivery:acknowledged-never-delivered',
                 'not delivered 20 s after the response; acks=%r log=%r' %
                 (acks, log))
    vals = list(acks.values())
    for r in ('success', 'refused', 'noconn'):
        if r in vals:
            classes.append('some-' + r)
    if gate:
        classes.append('callbacks-gated')
    if lag:
        classes.append('handlers-held-up')
        if maxq == 0 and any(n >= 2 for n in senders):
            classes.append('handlers-held-up:unbounded-queue:serial-sender')
    ctx.case(nontrivial=len(vals) >= 2, classes=classes)


SUBCHECKS = [
    Sub('sched', strategy=strategy, oracle=oracle, quick=(16, 600),
        thorough=(16, 10000), case_timeout=60, budget=(80, 1500)),
]
_small = Sub('sched_small', enumerate=enumerate_small, quick=(16, 0),
             thorough=(16, 0), budget=(80, 1500))
_small.replay = replay_small
SUBCHECKS.append(_small)
SUBCHECKS.append(Sub('realsock', strategy=g_real, oracle=oracle_real,
                     quick=(16, 3), thorough=(16, 6), case_timeout=120,
                     budget=(80, 600)))

EXTRA_COVERAGE = {
    # measured: histories run on the real listener over loopback in this run
    'traces_validated_against_impl':
        lambda persub: int(persub.get('realsock', {}).get('evaluations', 0)),
    'traces_note':
        'sub-check realsock: delivery/refusal/stop/restart invariants on the '
        'real listener (real threads and sockets) over loopback',
}

# mutation of pywbem/_listener.py (one at a time, scratch worktree, quick
# tier, VERIF_SEED=1) -> new signature(s) reported
SENSITIVITY = [
    "_handle_indication: put(queue_item, block=True) -> sched/queue-full:"
    "handler-waits-instead-of-refusing (also with the proposed fix applied)",
    "_callback_run: task_done() moved before the delivery -> sched/delivery:"
    "acknowledged-never-delivered (only together with the queue-None race: "
    "the AttributeError then precedes the delivery; with the proposed fix "
    "the mutation changes no behaviour and nothing is reported)",
    "stop(): _stop_indication_delivery() before _stop_listener_threads() -> "
    "sched/delivery:acknowledged-never-delivered (also with the fix)",
    "_callback_run: break on the first queue.Empty regardless of the stop "
    "flag -> sched/stop:never-returns:callback-thread-is-dead, sched/start:"
    "returns-without-running-listener (also with the fix)",
    "_deliver_indication_to_callbacks: break after a callback raised -> "
    "sched/delivery:callback-skipped",
    "stop(): _stop_indication_delivery(immediate=True) -> sched/delivery:"
    "acknowledged-never-delivered, sched/stop-raises:Empty@_listener:"
    "_stop_indication_delivery:...",
    "_stop_listener_threads: server_close() removed -> sched/stop:leaves-"
    "port-bound, sched/deadlock:sender@cli.wait-accept, sched/start-raises:"
    "ListenerPortError@_listener:start:...",
    "_stop_listener_threads: self._http_server = None removed -> sched/stop:"
    "still-reported-started, sched/stop-raises:AttributeError@_listener:"
    "_stop_listener_threads:self._http_thread.join",
    "_deliver_indication_to_callbacks: reversed(self._callbacks) -> sched/"
    "delivery:callbacks-not-in-registration-order",
    "start(): queue.LifoQueue instead of queue.Queue -> sched/delivery:"
    "sender-order-changed",
    "_stop_indication_delivery: wait loop for the empty queue removed -> "
    "sched/delivery:acknowledged-never-delivered",
    "ThreadedHTTPServer: daemon_threads = True (seeded change1) -> sched/"
    "delivery:acknowledged-never-delivered, sched/stop:leaves-thread-behind:"
    "RequestHandler (same two in sched_small)",
    "_stop_indication_delivery: wake-up item put(None, block=False) instead "
    "of the drain wait (seeded change2) -> sched/stop-raises:Full@_listener:"
    "_stop_indication_delivery:..., sched/delivery:acknowledged-never-"
    "delivered",
    "_stop_indication_delivery: _callback_thread.join() removed -> sched/"
    "stop:leaves-thread-behind:CallbackThread, sched/delivery:sender-order-"
    "changed (two consumers after a restart)",
    "do_POST: with max_ind_queue_size == 0 the success response is sent "
    "before _handle_indication() (seeded change6) -> sched/delivery:sender-"
    "order-changed (878 hits), sched_small/delivery:sender-order-changed, "
    "realsock/delivery:sender-order-changed",
]
