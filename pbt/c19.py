"""
C19 - Logging, recorders, statistics and debug never change what an operation
returns.  DESIGN.md 4.19.
"""

import io
import os
import sys
import base64
import logging
import tempfile
import warnings

from hypothesis import strategies as st

import pywbem
import pywbem_mock
from pywbem import WBEMConnection

from .runner import Sub, exc_signature
from . import strategies as S
from . import ops as O
from . import c02
from . import responses as R
from .normalize import canon, vcanon, Opts

PROPERTY = 'C19'
RULE = (
    "Example = C02 example (operation call + scripted server behaviour: "
    "valid responses with non-ASCII content and untyped numeric keys, "
    "mutated responses, CIM errors, byte-level garbage, HTTP errors, odd "
    "headers, transport exceptions) x observer configuration: "
    "configure_logger(name in api/http/all, dest in file/stderr/own handler, "
    "detail_level in all/paths/summary/0/1/small n/n = byte offset around a "
    "multi-byte character of request or response/large n, connection=conn "
    "or True), TestClientRecorder on/off, statistics on/off, debug on/off, "
    "credentials with a marker password.  The same example is run bare and "
    "with the observers; outcomes must be equal (same canonical value, or "
    "same exception type with same status code / args), last_raw_request/"
    "last_raw_reply must equal the bytes exchanged, statistics must count "
    "every finished operation exactly once (exceptions counted), and the "
    "password marker (plain and base64 user:password) must not occur in log "
    "records, recorder output, str() or repr() of the connection.  "
    "Non-trivial = at least one observer enabled and the response contains "
    "multi-byte UTF-8, an untyped numeric keybinding, or the outcome is an "
    "error.  Distinct = distinct example.")
ASSUMPTIONS = [
    "same assumptions as C02 for the scripted server",
    "global logging state is reset between cases with "
    "configure_logger('all', log_dest='off', connection=False)",
    "statistics: for Iter... operations the count per operation name must "
    "equal the number of requests sent with that method name; for other "
    "operations exactly 1",
]
SENSITIVITY = [
    "__str__/__repr__ of WBEMConnection printing the full creds tuple -> password-leaked-in:str_conn / repr_conn / log-file / log-records / stderr-log",
    "stop_timer() counting only successful operations -> statistics:operation-not-counted-once, statistics:count-differs-from-requests",
    "TestClientRecorder.toyaml returning CIMDateTime objects unconverted -> success-became-failure:RepresenterError@_recorder:record",
    "(before the fixes) byte-sliced response decoded in stage_http_response2 -> success-became-failure:UnicodeDecodeError@_utils:_ensure_unicode",
    "control: removing the Authorization masking in stage_http_request is NOT caught - the recorder never receives that header (dead code), so nothing can leak there",
]

MARKER = 'Pw_Marker_7391_xyZ'
USER = 'joe'
B64 = base64.b64encode(('%s:%s' % (USER, MARKER)).encode()).decode()


def g_obs(draw):
    obs = {}
    k = draw(S._I10)
    if k < 7:
        lvl = draw(st.sampled_from(
            ['all', 'all', 'paths', 'paths', 'paths', 'paths', 'summary',
             'summary', 'summary', 0, 1, 7, 50, 100000,
             ('mb', -2), ('mb', -1), ('mb', 0), ('mb', 1), ('mb', 2),
             ('mb', 3), ('mbq', -1), ('mbq', 0), ('mbq', 1), ('mbq', 2),
             ('mbq', 3)]))
        obs['log'] = {
            'name': draw(st.sampled_from(['api', 'http', 'all'])),
            'dest': draw(st.sampled_from(['file', 'stderr', None])),
            'level': lvl,
            'how': draw(st.sampled_from(['conn', 'conn', 'global']))}
    else:
        obs['log'] = None
    obs['testrec'] = draw(S._I10) < 4
    obs['stats'] = draw(S._I10) < 4
    obs['debug'] = draw(S._I10) < 3
    return obs


def strategy():
    base = c02.strategy()
    invoke = c02.strategy(ops=['InvokeMethod'])

    @st.composite
    def strat(draw):
        # the recorders and the api logger see the arguments of the call:
        # every eighth case is an InvokeMethod (the operation with the
        # richest argument types), with one more datetime parameter that the
        # call builder hands over as a Python datetime/timedelta object
        if draw(S._I100) < 12:
            ex = draw(invoke)
            t, is_arr, v = S._g_typed_value(draw, ['datetime'])
            ex['call']['args']['kwparams'] = list(
                ex['call']['args'].get('kwparams', [])) + [
                    ('K_dt%d' % draw(S._I10), (t, is_arr, v, None))]
        else:
            ex = draw(base)
        ex['conn']['stats'] = False
        # more well-formed traffic than in C02, and results that are not
        # empty (the observers format what was returned)
        for r in ex['responses']:
            if r['mode'] == 'xml' and draw(S._I10) < 6:
                r['mut'] = []
                r['status'] = (200, 'OK')
                r.pop('payload_of', None)
            if r['mode'] in ('xml', 'bytes') and not r['pool']['insts'] \
                    and draw(S._I10) < 8:
                r['pool'] = dict(r['pool'],
                                 insts=list(c02._FIXED_POOL['insts']))
        return {'ex': ex, 'obs': g_obs(draw), 'prelude': draw(S._B)}
    return strat()


def _mb_offset(bodies, reqs, delta, requests_first=False):
    """
    byte offset of a multi-byte character in a response/request +- delta
    ('mb': the first response that has one, else a request; 'mbq': the
    other way round - the logged request is cut as well)
    """
    order = [r.body for r in reqs] + list(bodies) if requests_first else \
        list(bodies) + [r.body for r in reqs]
    for b in order:
        if not b:
            continue
        for i, c in enumerate(b):
            if c >= 0x80:
                return max(0, i + delta)
    return 20 + delta


class Capture(logging.Handler):
    def __init__(self):
        super().__init__(logging.DEBUG)
        self.text = []

    def emit(self, record):
        self.text.append(self.format(record))


def _reset_logging():
    with warnings.catch_warnings():
        warnings.simplefilter('ignore')
        pywbem.configure_logger('all', log_dest='off', connection=False)
    for n in ('pywbem.api', 'pywbem.http', 'pywbem'):
        lg = logging.getLogger(n)
        for h in list(lg.handlers):
            lg.removeHandler(h)
            try:
                h.close()
            except Exception:  # pylint: disable=broad-except
                pass
    WBEMConnection._reset_logging_config()


def _outcome_canon(outcome, val):
    if outcome == 'returned':
        return ('returned', _rcanon(val))
    if outcome in ('error', 'leak', 'local'):
        sc = getattr(val, 'status_code', None)
        return (outcome, type(val).__name__, sc,
                str(val.args[0])[:200] if val.args and outcome != 'error'
                else None)
    return (outcome,)


def _rcanon(r):
    o = Opts()
    if hasattr(r, '_fields'):
        return tuple((k, _rcanon(v)) for k, v in sorted(r._asdict().items()))
    if isinstance(r, tuple) and len(r) == 2 and hasattr(r[1], 'items') \
            and not isinstance(r[1], pywbem.CIMInstance):
        return ('invoke', vcanon(r[0], o),
                tuple(sorted((k.lower(), vcanon(v, o))
                             for k, v in r[1].items())))
    if isinstance(r, list):
        return ('list', tuple(_rcanon(x) for x in r))
    if isinstance(r, tuple):
        return ('tuple', tuple(_rcanon(x) for x in r))
    if isinstance(r, str):
        return ('str', r)
    return canon(r, o)


def oracle(ctx, example):
    ex, obs = example['ex'], example['obs']
    with warnings.catch_warnings():
        warnings.simplefilter('ignore')
        _oracle(ctx, ex, obs, example.get('prelude', False))


def _oracle(ctx, ex, obs, prelude=False):
    creds = (USER, MARKER)
    # 1. bare run
    _reset_logging()
    out0, val0, ad0, bodies0, conn0 = c02.run_case(
        ex, conn_kw={'creds': creds}, prelude=prelude)
    base = _outcome_canon(out0, val0)
    # 2. observed run
    cap = Capture()
    cap.setFormatter(logging.Formatter('%(name)s-%(message)s'))
    stderr_cap = io.StringIO()
    tmpdir = tempfile.mkdtemp(prefix='c19_')
    logfile = os.path.join(tmpdir, 'pywbem.log')
    rec_out = io.StringIO()
    log = obs['log']
    level = None
    if log:
        level = log['level']
        if isinstance(level, tuple):
            level = _mb_offset(bodies0, ad0.requests, level[1],
                               requests_first=(level[0] == 'mbq'))
    old_stderr = sys.stderr
    conn_holder = []

    def configure(connection):
        sys.stderr = stderr_cap
        try:
            pywbem.configure_logger(log['name'], log_dest=log['dest'],
                                    detail_level=level,
                                    log_filename=logfile,
                                    connection=connection)
        finally:
            sys.stderr = old_stderr
        if log['dest'] is None:
            for n in ('pywbem.api', 'pywbem.http'):
                lg = logging.getLogger(n)
                lg.addHandler(cap)
                lg.setLevel(logging.DEBUG)
                lg.propagate = False

    def observers(conn):
        conn_holder.append(conn)
        if log and log['how'] == 'conn':
            configure(conn)
        if obs['testrec']:
            conn.add_operation_recorder(pywbem.TestClientRecorder(rec_out))
        conn.debug = obs['debug']
    try:
        if log and log['how'] == 'global':
            configure(True)
        try:
            out1, val1, ad1, bodies1, conn1 = c02.run_case(
                ex, observers=observers, prelude=prelude,
                conn_kw={'creds': creds, 'stats_enabled': obs['stats']})
        except Exception as exc:  # pylint: disable=broad-except
            # run_case itself catches everything raised by the operation;
            # what arrives here was raised while setting up the observers
            sig = exc_signature(exc)
            if sig is None:
                raise
            ctx.fail('observer-setup-raises:' + sig, repr(exc))
            ctx.case(nontrivial=True)
            return
        seen = _outcome_canon(out1, val1)
        classes = ['outcome:' + out0,
                   'log:' + (('%s/%s/%s' % (log['name'], log['dest'],
                                            log['level'] if not isinstance(
                                                log['level'], tuple)
                                            else 'mb')) if log else 'off'),
                   'testrec:%s' % obs['testrec'], 'stats:%s' % obs['stats'],
                   'debug:%s' % obs['debug']]
        if seen != base:
            what = 'success-became-failure' if out0 == 'returned' and \
                out1 != 'returned' else 'outcome-changed'
            sig = None
            if out1 in ('leak', 'error', 'local') and \
                    isinstance(val1, Exception):
                # root cause: an exception raised while another one was
                # propagating (CloseEnumeration in the finally clause of an
                # Iter...() generator) hides the first one; bucket by the
                # first one
                root = val1
                while root.__context__ is not None and \
                        not isinstance(root.__context__, pywbem.Error) and \
                        exc_signature(root.__context__):
                    root = root.__context__
                sig = exc_signature(root)
                if sig and '_recorder:toyaml' in sig:
                    # name the value type toyaml() could not handle
                    import re
                    m = re.search(r'toyaml\(\): (\w+)', str(root))
                    sig += ':' + (m.group(1) if m else '?')
            ctx.fail('%s:%s' % (what, sig or ex['call']['op']),
                     'bare: %r\nobserved: %r\nobservers: %r' %
                     (base, seen, obs))
        # the bytes sent do not depend on the observers: same number of
        # requests, same bodies, same header fields (in particular the
        # Authorization header is the real one, not a masked copy)
        # (an exception of the observed run that hides an earlier one - the
        # known toyaml() TypeError inside an Iter...() generator, followed by
        # a failing CloseEnumeration - can leave the final outcome equal
        # while fewer requests were sent: that is the hidden root cause, not
        # a new one)
        hidden = None
        if seen == base and isinstance(val1, Exception):
            root = val1
            while root.__context__ is not None and \
                    not isinstance(root.__context__, pywbem.Error) and \
                    exc_signature(root.__context__):
                root = root.__context__
            if root is not val1:
                hidden = exc_signature(root)
                # only exceptions raised by the observers' own code count
                # (every converted transport or parser exception has a
                # context as well)
                if hidden and not any(m in hidden for m in (
                        '@_recorder:', '@_logging:', '@_statistics:')):
                    hidden = None
                if hidden and '_recorder:toyaml' in hidden:
                    import re
                    m = re.search(r'toyaml\(\): (\w+)', str(root))
                    hidden += ':' + (m.group(1) if m else '?')
        if hidden:
            ctx.fail('outcome-changed:' + hidden,
                     'the observed run ended like the bare one but an '
                     'earlier exception was hidden: %r' % (root,))
        elif seen == base and len(ad0.requests) == len(ad1.requests):
            for i, (r0, r1) in enumerate(zip(ad0.requests, ad1.requests)):
                if r0.body != r1.body:
                    ctx.fail('request-body-depends-on-observers',
                             'request %d: %r vs %r' %
                             (i, r0.body[:300], r1.body[:300]))
                    break
                h0 = {k.lower(): v for k, v in r0.headers.items()}
                h1 = {k.lower(): v for k, v in r1.headers.items()}
                if h0 != h1:
                    diff = sorted(k for k in set(h0) | set(h1)
                                  if h0.get(k) != h1.get(k))
                    ctx.fail('request-headers-depend-on-observers:' +
                             ','.join(diff)[:60],
                             'request %d: %r' % (i, [
                                 (k, str(h0.get(k))[:40], str(h1.get(k))[:40])
                                 for k in diff]))
                    break
        elif seen == base:
            ctx.fail('number-of-requests-depends-on-observers',
                     '%d vs %d' % (len(ad0.requests), len(ad1.requests)))
        for r in ad1.requests:
            auth = {k.lower(): v for k, v in r.headers.items()}.get(
                'authorization')
            if auth is not None and auth != 'Basic ' + B64:
                ctx.fail('authorization-header-sent-is-not-the-credentials',
                         repr(auth)[:80])
                break
        # raw request/reply
        # (only when the request of the operation itself went out: one that
        # requests refuses to send, e.g. for a line break in the CIMObject
        # header value, exchanged no bytes)
        if len(ad1.requests) > (1 if prelude else 0) and out1 != 'local':
            lr = conn1.last_raw_request
            if lr is not None:
                lrb = lr.encode('utf-8') if isinstance(lr, str) else lr
                if not any(lrb in r.body for r in ad1.requests):
                    ctx.fail('last_raw_request-differs', repr(lrb[:200]))
            lp = conn1.last_raw_reply
            enc = any(k.lower() == 'content-encoding'
                      for s in ex['responses'] for k, _ in s['headers'])
            if lp is not None and not enc:
                lpb = lp.encode('utf-8') if isinstance(lp, str) else lp
                if lpb not in [b for b in bodies1 if b is not None]:
                    ctx.fail('last_raw_reply-differs', repr(lpb[:200]))
        # an operation that got no reply (transport fault, HTTP error
        # status) leaves no reply of an earlier operation behind: the
        # properties are documented to be reset before the request is sent
        n_main = len(ad1.requests) - (1 if prelude else 0)
        if n_main >= 1 and out1 != 'local':
            specs = ex['responses']
            last_spec = specs[min(n_main - 1, len(specs) - 1)]
            no_reply = n_main <= c02.MAX_REQ and (
                last_spec['mode'] == 'fault' or last_spec['status'][0] != 200)
            if no_reply and (conn1.last_raw_reply is not None or
                             conn1.last_reply_len != 0):
                ctx.fail('last_raw_reply-not-reset-for-operation-without-'
                         'reply', 'last_raw_reply=%r last_reply_len=%r' %
                         (str(conn1.last_raw_reply)[:80],
                          conn1.last_reply_len))
        # statistics
        if obs['stats'] and out1 != 'local' and seen == base:
            op = ex['call']['op']
            snap = dict(conn1.statistics.snapshot())
            if prelude:
                pre = snap.get('EnumerateInstanceNames')
                if op != 'EnumerateInstanceNames' and not op.startswith(
                        'Iter') and (pre is None or pre.count != 1):
                    ctx.fail('statistics:operation-not-counted-once',
                             'prelude: %r' % (pre,))
            redirected = any(300 <= sp['status'][0] < 400
                             for sp in ex['responses'])
            if op.startswith('Iter') and redirected:
                # requests follows a redirect with further HTTP requests
                # (with or without the body) that are not further
                # operations: requests cannot be counted as operations
                pass
            elif op.startswith('Iter'):
                from .xmlserver import request_method_name
                sent = {}
                for r in ad1.requests:
                    _, n = request_method_name(r.body)
                    sent[n] = sent.get(n, 0) + 1
                for n, k in sent.items():
                    st_ = snap.get(n)
                    if st_ is None or st_.count != k:
                        ctx.fail('statistics:count-differs-from-requests',
                                 '%s: %r requests, stat %r' % (n, k, st_))
            else:
                st_ = snap.get(op)
                exp_exc = 0 if out1 == 'returned' else 1
                want = 2 if (prelude and op == 'EnumerateInstanceNames') \
                    else 1
                if st_ is None or st_.count != want:
                    ctx.fail('statistics:operation-not-counted-once',
                             '%s: %r' % (op, st_))
                elif st_.exception_count != exp_exc:
                    ctx.fail('statistics:exception-count',
                             '%s: exception_count=%d outcome=%s' %
                             (op, st_.exception_count, out1))
        # password
        texts = {'log-records': '\n'.join(cap.text),
                 'stderr-log': stderr_cap.getvalue(),
                 'recorder-yaml': rec_out.getvalue(),
                 'str(conn)': str(conn1), 'repr(conn)': repr(conn1)}
        if os.path.exists(logfile):
            for h in logging.getLogger('pywbem.api').handlers + \
                    logging.getLogger('pywbem.http').handlers:
                h.flush()
            with open(logfile, encoding='utf-8', errors='replace') as fp:
                texts['log-file'] = fp.read()
        for where, text in texts.items():
            if MARKER in text or B64 in text:
                ctx.fail('password-leaked-in:' + where,
                         text[max(0, text.find(MARKER) - 100):][:300])
        logged = sum(len(t) for k, t in texts.items() if 'log' in k)
        if log and logged:
            classes.append('log-output-nonempty')
        any_obs = bool(log or obs['testrec'] or obs['stats'] or obs['debug'])
        interesting = out0 != 'returned' or any(
            b and (any(c >= 0x80 for c in b) or
                   b'VALUETYPE="numeric"' in b) for b in bodies0)
        ctx.case(nontrivial=any_obs and interesting, classes=classes)
    finally:
        sys.stderr = old_stderr
        _reset_logging()
        import shutil
        shutil.rmtree(tmpdir, ignore_errors=True)


# ---------------------------------------------------------------------------
# sub-check: mock_observers - the same history of operations on two mock
# servers built from the same generated repository: one bare, one with
# statistics, a TestClientRecorder and the loggers switched on

from . import c04 as _c04          # noqa: E402
from . import repo as _RP          # noqa: E402


class _NoTransport:
    "stands in for the CIM-XML side of the C04 machine (nothing to inspect)"
    requests = ()
    seen = ()
    last = None


class MockObservers(_c04.Machine):
    """
    The step generator, the execution and the comparison are those of the
    C04 history machine; side X is a bare FakedWBEMConnection, side B the
    same repository in a FakedWBEMConnection with observers.  Differences
    are reported as outcome-differs / result-differs.
    """

    def init_strategy(self):
        base = super().init_strategy()

        @st.composite
        def strat(draw):
            init = draw(base)
            init['obs'] = {
                'stats': draw(S._I10) < 7,
                'testrec': draw(S._I10) < 6,
                'log': draw(st.sampled_from(
                    [None, ('all', 'all'), ('api', 'paths'), ('all', 10),
                     ('api', 'summary'), ('http', 'all'), ('all', 0)]))}
            return init
        return strat()

    def setup(self, init):
        init = _c04._nocr(init)
        self.recipe = init['repo']
        obs = init.get('obs') or {'stats': True, 'testrec': True,
                                  'log': ('all', 'all')}
        kw = {}
        if init['dns'] is not None:
            kw['default_namespace'] = init['dns']
        _reset_logging()
        self._rec_out = io.StringIO()
        try:
            self.X = _RP.materialize(self.recipe, **kw)
        except pywbem.Error as exc:
            from .runner import HarnessError
            raise HarnessError('repository recipe rejected: %s' % exc) \
                from exc
        # the observed side: everything from the first call on, including the
        # calls that fill the repository, runs with the observers
        okw = dict(kw)
        if obs['stats']:
            okw['stats_enabled'] = True
        real_init = pywbem_mock.FakedWBEMConnection.__init__
        rec_out = self._rec_out

        def observed_init(conn, *a, **k):
            real_init(conn, *a, **k)
            if obs['log']:
                pywbem.configure_logger(obs['log'][0], log_dest='file',
                                        log_filename=os.devnull,
                                        detail_level=obs['log'][1],
                                        connection=conn)
            if obs['testrec']:
                conn.add_operation_recorder(
                    pywbem.TestClientRecorder(rec_out))
        pywbem_mock.FakedWBEMConnection.__init__ = observed_init
        try:
            self.B = _RP.materialize(self.recipe, **okw)
        finally:
            pywbem_mock.FakedWBEMConnection.__init__ = real_init
        for conn in (self.X, self.B):
            conn._use_pull_operations = init['pull']
            for a in ('_use_enum_inst_pull_operations',
                      '_use_enum_path_pull_operations',
                      '_use_ref_inst_pull_operations',
                      '_use_ref_path_pull_operations',
                      '_use_assoc_inst_pull_operations',
                      '_use_assoc_path_pull_operations',
                      '_use_query_pull_operations'):
                setattr(conn, a, init['pull'])
        self.adapter = _NoTransport()
        self.facade = _NoTransport()
        self.dns = self.X.default_namespace
        self.nss = list(self.recipe['namespaces'])
        self.classes = [c['name'] for c in self.recipe['classes']] + \
            ['TST_Echo']
        self.props = sorted(set(p['name'] for c in self.recipe['classes']
                                for p in c['props']))
        self.paths = []
        for ii, _inst in enumerate(self.recipe['instances']):
            self.paths.append(self._ipath_recipe(ii))
        self.sessions = []
        self.new_id = 0
        self.last_call = {}
        self.ctx.event('observers:stats=%s,testrec=%s,log=%s' % (
            obs['stats'], obs['testrec'],
            'off' if not obs['log'] else '%s/%s' % obs['log']))

    def teardown(self):
        _reset_logging()
        sup = getattr(super(), 'teardown', None)
        if sup:
            sup()


# ---------------------------------------------------------------------------
# sub-check: stats_history - statistics over a sequence of operations on one
# connection, with reset()/disable()/enable() in between, against a counter
# model

_STAT_OPS = ['EnumerateInstanceNames', 'EnumerateClassNames', 'GetClass',
             'DeleteInstance', 'EnumerateInstances', 'InvokeMethod']


def stats_strategy():
    @st.composite
    def strat(draw):
        steps = []
        for _ in range(draw(st.integers(2, 14))):
            k = draw(S._I100)
            if k < 12:
                steps.append(('reset',))
            elif k < 16:
                steps.append(('disable',))
            elif k < 20:
                steps.append(('enable',))
            elif k < 24:
                steps.append(('snapshot',))
            else:
                # few names, so that the same name often follows itself
                name = _STAT_OPS[min(draw(S._I10) % 8, 5) % (
                    2 if draw(S._B) else 6)]
                outcome = draw(st.sampled_from(
                    ['ok', 'ok', 'ok', 'cimerror', 'fault', 'http', 'garbage']))
                steps.append(('op', name, outcome))
        return {'enabled': draw(st.sampled_from([True, True, True, False])),
                'steps': steps}
    return strat()


def stats_oracle(ctx, ex):
    from .xmlserver import connect, Resp, error_response, \
        request_method_name
    calls = c02._fixed_calls()
    current = {'outcome': 'ok'}

    def responder(req):
        tag, name = request_method_name(req.body)
        out = current['outcome']
        if out == 'fault':
            return Resp(exc=c02.make_fault('ConnectionError'))
        if out == 'http':
            return Resp(b'', status=500, reason='Internal Server Error')
        if out == 'garbage':
            return Resp(b'<CIM')
        if out == 'cimerror':
            return Resp(error_response(tag, name, 4))
        return Resp(R.valid_response(tag, name, c02._FIXED_POOL,
                                     True).encode('utf-8'))
    conn, _ad = connect(responder, stats_enabled=ex['enabled'])
    stats = conn.statistics
    enabled = ex['enabled']
    model = {}                  # name -> [count, exception_count]
    n_ops = n_after_reset = 0
    had_reset = False
    try:
        for step in ex['steps']:
            if step[0] == 'reset':
                did = stats.reset()
                if did:
                    model = {}
                    had_reset = True
                    n_after_reset = 0
            elif step[0] == 'disable':
                stats.disable()
                enabled = False
            elif step[0] == 'enable':
                stats.enable()
                enabled = True
            elif step[0] == 'op':
                _op, name, outcome = step
                current['outcome'] = outcome
                call = calls[name][0]
                try:
                    O.invoke(conn, call)
                    failed = False
                except pywbem.Error:
                    failed = True
                n_ops += 1
                n_after_reset += 1
                if enabled:
                    m = model.setdefault(name, [0, 0])
                    m[0] += 1
                    m[1] += 1 if failed else 0
            # after every step: what the statistics show equals the model
            snap = {k: (v.count, v.exception_count)
                    for k, v in stats.snapshot()}
            want = {k: tuple(v) for k, v in model.items()}
            if snap != want:
                ctx.fail('statistics:snapshot-differs-from-operations-'
                         'finished' + (':after-reset' if had_reset else ''),
                         'after step %r: snapshot %r, expected %r' %
                         (step, snap, want))
                break
            for k, v in model.items():
                one = stats.get_op_statistic(k)
                if enabled and (one.count, one.exception_count) != tuple(v):
                    ctx.fail('statistics:get_op_statistic-differs-from-'
                             'snapshot', '%s: %r vs %r' %
                             (k, (one.count, one.exception_count), v))
                    break
    finally:
        conn.close()
    names = [s_[1] for s_ in ex['steps'] if s_[0] == 'op']
    repeated_after_reset = False
    last = None
    for s_ in ex['steps']:
        if s_[0] == 'op':
            if last == ('reset', s_[1]):
                repeated_after_reset = True
            last = ('op', s_[1])
        elif s_[0] == 'reset' and last and last[0] == 'op':
            last = ('reset', last[1])
    ctx.case(nontrivial=n_ops >= 2 and len(set(names)) >= 1,
             classes=['stats:ops=%d' % min(n_ops, 10),
                      'stats:reset-between-operations-of-one-name'
                      if repeated_after_reset else 'stats:no-such-reset',
                      'stats:initially-' + ('on' if ex['enabled'] else
                                            'off')])


# ---------------------------------------------------------------------------
# sub-check: obsmatrix (exhaustive) - every operation with a plain valid,
# non-empty answer under every basic observer configuration

_OM_CONFIGS = [(name, level) for name in ('api', 'http', 'all')
               for level in ('all', 'paths', 'summary', 0, 10)] + \
    [('testrec', None), ('stats', None), ('debug', None),
     ('everything', 'paths')]


def obsmatrix_keys():
    keys = []
    calls = c02._fixed_calls()
    for opn in O.ALL_OPS:
        for ci in range(len(calls[opn])):
            for eos in (1, 0):
                if eos == 0 and not (opn.startswith(('Open', 'Pull', 'Iter'))):
                    continue
                for cfg in range(len(_OM_CONFIGS)):
                    keys.append((opn, ci, eos, cfg))
    return keys


def obsmatrix_enumerate(ctx, shard, nshards):
    for n, key in enumerate(obsmatrix_keys()):
        if n % nshards == shard:
            obsmatrix_replay(ctx, key)


def obsmatrix_replay(ctx, key):
    opn, ci, eos, cfg = key
    key = (opn, ci, eos, cfg)
    ctx.current = key
    ex = c02._crosskind_example((opn, ci, opn if opn in R.KIND else
                                 'GetInstance', 0, eos, None, 0))
    ex['responses'][0].pop('payload_of', None)
    ex['responses'][0].pop('mix', None)
    # a second response ends an enumeration that the first one left open
    last = dict(ex['responses'][0])
    last['pool'] = dict(last['pool'], eos=True)
    ex['responses'] = [ex['responses'][0], last]
    name, level = _OM_CONFIGS[cfg]
    obs = {'log': None, 'testrec': False, 'stats': False, 'debug': False}
    if name in ('api', 'http', 'all'):
        obs['log'] = {'name': name, 'dest': 'file', 'level': level,
                      'how': 'conn'}
    elif name == 'everything':
        obs = {'log': {'name': 'all', 'dest': 'file', 'level': level,
                       'how': 'conn'},
               'testrec': True, 'stats': True, 'debug': True}
    else:
        obs[name] = True
    _oracle(ctx, ex, obs, False)


SUBCHECKS = [
    Sub('observers', strategy=strategy, oracle=oracle,
        quick=(16, 400), thorough=(16, 15000), case_timeout=120),
    Sub('mock_observers', machine=MockObservers, quick=(8, 30),
        thorough=(16, 800), steps=(20, 40), case_timeout=120),
    Sub('stats_history', strategy=stats_strategy, oracle=stats_oracle,
        quick=(4, 300), thorough=(16, 5000)),
    Sub('obsmatrix', enumerate=obsmatrix_enumerate, quick=(8, 0),
        thorough=(8, 0)),
]
SUBCHECKS[3].replay = obsmatrix_replay
