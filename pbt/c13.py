"""
C13 - Association traversal is consistent with the stored association
instances.  DESIGN.md 4.13.

One generated example is an *association graph* (plain data) plus a list of
queries:

  {'nss': [ns, ...],                       # 1-3 namespaces, nss[0] = default
   'classes': [{'name', 'super': idx|None, 'assoc': bool, 'keytype',
                'idkey': bool, 'refs': [(role, refclass idx, is_key,
                is_override)], 'only0': bool}],
   'nodes': [(ns idx, class idx, key value)],           # end-point instances
   'links': [{'cls': idx, 'home': ns idx, 'route': 'create'|'add',
              'aid': str|None,
              'ends': [(role, node idx|None, casevariant)]}],  # None = NULL,
                                                      # role missing = absent
   'queries': [{'src': ('n', node idx)|('l', link idx), 'form': 0..2,
                'f': (AssocClass, ResultClass, Role, ResultRole),
                'kw': 0..4}]}

The repository is built through the public API only (CreateClass,
CreateInstance, add_cimobjects) and the association instances are read back
with EnumerateInstances; the expected result sets are computed from what was
read back (never from tables).
"""

import hashlib

from hypothesis import strategies as st

import pywbem
import pywbem_mock
from pywbem import (CIMClass, CIMProperty, CIMQualifier, CIMInstance,
                    CIMInstanceName, CIMClassName, CIMError, Uint32)

from .runner import Sub, exc_signature, slug, exc_detail, REPO
from . import repo as R

PROPERTY = 'C13'
RULE = (
    "instance/nullends: generated association graphs (1-3 namespaces, the "
    "same class forest in each: 1-6 end-point classes up to depth 3 with "
    "string or uint32 keys, 1-5 association classes: binary, ternary, with "
    "key and non-key REF properties or an own string key, subclasses that "
    "add a REF or narrow one with Override, REFs typed to base classes; "
    "2-30 end-point instances, 0-25 association instances created with "
    "CreateInstance or add_cimobjects: inside one class, between "
    "subclasses, parallel edges, self loops, across namespaces, with NULL "
    "or absent non-key ends, with differently-cased reference values).  "
    "Every end-point instance is queried without filters (AssociatorNames, "
    "Associators, ReferenceNames, References); 4-20 drawn (source, "
    "AssocClass, ResultClass, Role, ResultRole) tuples per graph with filter "
    "values from {None, related/unrelated existing name in 4 lexical cases, "
    "sub/superclass, class of the wrong kind, class existing only in "
    "another namespace, non-existing}, each together with its 1-4 "
    "single-filter relaxations.  pull_iter: the same tuples through "
    "Open.../Pull... (MaxObjectCount 1-5) and Iter....  classlevel: every "
    "class of every namespace x 3 drawn filter tuples.  One evaluation = "
    "one (graph, source, filter tuple).  Non-trivial = the filtered "
    "associator set is a proper non-empty subset of an unfiltered set with "
    ">= 2 elements, or the source takes part in a cross-namespace, ternary, "
    "NULL-ended or same-class association; class-level: the class is "
    "referenced by some association class.  Distinct = distinct (graph, "
    "source, filters).")
ASSUMPTIONS = [
    "reference values carry a namespace and no host (pywbem_mock asserts "
    "the former and rejects the latter with CIM_ERR_INVALID_PARAMETER); "
    "referenced end points exist (CreateInstance documents that)",
    "NULL reference ends only in non-key REF properties (DSP0004: keys are "
    "not NULL); the provider docstring of CreateInstance allows them: "
    "'reference properties must define existing end-point paths or have "
    "value None'",
    "every class exists in every namespace (the statement does not say in "
    "which namespace a class filter of a cross-namespace traversal is "
    "resolved), except TST_Only0 which is used as a filter value only",
    "association subclasses repeat the Association qualifier explicitly, as "
    "all DMTF schema MOF does (non-propagation of class qualifiers is the "
    "known C12 finding)",
    "instances stored with add_cimobjects reference only their own "
    "namespace (that method documents that it does no processing, so it "
    "creates no copies in other namespaces)",
    "paths are compared as CIM identities: class and key names "
    "case-insensitively, namespace, key values; the host component is "
    "compared separately (signature ...host...)",
    "filter values are CIM names ('' is not generated); names are ASCII",
    "a class filter that does not exist in the target namespace must give "
    "CIM_ERR_INVALID_PARAMETER (docstring of "
    "MainProvider._validate_class_exists); a role that does not exist "
    "gives an empty result",
    "Pull/Iter MaxObjectCount >= 1 (0 is the subject of C14)",
]

SENSITIVITY = []

INVALID_PARAMETER = 4
NOPE = 'TST_Nope'
ONLY0 = 'TST_Only0'
ROLE_POOL = ['Left', 'Right', 'Ante', 'Dep', 'Group', 'Part', 'Owner',
             'Third']
NS_POOL = ['root/cimv2', 'root/b', 'root/c']
FILTER_NAMES = ('AssocClass', 'ResultClass', 'Role', 'ResultRole')

_I100 = st.integers(0, 99)


def fail_exc_mock(ctx, exc, what):
    """
    Like ctx.fail_exc, but the signature names the innermost frame inside
    pywbem_mock (where the traversal code lives) instead of the innermost
    pywbem frame (often a generic __eq__ of pywbem._cim_obj).
    """
    import os
    import re
    import traceback
    if exc_signature(exc) is None:
        raise exc
    mockdir = os.path.join(os.path.realpath(REPO), 'pywbem_mock') + os.sep
    inner = None
    for fr in traceback.extract_tb(exc.__traceback__):
        if os.path.realpath(fr.filename).startswith(mockdir):
            inner = fr
    if inner is None:
        ctx.fail_exc(exc, what)
        return
    line = re.sub(r'\s+', '', (inner.line or '').strip())[:50]
    ctx.fail(slug('%s:%s@%s:%s:%s' % (
        what, type(exc).__name__, os.path.basename(inner.filename)[:-3],
        inner.name, line), 150), exc_detail(exc))


# ---------------------------------------------------------------------------
# helpers on the recipe

def _pick(draw, seq):
    return seq[draw(st.integers(0, len(seq) - 1))]


def _chance(draw, pct):
    return draw(_I100) < pct


def _case(name, mode):
    if mode == 'lower':
        return name.lower()
    if mode == 'upper':
        return name.upper()
    if mode == 'swap':
        return name.swapcase()
    return name


_CASES = ['exact', 'exact', 'exact', 'lower', 'upper', 'swap']


def is_sub(classes, ci, anc):
    while ci is not None:
        if ci == anc:
            return True
        ci = classes[ci]['super']
    return False


def chain(classes, ci):
    "root ... ci"
    out = []
    while ci is not None:
        out.append(ci)
        ci = classes[ci]['super']
    return list(reversed(out))


def exposed_refs(classes, ci):
    "[(role, refclass idx, is_key)] of class ci with overrides applied"
    out = []
    for c in chain(classes, ci):
        for role, rc, key, ov in classes[c]['refs']:
            for i, old in enumerate(out):
                if old[0].lower() == role.lower():
                    out[i] = (old[0], rc, old[2])
                    break
            else:
                out.append((role, rc, key))
    return out


def root_of(classes, ci):
    return chain(classes, ci)[0]


def subtree(classes, ci):
    return [j for j in range(len(classes)) if is_sub(classes, j, ci)]


# ---------------------------------------------------------------------------
# generator

def _g_graph(draw, profile='general', max_nodes=30, max_links=25):
    nss = [NS_POOL[0]]
    if _chance(draw, 55):
        nss.append(NS_POOL[1])
        if _chance(draw, 20):
            nss.append(NS_POOL[2])
    classes = []
    # end-point classes
    n_node = _pick(draw, [1, 2, 2, 3, 3, 4, 5, 6])
    for i in range(n_node):
        sup = None
        if i > 0 and _chance(draw, 65):
            cands = [j for j in range(i) if len(chain(classes, j)) < 3]
            if cands:
                sup = _pick(draw, cands)
        kt = None
        if sup is None:
            kt = _pick(draw, ['string', 'string', 'uint32'])
        classes.append({'name': 'TST_Node%d' % i, 'super': sup,
                        'assoc': False, 'keytype': kt, 'idkey': False,
                        'refs': [], 'only0': False})
    node_classes = list(range(n_node))
    # association classes
    n_assoc = _pick(draw, [1, 2, 2, 3, 3, 4, 5])
    null_shapes = ['kkn', 'id2', 'id3']
    for j in range(n_assoc):
        sup = None
        acls = [k for k, c in enumerate(classes) if c['assoc']]
        if acls and _chance(draw, 45):
            sup = _pick(draw, acls)
        refs = []
        idkey = False
        if sup is None:
            if profile == 'nullends' and j == 0:
                shape = _pick(draw, null_shapes)
            else:
                shape = _pick(draw, ['kk', 'kk', 'kk', 'kkk', 'kkn', 'id2',
                                     'id3'])
            idkey = shape.startswith('id')
            if idkey:
                keys = [False] * int(shape[2])
            else:
                keys = [c == 'k' for c in shape]
            roles = list(ROLE_POOL)
            for key in keys:
                role = roles.pop(draw(st.integers(0, len(roles) - 1)))
                rc = _pick(draw, node_classes)
                if _chance(draw, 60):
                    rc = root_of(classes, rc)
                refs.append((role, rc, key, False))
        else:
            inh = exposed_refs(classes, sup)
            used = set(r[0].lower() for r in inh)
            if len(inh) < 3 and _chance(draw, 40):
                roles = [r for r in ROLE_POOL if r.lower() not in used]
                role = _pick(draw, roles)
                refs.append((role, _pick(draw, node_classes), False, False))
            if _chance(draw, 30):
                role, rc, key = _pick(draw, inh)
                narrower = [k for k in node_classes
                            if k != rc and is_sub(classes, k, rc)]
                if narrower:
                    refs.append((role, _pick(draw, narrower), key, True))
        classes.append({'name': 'TST_Link%d' % j, 'super': sup,
                        'assoc': True, 'keytype': None, 'idkey': idkey,
                        'refs': refs, 'only0': False})
    assoc_classes = [k for k, c in enumerate(classes) if c['assoc']]
    classes.append({'name': ONLY0, 'super': None, 'assoc': False,
                    'keytype': 'string', 'idkey': False, 'refs': [],
                    'only0': True})

    # end-point instances
    n_nodes = min(max_nodes, _pick(draw, [2, 3, 4, 5, 6, 6, 8, 8, 10, 12, 15,
                                          20, 30]))
    nodes = []
    seen = set()
    for k in range(n_nodes):
        nsi = draw(st.integers(0, len(nss) - 1))
        ci = _pick(draw, node_classes)
        kt = classes[root_of(classes, ci)]['keytype']
        if kt == 'uint32':
            val = k
        else:
            val = 'n%d' % k
            if k > 0 and _chance(draw, 12):
                # same key value as another node, or differing only in case
                other = nodes[draw(st.integers(0, len(nodes) - 1))]
                if isinstance(other[2], str):
                    val = other[2].upper() if _chance(draw, 50) else other[2]
        if (nsi, ci, val) in seen:
            continue
        seen.add((nsi, ci, val))
        nodes.append((nsi, ci, val))

    # association instances
    n_links = min(max_links, _pick(draw, [0, 1, 2, 3, 4, 5, 6, 8, 10, 12, 16,
                                          20, 25]))
    p_null, p_absent = (30, 42) if profile == 'general' else (55, 65)
    links = []
    seen = set()
    for li in range(n_links):
        if profile == 'nullends' and _chance(draw, 60):
            ci = assoc_classes[0]
        else:
            ci = _pick(draw, assoc_classes)
        refs = exposed_refs(classes, ci)
        home = draw(st.integers(0, len(nss) - 1))
        ends = []
        ok = True
        for role, rc, key in refs:
            if not key:
                r = draw(_I100)
                if r < p_null:
                    ends.append((role, None, False))
                    continue
                if r < p_absent:
                    continue
            here = [k for k, n in enumerate(nodes)
                    if n[0] == home and is_sub(classes, n[1], rc)]
            there = [k for k, n in enumerate(nodes)
                     if n[0] != home and is_sub(classes, n[1], rc)]
            cands = here
            if there and (not here or _chance(draw, 25)):
                cands = there
            if not cands:
                if key:
                    ok = False
                    break
                ends.append((role, None, False))
                continue
            r = draw(_I100)
            if _chance(draw, 50):
                idx = r % min(len(cands), 3)
            else:
                idx = r % len(cands)
            ends.append((role, cands[idx], _chance(draw, 8)))
        if not ok:
            continue
        # self loop: two ends on the same instance
        real = [i for i, e in enumerate(ends) if e[1] is not None]
        if len(real) >= 2 and _chance(draw, 10):
            a, b = real[0], real[1]
            rc_b = [r for r in refs if r[0] == ends[b][0]][0][1]
            if is_sub(classes, nodes[ends[a][1]][1], rc_b):
                ends[b] = (ends[b][0], ends[a][1], ends[b][2])
        aid = None
        if classes[root_of(classes, ci)]['idkey']:
            aid = 'a%d' % li
            ident = (ci, aid)
        else:
            keyroles = set(r[0] for r in refs if r[2])
            ident = (ci, tuple((e[0], e[1]) for e in ends
                               if e[0] in keyroles))
        if ident in seen:
            continue
        seen.add(ident)
        local = all(e[1] is None or nodes[e[1]][0] == home for e in ends)
        route = 'add' if local and _chance(draw, 25) else 'create'
        links.append({'cls': ci, 'home': home, 'route': route, 'aid': aid,
                      'ends': ends})
    return {'nss': nss, 'classes': classes, 'nodes': nodes, 'links': links}


def _related(g, src):
    """
    Names related to a source: association classes, far-end classes, own
    roles, far-end roles (recipe based; only steers the generator).
    """
    classes = g['classes']
    racls, rncls, roles, froles = [], [], [], []
    if src[0] != 'n':
        return racls, rncls, roles, froles
    for ln in g['links']:
        mine = [e for e in ln['ends'] if e[1] == src[1]]
        if not mine:
            continue
        racls.extend(chain(classes, ln['cls']))
        racls.extend(subtree(classes, ln['cls']))
        for e in ln['ends']:
            if e[1] == src[1]:
                roles.append(e[0])
            if e[1] is not None and e[1] != src[1]:
                froles.append(e[0])
                rncls.extend(chain(classes, g['nodes'][e[1]][1]))
    return racls, rncls, roles, froles


def _g_filter(draw, g, src):
    classes = g['classes']
    acls = [k for k, c in enumerate(classes) if c['assoc']]
    ncls = [k for k, c in enumerate(classes)
            if not c['assoc'] and not c['only0']]
    racls, rncls, roles, froles = _related(g, src)

    def g_class(rel, own, other):
        r = draw(_I100)
        if r < 35:
            return None
        if r < 65 and rel:
            name = classes[_pick(draw, rel)]['name']
        elif r < 80:
            name = classes[_pick(draw, own)]['name']
        elif r < 86:
            name = classes[_pick(draw, other)]['name']
        elif r < 93:
            name = NOPE
        else:
            name = ONLY0
        return _case(name, _pick(draw, _CASES))

    def g_role(rel):
        r = draw(_I100)
        if r < 40:
            return None
        if r < 70 and rel:
            name = _pick(draw, rel)
        elif r < 86:
            name = _pick(draw, ROLE_POOL)
        elif r < 93:
            name = _pick(draw, ['AId', 'Id'])
        else:
            name = 'NoSuchRole'
        return _case(name, _pick(draw, _CASES))

    return (g_class(racls, acls, ncls), g_class(rncls, ncls, acls),
            g_role(roles), g_role(froles))


def _g_queries(draw, g, nq):
    linked = sorted(set(e[1] for ln in g['links'] for e in ln['ends']
                        if e[1] is not None))
    queries = []
    for _ in range(nq):
        r = draw(_I100)
        if r < 70 and linked:
            src = ('n', _pick(draw, linked))
        elif r < 94 or not g['links']:
            src = ('n', draw(st.integers(0, len(g['nodes']) - 1)))
        else:
            src = ('l', draw(st.integers(0, len(g['links']) - 1)))
        queries.append({'src': src, 'form': _pick(draw, [0, 0, 0, 1, 2]),
                        'f': _g_filter(draw, g, src),
                        'kw': _pick(draw, [0, 0, 0, 1, 2, 3, 4])})
    return queries


def instance_strategy(profile='general', max_nodes=30, max_links=25,
                      nq=(4, 20)):
    @st.composite
    def strat(draw):
        g = _g_graph(draw, profile, max_nodes, max_links)
        g['queries'] = _g_queries(draw, g, draw(st.integers(*nq)))
        return g
    return strat


def pull_strategy():
    @st.composite
    def strat(draw):
        g = _g_graph(draw, 'general', 12, 12)
        g['queries'] = _g_queries(draw, g, draw(st.integers(2, 6)))
        for q in g['queries']:
            q['moc'] = _pick(draw, [1, 1, 2, 3, 5])
        return g
    return strat


def class_strategy():
    @st.composite
    def strat(draw):
        g = _g_graph(draw, 'general', 4, 3)
        classes = g['classes']
        acls = [k for k, c in enumerate(classes) if c['assoc']]
        ncls = [k for k, c in enumerate(classes)
                if not c['assoc'] and not c['only0']]
        qs = []
        for nsi in range(len(g['nss'])):
            for ci, c in enumerate(classes):
                if c['only0'] and nsi != 0:
                    continue
                for k in range(3):
                    if k == 0:
                        f = (None, None, None, None)
                    else:
                        f = _g_filter(draw, g, ('c', ci))
                        # make related names likely: the generic draw knows
                        # nothing about a class source
                        if _chance(draw, 40):
                            a = classes[_pick(draw, acls)]
                            f = (_case(a['name'], _pick(draw, _CASES)),) + \
                                f[1:]
                            if a['refs'] and _chance(draw, 60):
                                role = _pick(draw, a['refs'])[0]
                                f = f[:2] + (_case(role,
                                                   _pick(draw, _CASES)),
                                             f[3])
                    qs.append({'ns': nsi, 'cls': ci, 'f': f,
                               'form': _pick(draw, [0, 0, 1, 2]),
                               'kw': _pick(draw, [0, 0, 1, 2, 3])})
        g['queries'] = qs
        g['ncls'] = ncls
        return g
    return strat


# ---------------------------------------------------------------------------
# building the repository through the public API

def _keyq():
    return [CIMQualifier('Key', True)]


def build_class(g, ci):
    c = g['classes'][ci]
    props = []
    if c['keytype'] is not None:
        props.append(CIMProperty('Id', None, type=c['keytype'],
                                 qualifiers=_keyq()))
    if c['idkey']:
        props.append(CIMProperty('AId', None, type='string',
                                 qualifiers=_keyq()))
    for role, rc, key, ov in c['refs']:
        quals = _keyq() if key else []
        if ov:
            quals.append(CIMQualifier('Override', role))
        props.append(CIMProperty(role, None, type='reference',
                                 reference_class=g['classes'][rc]['name'],
                                 qualifiers=quals))
    if c['assoc']:
        props.append(CIMProperty('Note%d' % ci, None, type='string'))
    quals = []
    if c['assoc']:
        quals.append(CIMQualifier('Association', True))
    sup = g['classes'][c['super']]['name'] if c['super'] is not None else None
    return CIMClass(c['name'], properties=props, superclass=sup,
                    qualifiers=quals)


def node_path(g, ni, casevariant=False):
    nsi, ci, val = g['nodes'][ni]
    c = g['classes'][ci]
    kt = g['classes'][root_of(g['classes'], ci)]['keytype']
    v = Uint32(val) if kt == 'uint32' else val
    if casevariant:
        return CIMInstanceName(c['name'].swapcase(), {'ID': v},
                               namespace=g['nss'][nsi])
    return CIMInstanceName(c['name'], {'Id': v}, namespace=g['nss'][nsi])


def build_node(g, ni):
    nsi, ci, val = g['nodes'][ni]
    kt = g['classes'][root_of(g['classes'], ci)]['keytype']
    return CIMInstance(g['classes'][ci]['name'], properties=[
        CIMProperty('Id', Uint32(val) if kt == 'uint32' else val, type=kt)])


def build_link(g, li, with_path=False):
    ln = g['links'][li]
    c = g['classes'][ln['cls']]
    props = []
    if ln['aid'] is not None:
        props.append(CIMProperty('AId', ln['aid'], type='string'))
    for role, ni, cv in ln['ends']:
        val = None if ni is None else node_path(g, ni, cv)
        props.append(CIMProperty(role, val, type='reference'))
    props.append(CIMProperty('Note%d' % root_of(g['classes'], ln['cls']),
                             'l%d' % li, type='string'))
    inst = CIMInstance(c['name'], properties=props)
    if with_path:
        inst.path = link_path(g, li, ln['home'])
    return inst


def link_path(g, li, nsi):
    ln = g['links'][li]
    kbs = {}
    if ln['aid'] is not None:
        kbs['AId'] = ln['aid']
    else:
        keyroles = set(r[0] for r in exposed_refs(g['classes'], ln['cls'])
                       if r[2])
        for role, ni, cv in ln['ends']:
            if role in keyroles:
                kbs[role] = node_path(g, ni, cv)
    return CIMInstanceName(g['classes'][ln['cls']]['name'], kbs,
                           namespace=g['nss'][nsi])


def link_has_null(ln):
    return any(e[1] is None for e in ln['ends'])


def materialize(ctx, g):
    """
    Returns (conn, created) with created[li] True for the association
    instances that exist.  A failing creation of a valid association instance
    is reported and the instance left out.
    """
    conn = pywbem_mock.FakedWBEMConnection(default_namespace=g['nss'][0])
    qdecls, _ = R.base_objects()
    for nsi, ns in enumerate(g['nss']):
        if nsi:
            conn.add_namespace(ns)
        conn.add_cimobjects([q.copy() for q in qdecls], namespace=ns)
        for ci, c in enumerate(g['classes']):
            if c['only0'] and nsi:
                continue
            conn.CreateClass(build_class(g, ci), namespace=ns)
    for ni, n in enumerate(g['nodes']):
        conn.CreateInstance(build_node(g, ni), namespace=g['nss'][n[0]])
    created = []
    for li, ln in enumerate(g['links']):
        what = 'null-end:create-assoc' if link_has_null(ln) \
            else 'create-assoc'
        try:
            if ln['route'] == 'add':
                conn.add_cimobjects(build_link(g, li, True),
                                    namespace=g['nss'][ln['home']])
            else:
                conn.CreateInstance(build_link(g, li),
                                    namespace=g['nss'][ln['home']])
            created.append(True)
        except CIMError as exc:
            ctx.fail('%s:valid-association-rejected:%s' %
                     (what, exc.status_code_name),
                     'link %d %r: %s' % (li, ln, exc))
            created.append(False)
        except Exception as exc:  # pylint: disable=broad-except
            fail_exc_mock(ctx, exc, what)
            created.append(False)
    return conn, created


# ---------------------------------------------------------------------------
# canonical identities and the model read back from the repository

def vkey(v):
    if isinstance(v, CIMInstanceName):
        return pkey(v)
    if isinstance(v, bool):
        return ('b', v)
    if isinstance(v, int):
        return ('n', int(v))
    return ('s', str(v))


def pkey(path, default_ns=None):
    "CIM identity of an instance path (host not included)"
    ns = path.namespace if path.namespace is not None else default_ns
    return (ns.lower() if ns is not None else None, path.classname.lower(),
            tuple(sorted((k.lower(), vkey(v))
                         for k, v in path.keybindings.items())))


def ckey(cpath):
    return (cpath.namespace.lower() if cpath.namespace else None,
            cpath.classname.lower())


class Model:
    """
    Association instances as read back with EnumerateInstances, and the class
    forest of the recipe.
    """

    def __init__(self, ctx, conn, g):
        self.g = g
        classes = g['classes']
        self.lname = [c['name'].lower() for c in classes]
        self.sub = {}      # lower class name -> set of lower names (subtree)
        for ci, c in enumerate(classes):
            self.sub[c['name'].lower()] = set(
                self.lname[j] for j in subtree(classes, ci))
        self.stored = {}   # ns -> [(pathkey, lclass, [(lrole, vkey|None)])]
        self.has_null = {}
        self.readable = True
        for ns in g['nss']:
            rows = []
            null = False
            for ci, c in enumerate(classes):
                if not c['assoc']:
                    continue
                try:
                    insts = conn.EnumerateInstances(
                        c['name'], namespace=ns, DeepInheritance=True,
                        LocalOnly=False)
                except Exception as exc:  # pylint: disable=broad-except
                    fail_exc_mock(ctx, exc, 'read-assoc-instances')
                    self.readable = False
                    continue
                for inst in insts:
                    if inst.classname.lower() != c['name'].lower():
                        continue
                    refs = []
                    for p in inst.properties.values():
                        if p.type == 'reference':
                            if p.value is None:
                                null = True
                                refs.append((p.name.lower(), None))
                            else:
                                refs.append((p.name.lower(),
                                             pkey(p.value, ns)))
                    rows.append((pkey(inst.path, ns), c['name'].lower(),
                                 refs))
            self.stored[ns] = rows
            self.has_null[ns] = null

    def class_exists(self, ns, name):
        ln = name.lower()
        if ln == ONLY0.lower():
            return ns == self.g['nss'][0]
        return ln in self.sub

    def subtree(self, name):
        return self.sub.get(name.lower(), set())

    def references(self, xkey, ns, rc, role):
        out = set()
        rcs = self.subtree(rc) if rc is not None else None
        role = role.lower() if role is not None else None
        for pk, cls, refs in self.stored[ns]:
            if rcs is not None and cls not in rcs:
                continue
            for rn, vk in refs:
                if vk == xkey and (role is None or rn == role):
                    out.add(pk)
                    break
        return out

    def associators(self, xkey, f, witnesses=None):
        ac, rc, role, rrole = f
        acs = self.subtree(ac) if ac is not None else None
        rcs = self.subtree(rc) if rc is not None else None
        role = role.lower() if role is not None else None
        rrole = rrole.lower() if rrole is not None else None
        out = set()
        for ns in self.g['nss']:
            for pk, cls, refs in self.stored[ns]:
                if acs is not None and cls not in acs:
                    continue
                for i, (pn, pv) in enumerate(refs):
                    if pv != xkey or (role is not None and pn != role):
                        continue
                    for j, (qn, qv) in enumerate(refs):
                        if j == i or qv is None or qv == xkey:
                            continue
                        if rrole is not None and qn != rrole:
                            continue
                        if rcs is not None and qv[1] not in rcs:
                            continue
                        out.add(qv)
                        if witnesses is not None:
                            witnesses.setdefault(qv, []).append(
                                (ns, pk, cls, refs))
        return out


# ---------------------------------------------------------------------------
# calling the operations

class Caller:
    "Runs operations, caches Names results, reports foreign exceptions once"

    def __init__(self, ctx, conn, model, g):
        self.ctx = ctx
        self.conn = conn
        self.model = model
        self.g = g
        self.cache = {}

    def run(self, opname, src, ns, **kw):
        """
        ('ok', result) | ('err', status code) | ('exc', None).  A non-CIMError
        exception is reported (the property never allows one).
        """
        kw = dict((k, v) for k, v in kw.items() if v is not None)
        try:
            return 'ok', getattr(self.conn, opname)(src, **kw)
        except CIMError as exc:
            return 'err', exc.status_code
        except Exception as exc:  # pylint: disable=broad-except
            if exc_signature(exc) is None:
                raise
            what = 'traverse'
            if ns is not None and self.model.has_null.get(ns):
                what = 'null-end:traverse'
            fail_exc_mock(self.ctx, exc, what)
            return 'exc', None

    def assoc_names(self, xk, src, ns, f):
        key = ('AN', xk, f)
        if key not in self.cache:
            st_, res = self.run('AssociatorNames', src, ns, AssocClass=f[0],
                                ResultClass=f[1], Role=f[2], ResultRole=f[3])
            if st_ == 'ok':
                res = [(pkey(p, ns), p.host) for p in res]
            self.cache[key] = (st_, res)
        return self.cache[key]

    def ref_names(self, xk, src, ns, rc, role):
        key = ('RN', xk, rc, role)
        if key not in self.cache:
            st_, res = self.run('ReferenceNames', src, ns, ResultClass=rc,
                                Role=role)
            if st_ == 'ok':
                res = [(pkey(p, ns), p.host) for p in res]
            self.cache[key] = (st_, res)
        return self.cache[key]


_KW = [{}, {'PropertyList': []}, {'PropertyList': ['Id', 'AId']},
       {'IncludeQualifiers': True}, {'IncludeClassOrigin': True}]


def keys_of(pairs):
    return sorted(k for k, _ in pairs)


def _fmt(f):
    return ','.join('%s=%s' % (n, v) for n, v in zip(FILTER_NAMES, f)
                    if v is not None) or 'nofilter'


def _src_path(g, src, form):
    if src[0] == 'n':
        p = node_path(g, src[1], casevariant=(form == 2))
        nsi = g['nodes'][src[1]][0]
    else:
        nsi = g['links'][src[1]]['home']
        p = link_path(g, src[1], nsi)
    if form == 1 and nsi == 0:
        p.namespace = None
    return p, g['nss'][nsi]


def _expected_error(model, ns, names):
    "a class filter that does not exist in the target namespace"
    return any(n is not None and not model.class_exists(ns, n)
               for n in names)


def _gfp(g):
    core = (g['nss'], g['classes'], g['nodes'], g['links'])
    return hashlib.sha1(repr(core).encode()).hexdigest()[:12]


def _graph_classes(g, created):
    classes = g['classes']
    out = ['graph:ns=%d' % len(g['nss'])]
    n = len(g['nodes'])
    out.append('graph:nodes:' + ('2-5' if n <= 5 else '6-12' if n <= 12
                                 else '13-30'))
    nl = len(g['links'])
    out.append('graph:links:' + ('0' if nl == 0 else '1-5' if nl <= 5
                                 else '6-12' if nl <= 12 else '13-25'))
    if any(c['assoc'] and c['super'] is not None for c in classes):
        out.append('graph:assoc-subclass')
    if any(r[3] for c in classes for r in c['refs']):
        out.append('graph:ref-override')
    if any(len(exposed_refs(classes, ci)) >= 3
           for ci, c in enumerate(classes) if c['assoc']):
        out.append('graph:ternary-class')
    for ln in g['links']:
        real = [e for e in ln['ends'] if e[1] is not None]
        nrefs = len(exposed_refs(classes, ln['cls']))
        if len(real) >= 3:
            out.append('link:three-ends')
        if link_has_null(ln):
            out.append('link:null-end:' + ln['route'])
        if len(ln['ends']) < nrefs:
            out.append('link:absent-end')
        nsset = set(g['nodes'][e[1]][0] for e in real)
        if len(nsset) > 1 or (nsset and ln['home'] not in nsset):
            out.append('link:cross-namespace')
        if len(set(e[1] for e in real)) < len(real):
            out.append('link:self-loop')
        elif len(set(g['nodes'][e[1]][1] for e in real)) < len(real):
            out.append('link:same-class-ends')
        if classes[ln['cls']]['super'] is not None:
            out.append('link:of-assoc-subclass')
        if any(e[2] for e in ln['ends']):
            out.append('link:case-variant-reference')
        if ln['route'] == 'add':
            out.append('link:route-add')
    out = sorted(set(out))
    return out


def _special_nodes(g):
    "nodes taking part in a cross-ns / ternary / null-ended / same-class link"
    out = set()
    for ln in g['links']:
        real = [e for e in ln['ends'] if e[1] is not None]
        nsset = set(g['nodes'][e[1]][0] for e in real)
        special = (len(nsset) > 1 or len(real) >= 3 or link_has_null(ln) or
                   len(set(g['nodes'][e[1]][1] for e in real)) < len(real))
        if special:
            out.update(e[1] for e in real)
    return out


# ---------------------------------------------------------------------------
# instance-level oracle

def _blame_extra(model, xk, f, y):
    "which single filter, if dropped from the model, explains an extra y"
    for i, name in enumerate(FILTER_NAMES):
        if f[i] is None:
            continue
        g = f[:i] + (None,) + f[i + 1:]
        if y in model.associators(xk, g):
            return name + '-not-applied'
    if y == xk:
        return 'source-itself-returned'
    return 'not-associated-at-all'


def _check_assoc(ctx, model, caller, xk, src, ns, f, tag):
    """
    AssociatorNames(x, f) against the raw data; returns the key list or None.
    """
    st_, res = caller.assoc_names(xk, src, ns, f)
    if st_ == 'exc':
        return None
    bad = _expected_error(model, ns, f[:2])
    if bad:
        if st_ != 'err' or res != INVALID_PARAMETER:
            ctx.fail('filter-class-not-found:AssociatorNames:%s' %
                     ('returns-a-result' if st_ == 'ok' else
                      'status-%s' % res),
                     '%s %s in %s -> %r' % (tag, _fmt(f), ns, (st_, res)))
        return None
    if st_ == 'err':
        ctx.fail('AssociatorNames:CIMError-%s-for-existing-names' % res,
                 '%s %s in %s' % (tag, _fmt(f), ns))
        return None
    got = set(k for k, _ in res)
    wit = {}
    exp = model.associators(xk, f, wit)
    if got != exp:
        for y in sorted(got - exp):
            ctx.fail('raw:AssociatorNames:extra:' +
                     _blame_extra(model, xk, f, y),
                     '%s %s: %r returned but no stored association instance '
                     'links it' % (tag, _fmt(f), y))
            break
        for y in sorted(exp - got):
            w = wit[y][0]
            why = 'unclassified'
            if any(v is None for _, v in w[3]):
                why = 'witness-has-null-end'
            elif y[0] != xk[0]:
                why = 'cross-namespace'
            else:
                # is it there without filters?
                s0, r0 = caller.assoc_names(xk, src, ns, (None,) * 4)
                if s0 == 'ok' and y in set(k for k, _ in r0):
                    why = 'filter-too-strict'
                    for i, name in enumerate(FILTER_NAMES):
                        if f[i] is None:
                            continue
                        h = f[:i] + (None,) + f[i + 1:]
                        s1, r1 = caller.assoc_names(xk, src, ns, h)
                        if s1 == 'ok' and y in set(k for k, _ in r1):
                            why = name + '-too-strict'
                            break
                elif len(w[3]) >= 3:
                    why = 'ternary'
            ctx.fail('raw:AssociatorNames:missing:' + why,
                     '%s %s: %r not returned, witness %r' %
                     (tag, _fmt(f), y, w))
            break
    return res


def _check_refs(ctx, model, caller, xk, src, ns, rc, role, tag):
    st_, res = caller.ref_names(xk, src, ns, rc, role)
    if st_ == 'exc':
        return None
    if _expected_error(model, ns, (rc,)):
        if st_ != 'err' or res != INVALID_PARAMETER:
            ctx.fail('filter-class-not-found:ReferenceNames:%s' %
                     ('returns-a-result' if st_ == 'ok' else
                      'status-%s' % res),
                     '%s ResultClass=%s in %s -> %r' % (tag, rc, ns,
                                                        (st_, res)))
        return None
    if st_ == 'err':
        ctx.fail('ReferenceNames:CIMError-%s-for-existing-names' % res,
                 '%s ResultClass=%s Role=%s in %s' % (tag, rc, role, ns))
        return None
    got = set(k for k, _ in res)
    exp = model.references(xk, ns, rc, role)
    if got != exp:
        for y in sorted(got - exp):
            why = 'not-referencing-at-all'
            if y[0] != ns.lower():
                why = 'path-in-other-namespace'
            elif role is not None and y in model.references(xk, ns, rc, None):
                why = 'Role-not-applied'
            elif rc is not None and y in model.references(xk, ns, None, role):
                why = 'ResultClass-not-applied'
            ctx.fail('raw:ReferenceNames:extra:' + why,
                     '%s ResultClass=%s Role=%s: %r' % (tag, rc, role, y))
            break
        for y in sorted(exp - got):
            why = 'unclassified'
            s0, r0 = caller.ref_names(xk, src, ns, None, None)
            if s0 == 'ok' and y in set(k for k, _ in r0):
                why = 'filter-too-strict'
                if rc is not None:
                    s1, r1 = caller.ref_names(xk, src, ns, None, role)
                    if s1 == 'ok' and y in set(k for k, _ in r1):
                        why = 'ResultClass-too-strict'
                if role is not None and why == 'filter-too-strict':
                    s1, r1 = caller.ref_names(xk, src, ns, rc, None)
                    if s1 == 'ok' and y in set(k for k, _ in r1):
                        why = 'Role-too-strict'
            ctx.fail('raw:ReferenceNames:missing:' + why,
                     '%s ResultClass=%s Role=%s: %r' % (tag, rc, role, y))
            break
    return res


def _check_full(ctx, caller, names, opname, src, ns, tag, kw, **filters):
    """
    Associators/References against the Names result of the same request.
    """
    st_, res = caller.run(opname, src, ns, **dict(filters, **kw))
    short = 'Associators' if opname == 'Associators' else 'References'
    nshort = short[:-1] + 'Names'
    if st_ == 'exc' or names is None:
        return
    nst, nres = names
    if nst == 'exc':
        return
    if st_ != nst or (st_ == 'err' and res != nres):
        ctx.fail('names-vs-full:%s-and-%s-differ-in-outcome' % (nshort,
                                                                  short),
                 '%s: %s %r, %s %r' % (tag, nshort, (nst, nres), short,
                                       (st_, res if st_ == 'err' else '...')))
        return
    if st_ == 'err':
        return
    nopath = [i for i in res if i.path is None]
    if nopath:
        ctx.fail('names-vs-full:%s-returns-instance-without-path' % short,
                 tag)
        return
    full = [(pkey(i.path, ns), i.path.host) for i in res]
    if keys_of(full) != keys_of(nres):
        ctx.fail('names-vs-full:%s!=paths-of-%s' % (nshort, short),
                 '%s: names %r full %r' % (tag, keys_of(nres),
                                           keys_of(full)))
        return
    if sorted(full) != sorted(nres):
        hosts_n = sorted(set(str(h) for _, h in nres))
        hosts_f = sorted(set(str(h) for _, h in full))
        ctx.fail('names-vs-full:host-of-%s-paths-differs-from-%s' %
                 (short, nshort),
                 '%s: hosts of names %r, hosts of full %r' %
                 (tag, hosts_n, hosts_f))


def _relaxations(f):
    out = []
    for i in range(len(f)):
        if f[i] is not None:
            out.append((i, f[:i] + (None,) + f[i + 1:]))
    return out


def _instance_query(ctx, g, model, caller, q, special, gfp, qi):
    src, ns = _src_path(g, q['src'], q['form'])
    xk = pkey(src, g['nss'][0])
    f = tuple(q['f'])
    kw = _KW[q['kw']]
    tag = 'src=%s' % (src,)
    classes = ['q:' + n + ':' + ('none' if v is None else
                                 'nonexistent' if v.lower() in
                                 (NOPE.lower(), 'nosuchrole') else
                                 'only-other-ns' if v.lower() == ONLY0.lower()
                                 else 'given')
               for n, v in zip(FILTER_NAMES, f)]
    classes.append('q:srcform:%d' % q['form'])
    classes.append('q:src:' + ('node' if q['src'][0] == 'n' else 'assoc'))

    res = _check_assoc(ctx, model, caller, xk, src, ns, f, tag)
    _check_full(ctx, caller, caller.assoc_names(xk, src, ns, f),
                'Associators', src, ns, tag + ' ' + _fmt(f), kw,
                AssocClass=f[0], ResultClass=f[1], Role=f[2],
                ResultRole=f[3])
    rres = _check_refs(ctx, model, caller, xk, src, ns, f[0], f[2], tag)
    _check_full(ctx, caller, caller.ref_names(xk, src, ns, f[0], f[2]),
                'References', src, ns,
                tag + ' ResultClass=%s Role=%s' % (f[0], f[2]), kw,
                ResultClass=f[0], Role=f[2])

    # monotonicity: dropping one filter never removes results
    nontrivial = False
    if res is not None:
        got = set(k for k, _ in res)
        for i, h in _relaxations(f):
            r2 = _check_assoc(ctx, model, caller, xk, src, ns, h, tag)
            if r2 is None:
                continue
            wider = set(k for k, _ in r2)
            if not got <= wider:
                ctx.fail('monotonic:AssociatorNames:adding-%s-adds-results' %
                         FILTER_NAMES[i],
                         '%s %s: %r not in result of %s' %
                         (tag, _fmt(f), sorted(got - wider), _fmt(h)))
        s0, r0 = caller.assoc_names(xk, src, ns, (None,) * 4)
        if s0 == 'ok':
            n0 = len(set(k for k, _ in r0))
            if n0 >= 2 and 0 < len(got) < n0:
                nontrivial = True
                classes.append('q:proper-nonempty-subset')
        classes.append('q:result:' + ('empty' if not got else 'nonempty'))
    else:
        classes.append('q:result:error-or-exception')
    if rres is not None:
        got = set(k for k, _ in rres)
        for rc, role, name in ((None, f[2], 'ResultClass'),
                               (f[0], None, 'Role')):
            if (rc, role) == (f[0], f[2]):
                continue
            r2 = _check_refs(ctx, model, caller, xk, src, ns, rc, role, tag)
            if r2 is None:
                continue
            wider = set(k for k, _ in r2)
            if not got <= wider:
                ctx.fail('monotonic:ReferenceNames:adding-%s-adds-results' %
                         name, '%s ResultClass=%s Role=%s: %r' %
                         (tag, f[0], f[2], sorted(got - wider)))
    if q['src'][0] == 'n' and q['src'][1] in special:
        nontrivial = True
        classes.append('q:special-source')
    ctx.case(key=(gfp, 'q', qi), nontrivial=nontrivial, classes=classes)


def _unfiltered_pass(ctx, g, model, caller, special, gfp):
    """
    Every end-point instance without filters: the four operations, agreement
    with the raw data, and symmetry.
    """
    nof = (None,) * 4
    results = {}
    for ni in range(len(g['nodes'])):
        src, ns = _src_path(g, ('n', ni), 0)
        xk = pkey(src)
        tag = 'src=%s' % (src,)
        res = _check_assoc(ctx, model, caller, xk, src, ns, nof, tag)
        _check_full(ctx, caller, caller.assoc_names(xk, src, ns, nof),
                    'Associators', src, ns, tag + ' nofilter', {})
        _check_refs(ctx, model, caller, xk, src, ns, None, None, tag)
        _check_full(ctx, caller, caller.ref_names(xk, src, ns, None, None),
                    'References', src, ns, tag + ' nofilter', {})
        if res is not None:
            results[xk] = set(k for k, _ in res)
        ctx.case(key=(gfp, 'u', ni), nontrivial=ni in special,
                 classes=('q:unfiltered',))
    for xk in sorted(results):
        for yk in sorted(results[xk]):
            if yk in results and xk not in results[yk]:
                ctx.fail('symmetry:unfiltered:%s' %
                         ('cross-namespace' if xk[0] != yk[0] else
                          'same-namespace'),
                         '%r is an associator of %r but not the reverse' %
                         (yk, xk))


def instance_oracle(ctx, g):
    conn, created = materialize(ctx, g)
    model = Model(ctx, conn, g)
    for c in _graph_classes(g, created):
        ctx.event(c)
    if not model.readable:
        ctx.case(key=(_gfp(g), 'unreadable'), classes=('graph:unreadable',))
        return
    caller = Caller(ctx, conn, model, g)
    special = _special_nodes(g)
    gfp = _gfp(g)
    _unfiltered_pass(ctx, g, model, caller, special, gfp)
    for qi, q in enumerate(g['queries']):
        if q['src'][0] == 'l' and not created[q['src'][1]]:
            continue
        _instance_query(ctx, g, model, caller, q, special, gfp, qi)


# ---------------------------------------------------------------------------
# Open/Pull and Iter variants

def _pull_all(caller, first, pullname, moc, ns):
    "drain an open enumeration; returns list of objects or None"
    objs = list(first[0])
    eos, context = first.eos, first.context
    n = 0
    while not eos:
        n += 1
        if n > 200:
            caller.ctx.fail('variant:%s:enumeration-does-not-end' % pullname,
                            'more than 200 pulls')
            return None
        st_, res = caller.run(pullname, context, ns, MaxObjectCount=moc)
        if st_ != 'ok':
            if st_ == 'err':
                caller.ctx.fail('variant:%s:CIMError-%s-during-pull' %
                                (pullname, res), '')
            return None
        objs.extend(res[0])
        eos, context = res.eos, res.context
    return objs


def _variant_compare(ctx, opname, base, objs, ns, tag, is_path):
    if is_path:
        keys = sorted(pkey(p, ns) for p in objs)
    else:
        if any(i.path is None for i in objs):
            ctx.fail('variant:%s:instance-without-path' % opname, tag)
            return
        keys = sorted(pkey(i.path, ns) for i in objs)
    if keys != base:
        ctx.fail('variant:%s-differs-from-traditional-operation' % opname,
                 '%s: %r vs %r' % (tag, keys, base))


def pull_oracle(ctx, g):
    conn, created = materialize(ctx, g)
    model = Model(ctx, conn, g)
    if not model.readable:
        ctx.case(key=(_gfp(g), 'unreadable'), classes=('graph:unreadable',))
        return
    caller = Caller(ctx, conn, model, g)
    gfp = _gfp(g)
    special = _special_nodes(g)
    for qi, q in enumerate(g['queries']):
        if q['src'][0] == 'l' and not created[q['src'][1]]:
            continue
        src, ns = _src_path(g, q['src'], q['form'])
        xk = pkey(src, g['nss'][0])
        f = tuple(q['f'])
        moc = q['moc']
        tag = 'src=%s %s moc=%d' % (src, _fmt(f), moc)
        afilt = dict(AssocClass=f[0], ResultClass=f[1], Role=f[2],
                     ResultRole=f[3])
        rfilt = dict(ResultClass=f[0], Role=f[2])
        plans = [
            (caller.assoc_names(xk, src, ns, f), afilt, True,
             'OpenAssociatorInstancePaths', 'PullInstancePaths',
             'IterAssociatorInstancePaths'),
            (caller.assoc_names(xk, src, ns, f), afilt, False,
             'OpenAssociatorInstances', 'PullInstancesWithPath',
             'IterAssociatorInstances'),
            (caller.ref_names(xk, src, ns, f[0], f[2]), rfilt, True,
             'OpenReferenceInstancePaths', 'PullInstancePaths',
             'IterReferenceInstancePaths'),
            (caller.ref_names(xk, src, ns, f[0], f[2]), rfilt, False,
             'OpenReferenceInstances', 'PullInstancesWithPath',
             'IterReferenceInstances'),
        ]
        classes = ['q:moc=%d' % moc]
        for (bst, bres), filt, is_path, openname, pullname, itername in plans:
            if bst == 'exc':
                continue
            base = keys_of(bres) if bst == 'ok' else None
            # Open + Pull
            st_, first = caller.run(openname, src.copy(), ns,
                                    MaxObjectCount=moc, **filt)
            if st_ == 'ok':
                if bst != 'ok':
                    ctx.fail('variant:%s-succeeds-where-traditional-fails' %
                             openname, tag)
                else:
                    objs = _pull_all(caller, first, pullname, moc, ns)
                    if objs is not None:
                        _variant_compare(ctx, openname, base, objs, ns, tag,
                                         is_path)
                        if len(objs) > moc:
                            classes.append('q:needs-pull')
            elif st_ == 'err' and bst == 'ok':
                ctx.fail('variant:%s:CIMError-%s-where-traditional-succeeds'
                         % (openname, first), tag)
            # Iter (a generator: errors surface while iterating)
            try:
                objs = list(getattr(conn, itername)(
                    src.copy(), MaxObjectCount=moc,
                    **dict((k, v) for k, v in filt.items()
                           if v is not None)))
                if bst != 'ok':
                    ctx.fail('variant:%s-succeeds-where-traditional-fails' %
                             itername, tag)
                else:
                    _variant_compare(ctx, itername, base, objs, ns, tag,
                                     is_path)
            except CIMError as exc:
                if bst == 'ok':
                    ctx.fail('variant:%s:CIMError-%s-where-traditional-'
                             'succeeds' % (itername, exc.status_code), tag)
            except Exception as exc:  # pylint: disable=broad-except
                if exc_signature(exc) is None:
                    raise
                fail_exc_mock(ctx, exc, 'null-end:traverse'
                              if model.has_null[ns] else 'traverse')
        st_, res = caller.assoc_names(xk, src, ns, f)
        nontrivial = (st_ == 'ok' and len(res) > moc) or \
            (q['src'][0] == 'n' and q['src'][1] in special)
        ctx.case(key=(gfp, 'p', qi), nontrivial=nontrivial, classes=classes)


# ---------------------------------------------------------------------------
# class-level operations

def class_oracle(ctx, g):
    conn, _created = materialize(ctx, g)
    model = Model(ctx, conn, g)
    caller = Caller(ctx, conn, model, g)
    gfp = _gfp(g)
    classes = g['classes']
    referenced = set()
    for c in classes:
        for r in c['refs']:
            referenced.update(subtree(classes, r[1]))
    for qi, q in enumerate(g['queries']):
        ns = g['nss'][q['ns']]
        name = classes[q['cls']]['name']
        f = tuple(q['f'])
        kw = _KW[q['kw']]
        form = q['form']
        if form == 0 or (form == 1 and q['ns'] != 0):
            src = CIMClassName(name, namespace=ns)
        elif form == 1:
            src = name
        else:
            src = CIMClassName(name.swapcase(), namespace=ns)
        tag = 'class %s in %s %s' % (src, ns, _fmt(f))
        afilt = dict(AssocClass=f[0], ResultClass=f[1], Role=f[2],
                     ResultRole=f[3])
        rfilt = dict(ResultClass=f[0], Role=f[2])
        for nop, fop, filt, bad in (
                ('AssociatorNames', 'Associators', afilt,
                 _expected_error(model, ns, f[:2])),
                ('ReferenceNames', 'References', rfilt,
                 _expected_error(model, ns, f[:1]))):
            nst, nres = caller.run(nop, src, None, **filt)
            fst, fres = caller.run(fop, src, None, **dict(filt, **kw))
            if nst == 'exc' or fst == 'exc':
                continue
            if bad:
                for op, s, r in ((nop, nst, nres), (fop, fst, fres)):
                    if s != 'err' or r != INVALID_PARAMETER:
                        ctx.fail('class:filter-class-not-found:%s:%s' %
                                 (op, 'returns-a-result' if s == 'ok' else
                                  'status-%s' % r), tag)
                continue
            if nst != fst or (nst == 'err' and nres != fres):
                ctx.fail('class:names-vs-full:%s-and-%s-differ-in-outcome' %
                         (nop, fop), '%s: %r vs %r' %
                         (tag, (nst, nres if nst == 'err' else '...'),
                          (fst, fres if fst == 'err' else '...')))
                continue
            if nst == 'err':
                ctx.fail('class:%s:CIMError-%s-for-existing-names' %
                         (nop, nres), tag)
                continue
            bad_items = [t for t in fres
                         if not (isinstance(t, tuple) and len(t) == 2 and
                                 isinstance(t[0], CIMClassName))]
            if bad_items:
                ctx.fail('class:%s-returns-non-pair' % fop,
                         '%s: %r' % (tag, bad_items[:1]))
                continue
            nk = sorted((ckey(p), p.host) for p in nres)
            fk = sorted((ckey(t[0]), t[0].host) for t in fres)
            if [k for k, _ in nk] != [k for k, _ in fk]:
                ctx.fail('class:names-vs-full:%s!=names-of-%s' % (nop, fop),
                         '%s: names %r full %r' % (tag, nk, fk))
            elif nk != fk:
                ctx.fail('class:names-vs-full:host-of-%s-paths-differs-'
                         'from-%s' % (fop, nop), '%s: %r vs %r' %
                         (tag, nk, fk))
            else:
                wrong = [t for t in fres
                         if t[1].classname.lower() != t[0].classname.lower()]
                if wrong:
                    ctx.fail('class:%s-pairs-path-with-other-class' % fop,
                             '%s: %r' % (tag, wrong[0][0]))
        ctx.case(key=(gfp, 'c', qi),
                 nontrivial=q['cls'] in referenced and any(
                     v is not None for v in f),
                 classes=('class:' + ('assoc' if classes[q['cls']]['assoc']
                                      else 'referenced'
                                      if q['cls'] in referenced
                                      else 'unreferenced'),
                          'class:form:%d' % form,
                          'class:filters:%d' % sum(v is not None
                                                   for v in f)))


SUBCHECKS = [
    Sub('instance', strategy=instance_strategy('general'),
        oracle=instance_oracle, quick=(16, 22), thorough=(16, 500),
        budget=(300, 1500), case_timeout=120),
    Sub('nullends', strategy=instance_strategy('nullends', 12, 10, (3, 8)),
        oracle=instance_oracle, quick=(8, 25), thorough=(16, 400),
        budget=(300, 1500), case_timeout=120),
    Sub('pull_iter', strategy=pull_strategy(), oracle=pull_oracle,
        quick=(8, 25), thorough=(16, 400), budget=(300, 1500),
        case_timeout=120),
    Sub('classlevel', strategy=class_strategy(), oracle=class_oracle,
        quick=(8, 30), thorough=(16, 500), budget=(300, 1500),
        case_timeout=120),
]
