"""
C09 - The MOF compiler is total: it succeeds or raises MOFCompileError.
DESIGN.md 4.9.

Sub-checks
  strings    MOFCompiler.compile_string on a MOFWBEMConnection: (80 %)
             grammar-generated valid compilation units and the repository's
             MOF corpus, tokenised and mutated at token level; (20 %)
             arbitrary text, MOF-alphabet text, token soup, decoded bytes
  typed      (exhaustive) initialiser literal x declared type x scalar/array
             x syntactic place (qualifier declaration default, qualifier
             value, property default with/without qualifier list, instance
             value, reference value, array size)
  files      compile_file / #pragma include structures in a scratch
             directory: chains, sub directories, missing, self and mutually
             including files, search path dependencies, non-UTF-8 bytes;
             include graphs (chain, self, mutual, longer cycle, chain into a
             cycle) over several directories whose edges and top-level name
             resolve directly or only through the search path (find_mof)
  repofault  (exhaustive) a repository connection that answers the k-th
             call of an operation with CIMError(code): every single fault
             (9 operations x k 1..6 x codes 1..28 x 5 units x 2 namespaces)
             and pairs "fault that starts a recovery path + fault in it"
  mock       FakedWBEMConnection.compile_mof_string
  atheris    (thorough tier) coverage-guided libFuzzer campaign on MOF text,
             8 processes, seeds = repository test MOF + explicit minimal
             inputs + keyword dictionary, shard 0 from an empty corpus; crash
             and timeout artifacts are judged by the 'strings' oracle
  termination (finite list) inputs with super-linear risk
  depreuse   reuse after a failure that involved the search path: a forest
             of classes (superclass / reference / EmbeddedInstance
             dependencies) each in its own file of the search path, missing,
             or in a broken or wrong file; step 1 fails while resolving it,
             the defects are repaired (in the MOF text or in the search
             path), step 2 is valid MOF that needs the same classes.  Run
             against a repository that does not keep rejected classes (a
             strict BaseRepositoryConnection, or FakedWBEMConnection as the
             handle); the same compiler must do what a new compiler for the
             same repository does

Oracle (all sub-checks): the call terminates within TIMEOUT seconds; the
outcome is success, a MOFCompileError, or OSError where a file is involved;
a MOFCompileError that carries a position lies inside the text it names
(details in check_position); afterwards the same compiler object (for the
mock: the same connection) compiles a fixed valid unit into a namespace of
its own and the objects collected there equal those of a fresh compiler.
"""

import os
import re
import sys
import glob
import shutil
import signal
import tempfile
import traceback
import warnings
from collections import Counter

from hypothesis import strategies as st

import pywbem
from pywbem import MOFCompiler, MOFCompileError, CIMError
from pywbem._mof_compiler import MOFWBEMConnection

from . import runner
from .runner import Sub, CaseTimeout, HarnessError

PROPERTY = 'C09'
RULE = (
    "strings: a valid compilation unit (generated from the MOF grammar: "
    "qualifier declarations of all types, 1-3 classes with properties of all "
    "14 types scalar/array with defaults, references, methods, aliases, "
    "instances with typed values, embedded-instance strings, pragmas; or a "
    "file of tests/unittest/pywbem/testmofs / test.mof) is split into tokens "
    "and 0-2 token-level mutations are applied (drop, duplicate, swap, "
    "truncate, replace/insert a token of a pool of keywords, punctuation, "
    "literals of every kind, huge numbers, undefined aliases, unterminated "
    "string/comment, bad escapes, malformed pragmas, illegal characters, "
    "odd white space incl. bare CR and multi-line comments between tokens), "
    "20 % of the cases are st.text, MOF-alphabet text, token soup or "
    "decoded bytes instead; typed: "
    "every (place, declared type, scalar/array, literal kind) combination, "
    "enumerated completely; files: include/search-path structures (incl. "
    "include graphs over several directories whose edges and top-level name "
    "resolve directly or only through find_mof()) with one "
    "syntax-mutated file; repofault: valid units against a repository stub "
    "raising CIMError(code 1..28) at the k-th call (k 1..6) of each of 9 "
    "operations, all single faults and recovery-path pairs, enumerated "
    "completely; mock: units with statements dropped/repeated/moved and "
    "syntax mutations through FakedWBEMConnection.compile_mof_string; "
    "termination: a fixed list of inputs with super-linear risk; depreuse: "
    "dependency forests of 2-5 classes resolved through the search path with "
    "missing/broken/wrong files at step 1, repaired before step 2, same "
    "compiler vs. new compiler on identically prepared repositories (strict "
    "stub or FakedWBEMConnection as handle).  The rendered text of strings/"
    "mock cases gets LF, CR-LF (optionally with added blank lines), mixed or "
    "bare-CR line ends; for text with CR the error position is compared "
    "with that of the same text with CR replaced by blank.  "
    "Non-trivial = the input has >= 5 tokens and is 1-2 mutations away from "
    "a unit that compiles (strings, files, mock), or has >= 5 tokens (text "
    "cases of strings), "
    "or literal kind differs from the declared type (typed), or a fault at "
    "call k >= 2 or more than one fault (repofault), or step 1 failed and "
    "step 2 succeeds on a new compiler (depreuse).  Distinct = distinct "
    "generated example.")
ASSUMPTIONS = [
    "CR is in the lexer's t_ignore and is no line end: replacing every CR "
    "by a blank keeps tokens, offsets and line count, so the position of an "
    "error must not change (not applied when a CR follows a quote on its "
    "line, where it may be inside a literal)",
    "depreuse: the repository content is the same for both compilers "
    "because the same deterministic sequence is run on two new "
    "repositories; the search path content changes between the two "
    "compiles (files added or corrected), which the property's 'any search "
    "path content' covers",
    "OSError is accepted only when the input involves a file: compile_file, "
    "or text containing an include pragma (compile_file documents IOError "
    "for a missing file; the include pragma is compiled through "
    "compile_file)",
    "a MOFCompileError whose lineno, column and context are all None (the "
    "documented result of parser_token=None, e.g. 'Unexpected end of MOF') "
    "is accepted as carrying no position",
    "position checks are skipped for errors raised while the MOF text of an "
    "embedded-object value is compiled (compile_embedded_value on the "
    "traceback): they are positioned relative to that string, which the "
    "exception does not expose",
    "the PLY tables are built once per process with pywbem's own _build() "
    "from the tree under test and registered as pywbem._mofparsetab/"
    "_moflextab, as an installed pywbem has them; without them every "
    "MOFCompiler() regenerates the LALR tables (55 ms instead of 0.5 ms)",
    "files/mock use only syntax-level and statement-level mutations; the "
    "value/type mutations are exercised by strings and typed (same "
    "compiler code)",
    "MOFCompileError.column is documented as 1-based and .context as [.., "
    "line in error, pointer line]; column/lineno/context are compared with "
    "each other and with the input text only as far as these docstrings say",
    "mock: compile_mof_string documents that the namespace of the parameter "
    "and of a namespace pragma must exist; the parameter namespace always "
    "exists; for a pragma naming a missing namespace any pywbem.Error is "
    "accepted (counted in class mock:pragma-ns-missing)",
    "repofault: the stub is a subclass of MOFWBEMConnection(conn=None), "
    "i.e. a repository connection without WBEMConnection, which "
    "MOFCompiler documents as a supported handle",
    "the reuse clause is checked in a namespace the faulty input did not "
    "touch ('verif/chk'), because a failed compile documents no rollback "
    "(C11) and may leave objects in its own namespaces",
    "termination is judged with a wall-clock limit of %d s per compile for "
    "inputs below 200 kB; the exponential case exceeds any limit (4x per "
    "additional escape), the others finish in milliseconds" % 10,
]
SENSITIVITY = [
    "t_error returns None without skipping -> strings/leak:LexError@"
    "compile_string",
    "p_error raises ValueError(msg) instead of MOFParseError -> "
    "strings/leak:ValueError@p_error",
    "p_mp_setQualifier: 'raise MOFRepositoryError(...)' of the else branch "
    "replaced by bare 'raise' -> repofault/leak:pywbem.CIMError@"
    "p_mp_setQualifier:from-SetQualifier-after-0-handled-faults (missed at "
    "first: same signature as the unwrapped retry; the fault history was "
    "added to the signature)",
    "p_mp_createInstance: translation of the CreateInstance CIMError "
    "removed -> repofault/leak:pywbem.CIMError@p_mp_createInstance:"
    "from-CreateInstance-after-0-handled-faults",
    "_find_column returns lexpos (not line relative) -> strings/position:"
    "column-far-from-pointer, strings/position:column-outside-line-"
    "token-error",
    "t_newline does not advance lexer.lineno -> strings/position:"
    "token-error:context-is-not-line-lineno",
    "MOFCompileError stores file=None -> files/position:"
    "file-is-not-a-compiled-file",
    "compile_embedded_value: 'finally: embedded_objects = None' removed -> "
    "strings|typed/reuse:check-unit-fails-after-MOFCompileError:"
    "MOFParseError",
    "compile_string keeps the previous target_namespace -> strings/reuse:"
    "check-unit-result-differs-after-MOFCompileError",
    "compile_file: include-cycle check moved before the search path "
    "resolution of the file name (seeded change2) -> files/leak:"
    "RecursionError:include-cycle (missed at first: all generated includes "
    "resolved directly; the searchgraph structure was added)",
    "t_newline matches (\\r?\\n)+ and still adds len(t.value) to lineno "
    "(seeded change3) -> strings/position:lineno-or-column-changes-when-CR-"
    "is-replaced-by-blank:lineno, strings|mock/position:lineno-is-not-the-"
    "line-of-the-illegal-character, .../lineno-outside-input (missed at "
    "first: no CR-LF blank lines were generated; line-end styles, CR-LF "
    "separators and the CR-invariance relation were added)",
    "p_mp_createClass records a dependent class as known before resolving "
    "it (seeded change4) -> depreuse/depreuse:valid-mof-fails-only-on-the-"
    "compiler-that-had-a-failed-compile:MOFDependencyError:dependency-was-"
    "{missing,file,broken}-at-step-1 (missed at first: the reuse clause was "
    "checked only with a unit without search-path dependencies on a "
    "MOFWBEMConnection, which keeps rejected classes; the depreuse "
    "sub-check was added)",
    "atheris sub-check (thorough): with fixes e8fc8c2, 548ce5d and 7276afb "
    "reverted in a scratch worktree, libFuzzer started from the repository "
    "test MOF files and the keyword dictionary only reaches the hex-escape "
    "IndexError and the namespace-pragma AttributeError within 65 000 - "
    "95 000 executions (3 of 3 seeds); from an empty corpus without "
    "dictionary 300 000 executions reach neither (both need a syntactically "
    "valid declaration around the defect): the seeded corpus is what makes "
    "the campaign useful, the empty-corpus shard is kept as a control",
]

TIMEOUT = 10
CHECK_NS = 'verif/chk'

TESTMOFS = os.path.join(runner.REPO, 'tests', 'unittest', 'pywbem',
                        'testmofs')


# ---------------------------------------------------------------------------
# fixed valid units

PRELUDE = '''\
Qualifier Key : boolean = false, Scope(property, reference), Flavor(DisableOverride, ToSubclass);
Qualifier Description : string = null, Scope(any), Flavor(EnableOverride, ToSubclass, Translatable);
Qualifier Association : boolean = false, Scope(association), Flavor(DisableOverride, ToSubclass);
Qualifier Abstract : boolean = false, Scope(class, association, indication), Flavor(EnableOverride, Restricted);
Qualifier EmbeddedInstance : string = null, Scope(property, method, parameter);
Qualifier EmbeddedObject : boolean = false, Scope(property, method, parameter), Flavor(DisableOverride, ToSubclass);
Qualifier MaxLen : uint32 = null, Scope(property, method, parameter);
Qualifier Values : string[], Scope(property, method, parameter), Flavor(EnableOverride, ToSubclass, Translatable);
Qualifier ValueMap : string[], Scope(property, method, parameter);
Qualifier Override : string = null, Scope(property, reference, method), Flavor(EnableOverride, Restricted);
Qualifier In : boolean = true, Scope(parameter), Flavor(DisableOverride, ToSubclass);
'''

CHECK_UNIT = '''\
#pragma locale ("en_US")
Qualifier Key : boolean = false, Scope(property, reference), Flavor(DisableOverride, ToSubclass);
Qualifier Description : string = null, Scope(any), Flavor(EnableOverride, ToSubclass, Translatable);
Qualifier Association : boolean = false, Scope(association), Flavor(DisableOverride, ToSubclass);
Qualifier EmbeddedInstance : string = null, Scope(property, method, parameter);
Qualifier MaxLen : uint32 = null, Scope(property, method, parameter);
/* multi
   line */
[Description("base " "class")]
class VC_Base {
    [Key] string Id;
    uint8 u8 = 200;
    datetime dt;
    real32 r = 1.5;
    string arr[] = {"a", "b\\n"};
    [EmbeddedInstance("VC_Base")] string emb;
    uint32 M([MaxLen(3)] string a, VC_Base REF r);
};
class VC_Sub : VC_Base { char16 c = 'x'; boolean flag = true; };
[Association] class VC_Link { [Key] VC_Base REF left; [Key] VC_Base REF right; };
instance of VC_Sub as $one { Id = "1"; u8 = 7; dt = "20240229123015.000000+060";
    c = 'y'; emb = "instance of VC_Base { Id = \\"inner\\"; };"; };
instance of VC_Base as $two { Id = "2"; arr = {"x"}; };
instance of VC_Link { left = $one; right = $two; };
'''


def _canon_mofconn(handle, ns):
    "Canonical, order-insensitive text of what a MOFWBEMConnection holds"
    out = []
    for q in handle.qualifiers.get(ns, {}).values():
        out.append('Q ' + q.tocimxmlstr())
    for c in handle.classes.get(ns, {}).values():
        out.append('C ' + c.tocimxmlstr())
    for i in handle.instances.get(ns, []):
        out.append('I ' + i.tocimxmlstr() + ' @ ' + str(i.path))
    return sorted(out)


def _canon_mock(conn, ns):
    repo = conn.cimrepository
    out = []
    for q in repo.get_qualifier_store(ns).iter_values():
        out.append('Q ' + q.tocimxmlstr())
    for c in repo.get_class_store(ns).iter_values():
        out.append('C ' + c.tocimxmlstr())
    for i in repo.get_instance_store(ns).iter_values():
        out.append('I ' + i.tocimxmlstr() + ' @ ' + str(i.path))
    return sorted(out)


_TABLES = []


def new_compiler(handle=None, **kw):
    """
    MOFCompiler on a fresh MOFWBEMConnection.  Before the first one, the PLY
    tables are built once per process with pywbem's own _build() from the
    tree under test and registered as pywbem._mofparsetab / ._moflextab, as
    an installed pywbem has them (without them every MOFCompiler() rebuilds
    the LALR tables: 55 ms instead of 0.5 ms).
    """
    if not _TABLES:
        import importlib.util
        from pywbem import _mof_compiler as mc
        tmp = tempfile.mkdtemp(prefix='c09-tab-')
        try:
            mc._build(out_dir=tmp)  # pylint: disable=protected-access
            for name in ('_mofparsetab', '_moflextab'):
                spec = importlib.util.spec_from_file_location(
                    'pywbem.' + name, os.path.join(tmp, name + '.py'))
                mod = importlib.util.module_from_spec(spec)
                spec.loader.exec_module(mod)
                sys.modules['pywbem.' + name] = mod
        finally:
            shutil.rmtree(tmp, ignore_errors=True)
        _TABLES.append(True)
    if handle is None:
        handle = MOFWBEMConnection()
    return MOFCompiler(handle, log_func=None, **kw)


_EXPECTED = {}


def _expected(kind):
    "Result of the check unit on a fresh compiler (once per process)"
    if kind not in _EXPECTED:
        with warnings.catch_warnings():
            warnings.simplefilter('ignore')
            if kind == 'mofconn':
                comp = new_compiler()
                comp.compile_string(CHECK_UNIT, CHECK_NS)
                _EXPECTED[kind] = _canon_mofconn(comp.handle, CHECK_NS)
            else:
                import pywbem_mock
                new_compiler()
                conn = pywbem_mock.FakedWBEMConnection()
                conn.add_namespace(CHECK_NS)
                conn.compile_mof_string(CHECK_UNIT, CHECK_NS)
                _EXPECTED[kind] = _canon_mock(conn, CHECK_NS)
        if len(_EXPECTED[kind]) < 9:
            raise HarnessError('check unit did not compile completely')
    return _EXPECTED[kind]


# ---------------------------------------------------------------------------
# running a compile and classifying the outcome

def _attempt(fn):
    """
    Run fn() under the wall-clock limit.  Returns (kind, exc):
    'ok' | 'mof' (MOFCompileError) | 'os' (OSError) | 'timeout' | 'leak'.
    """
    signal.alarm(TIMEOUT)
    try:
        try:
            with warnings.catch_warnings():
                warnings.simplefilter('ignore')
                fn()
        finally:
            signal.alarm(0)
        return 'ok', None
    except MOFCompileError as exc:
        return 'mof', exc
    except OSError as exc:
        return 'os', exc
    except CaseTimeout:
        return 'timeout', None
    except Exception as exc:  # pylint: disable=broad-except
        # everything else is what the property forbids; leak_signature()
        # insists on a pywbem frame, otherwise it is a harness error
        return 'leak', exc


_MOF_FILES = ('_mof_compiler.py', '_mockmofwbemconnection.py')


def leak_signature(exc, text=''):
    """
    Root-cause key of a foreign exception: type + the innermost function of
    the MOF compiler modules on the traceback (numbered variants of a
    grammar rule folded), i.e. the place where a fix would convert it.
    """
    frames = traceback.extract_tb(exc.__traceback__)
    pk = runner._pkg_dirs()  # pylint: disable=protected-access
    inner = inner_mof = None
    for fr in frames:
        fn = os.path.realpath(fr.filename)
        if fn.startswith(pk):
            inner = fr
            if os.path.basename(fn) in _MOF_FILES:
                inner_mof = fr
    if inner is None:
        raise HarnessError('exception without pywbem frame: %r' %
                           (exc,)) from exc
    if isinstance(exc, RecursionError):
        return 'leak:RecursionError' + (
            ':include-cycle' if re.search(r'pragma\s+include', text, re.I)
            else '')
    fr = inner_mof or inner
    name = re.sub(r'_\d+$', '', fr.name)
    tname = type(exc).__name__
    if isinstance(exc, ValueError) and \
            'integer string conversion' in str(exc):
        # CPython's int<->str digit limit, hit in the lexer, in error
        # messages and in the error context: one cause (no length check on
        # integer literals), whatever the place
        return 'leak:ValueError:integer-literal-over-4300-digits'
    if isinstance(exc, AttributeError) and name != 'find_mof' and \
            re.match(r"'(int|float|bool)' object has no attribute 'lower'",
                     str(exc)) and 'embeddedinstance' in text.lower():
        # EmbeddedInstance(<not a string>) is accepted by p_qualifier and
        # used as a class name in several places
        return 'leak:AttributeError:non-string-EmbeddedInstance-value'
    if name == 'compile_embedded_value' and \
            isinstance(exc, (TypeError, AttributeError, RuntimeError)):
        after = frames[frames.index(inner_mof) + 1:]
        if any(os.path.basename(f.filename) == 'lex.py' for f in after):
            # PLY's lexer choking on a value that is not a string: one cause
            tname = 'non-string-value-given-to-lexer'
    if isinstance(exc, pywbem.Error):
        tname = 'pywbem.' + tname
    return 'leak:%s@%s' % (tname, name)


_HEXBOMB = re.compile(r'["\'](?:[^"\\\n]|\\[^xX])*(?:\\[xX][0-9a-fA-F]{2,}'
                      r'(?:[^"\\\n]|\\[^xX])*){9,}')


def timeout_signature(text, label=None):
    if _HEXBOMB.search(text):
        return 'nontermination:string-literal-regex-exponential-in-hex-escapes'
    return 'nontermination:' + (label or 'unclassified')


def _detail(exc, text):
    return '%s\ninput: %s' % (runner.exc_detail(exc, 8),
                              runner.short_repr(text, 700))


# ---------------------------------------------------------------------------
# position oracle

_TOKEN_MSG = re.compile(r'^(MOF grammar error|Illegal character |'
                        r'Invalid binary number |Invalid octal number )')


def _uncounted_comment_lines(text, lines, ctxline, ln):
    """
    True if some line that reads like the context line lies exactly as many
    lines below `ln` as there are newlines inside block comments before it.
    """
    starts = []
    off = 0
    for ln_text in lines:
        starts.append(off)
        off += len(ln_text) + 1
    comments = [(m.start(), m.group().count('\n'))
                for m in _TOKENS.finditer(text)
                if m.group().startswith('/*')]
    for idx, ln_text in enumerate(lines):
        same = ln_text.strip('\r\n') == ctxline or (
            idx == len(lines) - 1 and ln_text.startswith(ctxline))
        if idx + 1 > ln and same:
            inside = sum(n for pos, n in comments if pos < starts[idx])
            if inside and idx + 1 - inside == ln:
                return True
    return False


def check_position(ctx, exc, candidates, text_for_detail, only_file=None):
    """
    exc: MOFCompileError.  candidates: {file name or None: text}.  Reports
    position failures through ctx.fail and returns a class label.

    For errors raised in a grammar production (dependency, repository and
    value errors) the agreement of context and lineno is judged in the
    strings sub-check only: it fails for nearly all of them on multi-line
    input for one reason (lineno is the lexer's current line, the context
    starts at offset 0 because PLY does not track positions of
    non-terminals), and one report of that is enough.
    """
    ln, col, fname, cx = exc.lineno, exc.column, exc.file, exc.context

    def fail(sig, what):
        ctx.fail('position:' + sig,
                 '%s\n%s: lineno=%r column=%r file=%r msg=%r\ncontext=%r\n'
                 'input: %s' % (what, type(exc).__name__, ln, col, fname,
                                exc.msg, cx,
                                runner.short_repr(text_for_detail, 700)))

    if ln is None and col is None and cx is None:
        return 'pos:none'
    if ln is None or col is None or cx is None:
        fail('partly-None', 'some of lineno/column/context are None')
        return 'pos:bad'
    key = os.path.abspath(fname) if fname is not None else None
    if key not in candidates:
        fail('file-is-not-a-compiled-file',
             'file is none of %r' % (sorted(map(str, candidates)),))
        return 'pos:bad'
    text = candidates[key]
    kind = 'token' if _TOKEN_MSG.match(exc.msg or '') else 'production'
    if kind == 'token' and only_file is not None and key != only_file:
        fail('syntax-error-reported-in-unmutated-file',
             'only %r can have a syntax error' % (only_file,))
    lines = text.split('\n')
    if type(ln) is not int or not 1 <= ln <= len(lines):
        fail('lineno-outside-input', 'the text has %d lines' % len(lines))
        return 'pos:bad'
    line = lines[ln - 1]
    if not (isinstance(cx, list) and len(cx) >= 2 and
            all(isinstance(x, str) for x in cx)):
        fail('context-shape', 'context is not [.., line, pointer]')
        return 'pos:bad'
    want = line.strip('\r\n')
    if kind == 'token' and (exc.msg or '').startswith('Illegal character '):
        # the error token's value is the rest of the input, so the offset of
        # the offending character is known: its line is the line in error
        off = len(text) - cx[-1].count('^')
        if 0 <= off < len(text):
            tline = text.count('\n', 0, off) + 1
            if tline != ln and \
                    not _uncounted_comment_lines(text, lines, cx[-2], ln):
                fail('lineno-is-not-the-line-of-the-illegal-character',
                     'the character is on line %d' % tline)
                return 'pos:bad'
    if cx[-2].strip('\r\n') != want:
        if kind == 'production' and ctx.sub != 'strings':
            return 'pos:production-context-unchecked'
        if kind == 'production':
            fail('production-error:context-is-not-line-lineno',
                 'line %d is %r' % (ln, want))
        elif ln == len(lines) and want.startswith(cx[-2]):
            fail('context-truncated-on-last-line-without-newline',
                 'line %d is %r' % (ln, want))
        elif _uncounted_comment_lines(text, lines, cx[-2], ln):
            fail('lineno-not-advanced-by-multi-line-comment',
                 'line %d is %r' % (ln, want))
        else:
            fail('token-error:context-is-not-line-lineno',
                 'line %d is %r' % (ln, want))
        return 'pos:bad'
    if kind == 'token':
        # the lines shown before the line in error are the lines before
        # line lineno (a wrong lineno can hit a line with the same text)
        before = [x.strip('\r\n') for x in cx[:-2]]
        have = [x.strip('\r\n') for x in lines[:ln - 1]][-len(before):] \
            if before else []
        if before != have:
            fail('token-error:context-lines-are-not-the-lines-before-lineno',
                 'lines before line %d are %r' % (ln, have))
            return 'pos:bad'
    if type(col) is not int or not 0 <= col <= len(line) + 1:
        fail('column-outside-line-%s-error' % kind,
             'line %d has %d characters' % (ln, len(line)))
        return 'pos:bad'
    if kind != 'token':
        return 'pos:production'
    ptr = cx[-1]
    if '^' not in ptr or ptr.strip(' \t\r\x0b\x0c').strip('^'):
        # pointer line = white space + carets
        if ptr.strip().strip('^'):
            fail('pointer-shape', 'pointer line is %r' % (ptr,))
            return 'pos:bad'
    p0 = ptr.index('^') if '^' in ptr else 0
    ncar = ptr.count('^')
    bad = False
    if (exc.msg or '').startswith('Illegal character '):
        # the error token's value is the rest of the input: the true offset
        # is known
        off = len(text) - ncar
        if 0 <= off < len(text):
            tline = text.count('\n', 0, off) + 1
            tcol0 = off - (text.rfind('\n', 0, off) + 1)
            if tline == ln and p0 != tcol0:
                bad = True
                if ln == 1 and p0 == tcol0 - 1:
                    fail('pointer-one-left-of-token-on-first-line',
                         'token starts at index %d, pointer at %d' %
                         (tcol0, p0))
                else:
                    fail('pointer-not-at-token',
                         'token starts at index %d, pointer at %d' %
                         (tcol0, p0))
    if col != p0 + 1 and not bad:
        delta = col - p0
        fail('column-minus-pointer-index-is-%d-documented-1' % delta
             if -2 <= delta <= 2 else 'column-far-from-pointer',
             'pointer starts at index %d (0-based), column is %d' %
             (p0, col))
        return 'pos:bad'
    return 'pos:bad' if bad else 'pos:token'


def _cr_in_literal(text):
    "A CR after a quote on the same line (may sit inside a string literal)"
    for ln_text in text.split('\n'):
        qpos = min([i for i in (ln_text.find('"'), ln_text.find("'"))
                    if i >= 0] or [-1])
        if qpos >= 0 and '\r' in ln_text[qpos:].rstrip('\r'):
            return True
    return False


def check_cr_invariance(ctx, exc, text, ns, search_paths=None):
    """
    CR is white space for the lexer and no line end: the same text with
    every CR replaced by a blank has the same tokens at the same offsets and
    the same number of lines, so an error with a position must be reported
    with the same message, line and column.  This tells whether the line
    reported for CR-LF (or CR) text is the line of the offending token
    without knowing that token.  Skipped when a CR may lie inside a literal
    (there it is not white space).  Returns a class label.
    """
    if '\r' not in text or exc.lineno is None:
        return None
    if _cr_in_literal(text):
        return 'cr-invariance:skipped-cr-after-quote'
    comp = new_compiler(search_paths=search_paths)
    kind2, exc2 = _attempt(
        lambda: comp.compile_string(text.replace('\r', ' '), ns))
    if kind2 != 'mof' or type(exc2) is not type(exc) or \
            exc2.msg != exc.msg or exc2.lineno is None:
        return 'cr-invariance:incomparable'
    if (exc2.lineno, exc2.column) != (exc.lineno, exc.column):
        ctx.fail('position:lineno-or-column-changes-when-CR-is-replaced-by-'
                 'blank:' + ('lineno' if exc2.lineno != exc.lineno
                             else 'column'),
                 'with CR: line %r column %r; CR replaced by blank: line %r '
                 'column %r; msg=%r\ninput: %s' %
                 (exc.lineno, exc.column, exc2.lineno, exc2.column, exc.msg,
                  runner.short_repr(text, 700)))
        return 'cr-invariance:violated'
    return 'cr-invariance:held'


def eol_classes(text):
    out = []
    if '\r\n' in text:
        out.append('eol:crlf')
        if re.search(r'\r\n[ \t\r]*\n', text):
            out.append('eol:crlf-blank-lines')
    if re.search(r'\r(?!\n)', text):
        out.append('eol:bare-cr')
    return out


# ---------------------------------------------------------------------------
# the reuse clause

def check_reuse(ctx, comp, first, text):
    "Same compiler compiles the check unit; result equals a fresh compiler's"
    if CHECK_NS in text:
        return
    kind, exc = _attempt(lambda: comp.compile_string(CHECK_UNIT, CHECK_NS))
    tag = {'ok': 'success', 'mof': 'MOFCompileError', 'os': 'OSError',
           'leak': 'leak', 'timeout': 'timeout'}[first]
    if kind == 'timeout':
        ctx.fail('reuse:check-unit-does-not-terminate-after-' + tag,
                 runner.short_repr(text, 700))
    elif kind != 'ok':
        ctx.fail('reuse:check-unit-fails-after-%s:%s' %
                 (tag, type(exc).__name__), _detail(exc, text))
    else:
        got = _canon_mofconn(comp.handle, CHECK_NS)
        if got != _expected('mofconn'):
            diff = [x[:200] for x in got if x not in _expected('mofconn')]
            ctx.fail('reuse:check-unit-result-differs-after-' + tag,
                     'differing objects: %r\ninput: %s' %
                     (diff[:3], runner.short_repr(text, 700)))


def judge(ctx, kind, exc, text, files_involved, candidates, label=None,
          position=True, only_file=None):
    """
    Common verdict on the outcome of the compile under test.  Returns class
    labels.
    """
    classes = ['outcome:' + kind]
    if kind == 'timeout':
        ctx.fail(timeout_signature(text, label),
                 'no result within %d s\ninput: %s' %
                 (TIMEOUT, runner.short_repr(text, 700)))
    elif kind == 'leak':
        ctx.fail(leak_signature(exc, text), _detail(exc, text))
    elif kind == 'os':
        if not files_involved:
            ctx.fail('leak:OSError-without-file:' + type(exc).__name__,
                     _detail(exc, text))
        classes.append('os:' + type(exc).__name__)
    elif kind == 'mof':
        classes.append('mof:' + type(exc).__name__)
        if not isinstance(exc, pywbem.Error):
            ctx.fail('type:MOFCompileError-is-not-pywbem.Error', repr(exc))
        if not isinstance(exc.msg, str) or not exc.msg:
            ctx.fail('type:msg-empty', repr(exc.msg))
        kind2, exc2 = _attempt(lambda: str(exc))
        if kind2 != 'ok':
            ctx.fail('str-of-error-raises:' + type(exc2).__name__,
                     _detail(exc2, text))
        if position:
            classes.append(check_position(ctx, exc, candidates, text,
                                          only_file))
        else:
            classes.append('pos:skipped')
    return classes


_TOKCOUNT = re.compile(r'"(?:[^"\\\n]|\\.)*"?|\'(?:[^\'\\\n]|\\.)*\'?|'
                       r'[A-Za-z_]\w*|[0-9][\w.]*|\S')


def _real_muts(muts):
    "Mutations proper: white space and line end styles are none"
    return [m for m in muts if m != 'odd-seps' and not m.startswith('eol-')]


def ntokens(text):
    return len(_TOKCOUNT.findall(text[:20000]))


def _in_embedded(exc):
    """
    The error was raised while compiling the MOF text of an embedded object
    value: its position refers to that string, not to the input.
    """
    if exc is None:
        return False
    return any(fr.name == 'compile_embedded_value'
               for fr in traceback.extract_tb(exc.__traceback__))


# ---------------------------------------------------------------------------
# generators: small helpers over prebuilt strategies

_INTS = {}


def _int(draw, lo, hi):
    s = _INTS.get((lo, hi))
    if s is None:
        s = _INTS[(lo, hi)] = st.integers(lo, hi)
    return draw(s)


def _pick(draw, seq):
    return seq[_int(draw, 0, len(seq) - 1)]


def _chance(draw, percent):
    return _int(draw, 0, 99) < percent


INT_RANGE = {
    'uint8': (0, 2 ** 8 - 1), 'uint16': (0, 2 ** 16 - 1),
    'uint32': (0, 2 ** 32 - 1), 'uint64': (0, 2 ** 64 - 1),
    'sint8': (-2 ** 7, 2 ** 7 - 1), 'sint16': (-2 ** 15, 2 ** 15 - 1),
    'sint32': (-2 ** 31, 2 ** 31 - 1), 'sint64': (-2 ** 63, 2 ** 63 - 1),
}
TYPES = sorted(INT_RANGE) + ['real32', 'real64', 'char16', 'string',
                             'boolean', 'datetime']

_PLAIN = ['a', 'b', 'Z', '0', '7', ' ', '  ', '_', '-', '.', ',', ';', ':',
          '{', '}', '(', ')', '[', ']', '$', '#', '/', '*', '//', '/*', '*/',
          '=', '%', '&', '<', '>', "'", '\t', 'ä', '€',
          '\U0001f600', 'word', 'class', 'x41']
_ESCAPES = ['\\n', '\\t', '\\b', '\\f', '\\r', '\\"', "\\'", '\\\\',
            '\\x41', '\\X263a', '\\x1', '\\x0041', '\\xe4 ', '\\x9']
_REALS = ['0.0', '1.5', '-1.5', '+.5', '1.0e10', '3.4E38', '1.0E-5', '-0.0',
          '123456789.123456789', '.0']
_BOOLS = ['true', 'false', 'TRUE', 'False']
_DATETIMES = ['"20240229123015.000000+060"', '"00000001000000.000000:000"',
              '"2024**********.******+000"', '"19991231235959.999999-720"']
_CHARS = ["'a'", "'Z'", "'\\x41'", "'\\n'", "'\\''", "'ä'", "' '",
          "'\\\\'"]


def g_string_literal(draw, maxparts=3):
    parts = []
    for _ in range(_int(draw, 1, maxparts)):
        body = []
        for _ in range(_int(draw, 0, 5)):
            body.append(_pick(draw, _ESCAPES) if _chance(draw, 30)
                        else _pick(draw, _PLAIN))
        body = ''.join(body)
        if re.search(r'\\[xX][0-9a-fA-F]{1,3}$', body):
            # a short hex escape that ends the literal is the IndexError
            # defect of _fixStringValue; base units stay clear of it (the
            # bad-escape mutation and the literal pool produce it)
            body += '.'
        parts.append('"' + body + '"')
    return ' '.join(parts)


def g_int_literal(draw, t):
    lo, hi = INT_RANGE[t]
    v = _pick(draw, [lo, hi, 0, 1, hi - 1]) if _chance(draw, 50) \
        else _int(draw, lo, hi)
    form = _int(draw, 0, 5)
    sign = '-' if v < 0 else ('+' if _chance(draw, 15) else '')
    a = abs(v)
    if form == 0:
        return sign + '0x%X' % a
    if form == 1:
        return sign + '0%o' % a if a else '0'
    if form == 2:
        return sign + bin(a)[2:] + _pick(draw, 'bB')
    return sign + str(a)


def g_scalar(draw, t):
    if _chance(draw, 8):
        return _pick(draw, ['NULL', 'null'])
    if t in INT_RANGE:
        return g_int_literal(draw, t)
    if t in ('real32', 'real64'):
        return _pick(draw, _REALS)
    if t == 'char16':
        return _pick(draw, _CHARS)
    if t == 'string':
        return g_string_literal(draw)
    if t == 'boolean':
        return _pick(draw, _BOOLS)
    return _pick(draw, _DATETIMES)


def g_value(draw, t, is_array):
    if not is_array:
        return g_scalar(draw, t)
    n = _int(draw, 0, 3)
    return '{' + ', '.join(g_scalar(draw, t) for _ in range(n)) + '}'


_SCOPES = ['class', 'association', 'indication', 'property', 'reference',
           'method', 'parameter', 'any']
_FLAVORS = ['EnableOverride', 'DisableOverride', 'Restricted', 'ToSubclass',
            'Translatable']


def g_qualifier_decl(draw, name):
    t = _pick(draw, TYPES)
    arr = _chance(draw, 30)
    s = 'Qualifier %s : %s' % (name, t)
    if arr:
        s += '[]' if _chance(draw, 70) else '[%d]' % _int(draw, 1, 4)
    if _chance(draw, 60):
        s += ' = ' + g_value(draw, t, arr)
    n = _int(draw, 1, 3)
    s += ', Scope(' + ', '.join(_pick(draw, _SCOPES) for _ in range(n)) + ')'
    if _chance(draw, 50):
        fl = [_pick(draw, ['EnableOverride', 'DisableOverride'])]
        if _chance(draw, 50):
            fl.append(_pick(draw, ['Restricted', 'ToSubclass']))
        if _chance(draw, 30):
            fl.append('Translatable')
        s += ', Flavor(' + ', '.join(fl) + ')'
    return s + ';', (t, arr)


def g_qualifier_list(draw, extra, place):
    "Qualifier list text for a property/class/method/parameter, may be ''"
    if not _chance(draw, 45):
        return ''
    quals = []
    for _ in range(_int(draw, 1, 2)):
        k = _int(draw, 0, 5)
        if k == 0:
            q = 'Description(%s)' % g_string_literal(draw)
            if _chance(draw, 25):
                q += ' : ' + _pick(draw, ['Translatable', 'Restricted',
                                          'ToSubclass EnableOverride'])
        elif k == 1 and place != 'class':
            q = 'MaxLen(%d)' % _int(draw, 0, 300)
        elif k == 2 and place != 'class':
            q = 'Values{%s}' % ', '.join(
                g_string_literal(draw, 1) for _ in range(_int(draw, 1, 3)))
        elif k == 3 and extra:
            name, (t, arr) = _pick(draw, extra)
            if t == 'boolean' and not arr and _chance(draw, 50):
                q = name
            elif arr:
                q = name + g_value(draw, t, True)
            else:
                q = '%s(%s)' % (name, g_scalar(draw, t))
        elif k == 4 and place == 'class':
            q = _pick(draw, ['Abstract', 'Abstract(false)'])
        else:
            continue
        if q.split('(')[0].split('{')[0].split(' ')[0].lower() not in \
                [x.split('(')[0].split('{')[0].split(' ')[0].lower()
                 for x in quals]:
            quals.append(q)
    return '[' + ', '.join(quals) + '] ' if quals else ''


def g_unit(draw, prefix='G', with_prelude=True, pragmas=True):
    """
    A compilation unit that is meant to be valid.  Returns (text, info).
    """
    out = []
    if pragmas and _chance(draw, 25):
        out.append(_pick(draw, ['#pragma locale ("en_US")',
                                '#pragma namespace ("root/gen")',
                                '#pragma Namespace("root/cimv2/sub")',
                                '#pragma instancelocale("de_DE")']))
    if with_prelude:
        out.append(PRELUDE)
    extra = []
    for i in range(_int(draw, 0, 2)):
        name = '%sQ%d' % (prefix, i)
        text, ta = g_qualifier_decl(draw, name)
        out.append(text)
        extra.append((name, ta))
    classes = []    # (name, [(pname, type, arr)], keytype, has_emb)
    ncls = _int(draw, 1, 3)
    for i in range(ncls):
        name = '%s_C%d' % (prefix, i)
        feats = []
        props = []
        sup = None
        if classes and _chance(draw, 40):
            sup = _pick(draw, classes)
        assoc = len(classes) >= 1 and sup is None and _chance(draw, 25)
        keytype = None
        if sup is None and not assoc:
            keytype = _pick(draw, ['string', 'uint32', 'string'])
            feats.append('[Key] %s Id;' % keytype)
        elif sup is not None:
            keytype = sup[2]
            props = list(sup[1])
        if assoc:
            a = _pick(draw, classes)
            b = _pick(draw, classes)
            feats.append('[Key] %s REF Left;' % a[0])
            feats.append('[Key] %s REF Right;' % b[0])
            keytype = ('assoc', a, b)
        has_emb = False
        for j in range(_int(draw, 0, 4)):
            pname = 'p%d_%d' % (i, j)
            k = _int(draw, 0, 9)
            if k <= 6:
                t = _pick(draw, TYPES)
                arr = _chance(draw, 30)
                f = g_qualifier_list(draw, extra, 'property') + t + ' ' + \
                    pname
                if arr:
                    f += '[]' if _chance(draw, 70) else \
                        '[%d]' % _int(draw, 1, 5)
                if _chance(draw, 40):
                    f += ' = ' + g_value(draw, t, arr)
                feats.append(f + ';')
                props.append((pname, t, arr))
            elif k == 7 and classes:
                feats.append('[EmbeddedInstance("%s")] string %s;' %
                             (_pick(draw, classes)[0], pname))
                has_emb = True
            elif k == 8:
                params = []
                for m in range(_int(draw, 0, 2)):
                    if classes and _chance(draw, 25):
                        params.append('%s REF a%d' %
                                      (_pick(draw, classes)[0], m))
                    else:
                        params.append(
                            g_qualifier_list(draw, [], 'parameter') +
                            _pick(draw, TYPES) + ' a%d' % m +
                            ('[]' if _chance(draw, 25) else ''))
                feats.append('%s%s %s(%s);' % (
                    g_qualifier_list(draw, [], 'method'),
                    _pick(draw, TYPES), 'M%d' % j, ', '.join(params)))
            elif classes:
                feats.append('%s REF %s;' % (_pick(draw, classes)[0], pname))
        head = g_qualifier_list(draw, extra, 'class')
        if assoc:
            head = '[Association] '
        head += 'class ' + name
        if sup is not None:
            head += ' : ' + sup[0]
        out.append(head + ' {\n    ' + '\n    '.join(feats) + '\n};')
        classes.append((name, props, keytype, has_emb))
    aliases = []    # (alias, class tuple)
    ninst = _int(draw, 0, 3)
    for i in range(ninst):
        cls = _pick(draw, classes)
        vals = []
        kt = cls[2]
        if isinstance(kt, tuple):
            la = [a for a in aliases if a[1][0] == kt[1][0]]
            ra = [a for a in aliases if a[1][0] == kt[2][0]]
            if not la or not ra:
                continue
            vals.append('Left = %s;' % _pick(draw, la)[0])
            vals.append('Right = %s;' % _pick(draw, ra)[0])
        elif kt == 'string':
            vals.append('Id = "%s%d";' % (_pick(draw, ['i', 'key ', '\\x0041']),
                                          i))
        else:
            vals.append('Id = %d;' % (i + _int(draw, 0, 1000)))
        for pname, t, arr in cls[1]:
            if _chance(draw, 50):
                vals.append('%s = %s;' % (pname, g_value(draw, t, arr)))
        head = 'instance of ' + cls[0]
        if _chance(draw, 50) or isinstance(kt, tuple) is False and \
                _chance(draw, 30):
            alias = '$%s_i%d' % (prefix, i)
            head += ' as ' + alias
            if not isinstance(kt, tuple):
                aliases.append((alias, cls))
        out.append(head + ' {\n    ' + '\n    '.join(vals) + '\n};')
    info = dict(classes=[c[0] for c in classes], statements=out)
    return '\n'.join(out) + '\n', info


# ---------------------------------------------------------------------------
# tokenising and mutating

_TOKENS = re.compile(r'''
    "(?:[^"\\\n]|\\.)*"                    # string
  | '(?:[^'\\\n]|\\.)*'                    # char
  | //[^\n]*                               # line comment
  | /\*.*?\*/                              # block comment
  | [+-]?(?:[0-9]*\.[0-9]+(?:[eE][+-]?[0-9]+)?|0[xX][0-9a-fA-F]+|[0-9]+[bB]?)
  | [A-Za-z_][A-Za-z0-9_]*
  | \S
''', re.X | re.S)


def tokenize(text):
    "Tokens of a MOF text, comments dropped"
    return [t for t in _TOKENS.findall(text)
            if not t.startswith('//') and not t.startswith('/*')]


_KEYWORDS = ['class', 'instance', 'of', 'as', 'qualifier', 'scope', 'flavor',
             'ref', 'REF', 'null', 'true', 'false', 'pragma', 'any',
             'association', 'indication', 'property', 'reference', 'method',
             'parameter', 'schema', 'enableoverride', 'disableoverride',
             'restricted', 'tosubclass', 'toinstance', 'translatable'] + TYPES
_PUNCT = list('#(){};[],$:=') + ['{', '}', ';', '(', ')']
_ODD_LITERALS = [
    '0', '1', '-1', '255', '256', '-129', '65536', '4294967296',
    '18446744073709551616', '-9223372036854775809', '0x', '0xFF', '0xG',
    '09', '08b', '12b', '101b', '007', '1.5', '.5', '5.', '1e5', '1e999',
    '1.0e999', '-1.0e999', '1.0e-999', '9' * 30, '9' * 4301, '0x' + 'f' * 40,
    '"abc"', '""', '"42"', '"1.5"', '"true"', '"20240229123015.000000+060"',
    '"2024"', '"a" "b"', "'a'", "'ab'", "''", "'\\x41'", "'\\x'", "'\\q'",
    '"\\x"', '"ab\\x4"', '"\\q"', '"\\x41g"', '"\\"', '"tab\there"',
    '"instance of Nope { a = 1; };"', '"class X {};"', '"garbage ;;"',
    'null', 'NULL', 'true', 'FALSE', '$nope', '$', 'Nope', 'Nope_Class',
    '{}', '{1, 2}', '{"a", 1}', '{null}', '{1,}', '{{1}}',
]
_ILLEGAL = ['\x00', '\x01', '\x7f', 'ä', '€', '\U0001f600',
            '﻿', '\ud800', '@', '`', '~', '!', '?', '\\', '|', '^', '%',
            '&', '<', '"', "'", '/*', '*/', '/', '.', '+', '-', '\x0c',
            '\x0b', ' ', '\x85']
_BAD_PRAGMA_PARAMS = ['1:', '//h/ns', '', 'a b', 'http://h/root', 'root/',
                      '/root', 'root//x', 'ä', '\\x41', 'root/x/',
                      'http:', ':', '/', '//', 'root\\\\x', 'a:b:c',
                      '%', 'root/cimv2', 'root/a-b', ' root', '\\n']
_PRAGMA_NAMES = ['namespace', 'namespace', 'Namespace', 'NAMESPACE',
                 'include', 'locale', 'nonsense', 'class']
_POOL = _KEYWORDS + _PUNCT + _ODD_LITERALS + ['Key', 'Description', 'MaxLen',
                                              'Values', 'Id', 'Left']

_SEPS_PLAIN = [' ', ' ', ' ', '\n', '\n    ', '  ', '\t']
_SEPS_ODD = ['\r\n', '\r', '\r\r\r ', '\n\r\r', ' /* c */ ',
             ' /* multi\n line */ ', '\n/*\n\n*/\n', ' // remark\n',
             '\n\n\n', '\x0c', '\t\t', '', ' /**/ ',
             '\r\n\r\n', '\r\n\r\n\r\n  ', '\r\n \r\n', '\n\r\n\r\n',
             ' // remark\r\n\r\n', '\r\r\n\r\r\n']

# line-end styles applied to the whole rendered text (the lexer sees them in
# compile_string; compile_file reads with universal newlines)
EOL_STYLES = ['lf'] * 7 + ['crlf', 'crlf', 'cr-lf-mixed', 'cr']


def apply_eol(text, style, blank=False):
    """
    Rewrite the line ends of text.  blank: additionally turn some line ends
    into runs of line ends (blank lines) first.
    """
    if style == 'lf':
        return text
    if blank:
        text = text.replace(';\n', ';\n\n\n').replace('{\n', '{\n\n')
    if style == 'crlf':
        return text.replace('\r\n', '\n').replace('\n', '\r\n')
    if style == 'cr':
        # bare CR is white space for the lexer, not a line end
        return text.replace('\n', '\r')
    out = []
    for i, part in enumerate(text.split('\n')):
        out.append(part)
        out.append('\r\n' if i % 3 else '\n')
    return ''.join(out[:-1])

# mutations that can only produce syntax errors (or still valid text)
SYNTAX_MUTATIONS = ['drop', 'dup', 'swap', 'trunc', 'unterminated-string',
                    'unterminated-comment', 'case', 'illegal-char', 'split',
                    'odd-space']
# all mutations; the ones that reach the code behind the parser are weighted
MUTATIONS = SYNTAX_MUTATIONS + [
    'drop-range', 'replace', 'insert', 'bad-escape', 'bad-escape',
    'huge-number', 'pragma', 'pragma', 'wrong-literal', 'wrong-literal',
    'wrong-literal']


def _is_str(tok):
    return len(tok) >= 2 and tok[0] == '"' and tok[-1] == '"'


def mutate(draw, toks, seps, name):
    """
    Apply one token-level mutation in place.  toks: token list, seps:
    separator *before* each token.
    """
    n = len(toks)
    if n == 0:
        toks.append(_pick(draw, _POOL))
        seps.append('')
        return
    i = _int(draw, 0, n - 1)
    if name == 'drop':
        del toks[i], seps[i]
    elif name == 'drop-range':
        j = min(n, i + _int(draw, 2, 6))
        del toks[i:j], seps[i:j]
    elif name == 'dup':
        toks.insert(i, toks[i])
        seps.insert(i, ' ')
    elif name == 'swap':
        if i + 1 < n:
            toks[i], toks[i + 1] = toks[i + 1], toks[i]
    elif name == 'trunc':
        del toks[i + 1:], seps[i + 1:]
    elif name == 'replace':
        toks[i] = _pick(draw, _POOL)
    elif name == 'insert':
        toks.insert(i, _pick(draw, _POOL))
        seps.insert(i, ' ')
    elif name == 'unterminated-string':
        idx = [k for k in range(n) if _is_str(toks[k])]
        if idx:
            k = _pick(draw, idx)
            toks[k] = toks[k][:-1] if _chance(draw, 70) else toks[k][1:]
        else:
            toks.insert(i, '"never closed')
            seps.insert(i, ' ')
    elif name == 'unterminated-comment':
        toks.insert(i, _pick(draw, ['/*', '/* no end', '/*/', '/ *', '*/']))
        seps.insert(i, ' ')
    elif name == 'bad-escape':
        bad = _pick(draw, ['\\q', '\\x', '\\xZ', '\\', '\\x4', '\\0', '\\u1',
                           '\\X', '\\xg1', '\\ '])
        idx = [k for k in range(n) if _is_str(toks[k])]
        if idx:
            k = _pick(draw, idx)
            pos = _pick(draw, [len(toks[k]) - 1, 1,
                               max(1, (len(toks[k])) // 2)])
            toks[k] = toks[k][:pos] + bad + toks[k][pos:]
        else:
            toks.insert(i, '"a%s"' % bad)
            seps.insert(i, ' ')
    elif name == 'huge-number':
        toks[i] = _pick(draw, ['9' * 5000, '-' + '9' * 4301, '1' * 4300,
                               '0x' + 'F' * 5000, '0' + '7' * 5000,
                               '1' * 5000 + 'b', '1e999', '1.0e999',
                               '0.' + '0' * 5000 + '1', '1' * 400 + '.0',
                               '18446744073709551616', '1.0e400'])
    elif name == 'pragma':
        # statement boundaries: after a ';' that closes a top-level item is
        # approximated by "after any ';'" or the very beginning
        idx = [0] + [k + 1 for k in range(n) if toks[k] == ';']
        k = _pick(draw, idx)
        new = ['#', 'pragma', _pick(draw, _PRAGMA_NAMES), '(',
               '"%s"' % _pick(draw, _BAD_PRAGMA_PARAMS), ')']
        if _chance(draw, 15):
            del new[_int(draw, 0, len(new) - 1)]
        toks[k:k] = new
        seps[k:k] = ['\n'] + [_pick(draw, ['', ' '])
                              for _ in range(len(new) - 1)]
    elif name == 'case':
        toks[i] = toks[i].swapcase() if _chance(draw, 50) else \
            toks[i].upper()
    elif name == 'illegal-char':
        c = _pick(draw, _ILLEGAL)
        if _chance(draw, 50):
            toks.insert(i, c)
            seps.insert(i, _pick(draw, ['', ' ']))
        else:
            pos = _int(draw, 0, len(toks[i]))
            toks[i] = toks[i][:pos] + c + toks[i][pos:]
    elif name == 'split':
        if len(toks[i]) >= 2:
            pos = _int(draw, 1, len(toks[i]) - 1)
            toks[i] = toks[i][:pos] + _pick(draw, [' ', '\n', '\r']) + \
                toks[i][pos:]
    elif name == 'wrong-literal':
        # a value position gets a literal of another kind
        idx = [k for k in range(1, n) if toks[k - 1] in ('=', '(', '{', ',')
               and (toks[k][0] in '"\'+-.0123456789$' or
                    toks[k].lower() in ('true', 'false', 'null'))]
        if idx:
            toks[_pick(draw, idx)] = _pick(draw, _ODD_LITERALS)
        else:
            toks[i] = _pick(draw, _ODD_LITERALS)
    elif name == 'odd-space':
        for _ in range(_int(draw, 1, 4)):
            seps[_int(draw, 0, len(seps) - 1)] = _pick(draw, _SEPS_ODD)


def render(toks, seps):
    out = []
    for s, t in zip(seps, toks):
        # a line comment separator must not swallow the token
        out.append(s)
        out.append(t)
    return ''.join(out)


def g_mutated_text(draw, base, mutations=None):
    "Tokenise base, draw separators and 0-2 mutations; returns (text, muts)"
    mutations = mutations or MUTATIONS
    toks = tokenize(base)
    seps = ['']
    odd = _chance(draw, 20)
    for k in range(1, len(toks)):
        prev = toks[k - 1]
        if prev in (';', '{') or toks[k] == '}':
            s = '\n' if _chance(draw, 80) else ' '
        else:
            s = ' '
        if odd and _chance(draw, 8):
            s = _pick(draw, _SEPS_ODD)
            if s == '' and (prev[-1:].isalnum() or prev[-1:] in '_.+-') and \
                    (toks[k][:1].isalnum() or toks[k][:1] in '_.+-'):
                s = ' '
        seps.append(s)
    r = _int(draw, 0, 99)
    nmut = 0 if r < 10 else (1 if r < 75 else 2)
    muts = []
    for _ in range(nmut):
        name = _pick(draw, mutations)
        mutate(draw, toks, seps, name)
        muts.append(name)
    text = render(toks, seps)
    if _chance(draw, 50) and not text.endswith('\n'):
        text += '\n'
    style = _pick(draw, EOL_STYLES)
    if style != 'lf':
        text = apply_eol(text, style, blank=_chance(draw, 60))
        muts.append('eol-' + style)
    return text, tuple(muts) + (('odd-seps',) if odd else ())


def _load_corpus():
    corpus = {}
    for path in sorted(glob.glob(os.path.join(TESTMOFS, '*.mof'))) + \
            [os.path.join(os.path.dirname(TESTMOFS), 'test.mof')]:
        try:
            with open(path, encoding='utf-8') as fp:
                corpus[os.path.basename(path)] = fp.read()
        except OSError:
            pass
    return corpus


CORPUS = _load_corpus()
_NAMESPACES = [None, None, 'root/cimv2', 'root/x', 'a/b/c', 'interop', 'X']


@st.composite
def mutated_strategy(draw):
    if CORPUS and _chance(draw, 25):
        name = _pick(draw, sorted(CORPUS))
        base = CORPUS[name]
        src = 'corpus:' + name
    else:
        base, _ = g_unit(draw)
        src = 'grammar'
    text, muts = g_mutated_text(draw, base)
    return dict(text=text, ns=_pick(draw, _NAMESPACES), muts=muts, src=src)


# ---------------------------------------------------------------------------
# sub-check: mutated / text (compile_string on a MOFWBEMConnection)

def _corpus_candidates(exc_file):
    "Text of a corpus file an error may point into (search path includes)"
    if exc_file is None:
        return {}
    p = os.path.normpath(exc_file)
    if os.path.dirname(p) == os.path.normpath(TESTMOFS) and os.path.isfile(p):
        with open(p, encoding='utf-8') as fp:
            return {p: fp.read()}
    return {}


def string_oracle(ctx, ex):
    text, ns = ex['text'], ex['ns']
    corpus = ex.get('src', '').startswith('corpus')
    comp = new_compiler(search_paths=[TESTMOFS] if corpus else None)
    kind, exc = _attempt(lambda: comp.compile_string(text, ns))
    cands = {None: text}
    if kind == 'mof' and corpus:
        cands.update(_corpus_candidates(exc.file))
    # comments and line ends may stand between '#pragma' and 'include'
    low = text.lower()
    has_include = 'pragma' in low and 'include' in low
    classes = judge(ctx, kind, exc, text, has_include, cands,
                    position=not _in_embedded(exc))
    classes += eol_classes(text)
    if kind == 'mof' and not _in_embedded(exc) and exc.file is None and \
            not has_include:
        label = check_cr_invariance(ctx, exc, text, ns,
                                    [TESTMOFS] if corpus else None)
        if label:
            classes.append(label)
            if 'eol:crlf-blank-lines' in classes:
                classes.append('pos:error-in-text-with-crlf-blank-lines')
    check_reuse(ctx, comp, kind, text)
    allmuts = ex.get('muts', ())
    classes += ['mut:' + m for m in allmuts] or ['mut:none']
    muts = _real_muts(allmuts)
    if not muts and ex.get('src') == 'grammar':
        classes.append('base:' + ('valid' if kind == 'ok' else 'invalid'))
    classes.append('src:' + ex.get('src', 'text'))
    nt = ntokens(text)
    ctx.case(nontrivial=(nt >= 5 and (ex.get('src') == 'text' or
                                      1 <= len(muts))),
             classes=classes + ['tokens>=5' if nt >= 5 else 'tokens<5'])


# Minimal inputs for root causes that the random mutations reach only now
# and then; drawn with a small probability so that every run meets each of
# them (the set of reported signatures stays the same from seed to seed).
POSITION_EXPLICIT = [
    'class A {\n' + '\r' * 12 + ' $ };\n',     # CRs at the start of the line
    '/* a\nb */ class A {\n $ };\n',          # multi-line comment before
    ' @',                                      # first line
    'class A { $ };',                          # last line without newline
    'class A {\n  $ };\n',
    '\n\nclass A { [Nope] string s;\n};\n',    # error raised in a production
    # CR-LF line ends with blank lines before the error (in the middle and
    # on the last line of the input)
    'class A {\r\n\r\n\r\n  uint8 p;\r\n\r\n  $ };\r\nclass B {};\r\n'
    'class C {};\r\nclass D {};\r\nclass E {};\r\n',
    '// c\r\n\r\n\r\n\r\nclass A {\r\n\r\n @ };',
    'class A {};\r\n\r\n\r\nclass A2 {\r\n  string s = "a\r\n"; };\r\n',
]
STRINGS_EXPLICIT = POSITION_EXPLICIT + [
    '#pragma namespace("1:")',
    'class A { string s = "ab\\x4"; };',
    'class A { uint32 p = ' + '9' * 4301 + '; };',
    PRELUDE + 'class A { [MaxLen("abc")] string s; };',
    PRELUDE + 'Qualifier Q : datetime, Scope(any);\n'
    'class A { [Q(1.5)] string s; };',
    'Qualifier Q : uint8 = 300, Scope(any);',
    'Qualifier Q : datetime = 1.5, Scope(any);',
    'class A { uint8 p = 300; };',
    'class A { datetime p = 1.5; };',
    'class A { A REF r = "x"; };',
    'class A { A REF r = 1.5; };',
    PRELUDE + 'class A { [Key] string k; datetime d; };\n'
    'instance of A { k = "a"; d = 1.5; };',
    PRELUDE + 'class A { [Key] string k; };\ninstance of A { k = NULL; };',
    PRELUDE + 'class A { [Key] string k; };\ninstance of A { k = {}; };',
    PRELUDE + 'class A { [EmbeddedInstance(5)] string e; };',
    PRELUDE + 'class A { [Key] string k; [EmbeddedObject] string e; };\n'
    'instance of A { k = "a"; e = 1.5; };',
    # namespace pragma to a fresh namespace, then a class with a dependency
    # (found by a seeding agent; KeyError in p_mp_createClass before the fix)
    '#pragma namespace("other")\n' + PRELUDE +
    '[Association] class A { [Key] Missing REF r; };\n',
    '#pragma namespace("other2")\n' + PRELUDE +
    'class B : MissingSuper { string s; };\n',
]

_MUTATED = mutated_strategy()
_MOF_ALPHABET = st.sampled_from(list(
    'abcxyzABC019 \n\t\r"\'\\/*#(){};[],$:=.+-_') + ['ä', '\x00'])
_SOUP = st.lists(st.sampled_from(_POOL + _ILLEGAL + ['\n', '/*', '*/', '//']),
                 max_size=30)


@st.composite
def strings_strategy(draw):
    if _chance(draw, 8):
        return dict(text=_pick(draw, STRINGS_EXPLICIT), ns=None,
                    muts=('explicit',), src='explicit')
    if _chance(draw, 80):
        return draw(_MUTATED)
    k = _int(draw, 0, 9)
    if k <= 1:
        text = draw(st.text(max_size=60))
        how = 'st.text'
    elif k <= 4:
        text = draw(st.text(alphabet=_MOF_ALPHABET, max_size=80))
        how = 'alphabet'
    elif k <= 7:
        text = ' '.join(draw(_SOUP))
        how = 'soup'
    elif k == 8:
        raw = draw(st.binary(max_size=60))
        text = raw.decode(_pick(draw, ['latin-1', 'utf-8']), 'replace')
        how = 'bytes'
    else:
        raw = draw(st.binary(max_size=40))
        text = raw.decode('utf-8', 'surrogateescape')
        how = 'bytes-surrogateescape'
    return dict(text=text, ns=_pick(draw, _NAMESPACES), muts=(how,),
                src='text')


# ---------------------------------------------------------------------------
# sub-check: typed (exhaustive)

LITERALS = [
    ('int-small', '5'), ('int-neg', '-3'), ('int-256', '256'),
    ('int-hex', '0x7F'), ('int-bin', '101b'), ('int-2^64', '18446744073709551616'),
    ('int-huge', '9' * 4400), ('real', '1.5'), ('real-whole', '2.0'),
    ('real-inf', '1.0e999'), ('real-neg', '-0.5E-3'),
    ('string', '"abc"'), ('string-empty', '""'), ('string-digits', '"42"'),
    ('string-real', '"1.5"'), ('string-bool', '"true"'),
    ('string-datetime', '"20240229123015.000000+060"'),
    ('string-interval', '"00000001000000.000000:000"'),
    ('string-1char', '"x"'), ('string-concat', '"4" "2"'),
    ('string-mof', '"instance of T_Other { Id = \\"e\\"; };"'),
    ('char', "'a'"), ('char-esc', "'\\x41'"), ('bool', 'true'),
    ('null', 'NULL'), ('alias-undefined', '$nope'),
    ('alias-instance', '$inst'), ('alias-class', '$cls'),
    ('identifier', 'T_Other'),
    ('array-empty', '{}'), ('array-int', '{1, 2}'),
    ('array-string', '{"a", "b"}'), ('array-mixed', '{1, "a", true}'),
    ('array-null', '{NULL}'), ('array-real', '{1.5}'),
    ('array-bool', '{true, false}'), ('array-char', "{'a'}"),
    ('array-300', '{300}'), ('array-datetime',
                             '{"20240229123015.000000+060"}'),
]
PLACES = ['qualdecl', 'qualvalue', 'propdefault', 'propdefault-q',
          'instvalue', 'instvalue-emb', 'arraysize']
TYPED_TYPES = TYPES + ['ref']

_TYPED_PRE = PRELUDE + '''\
class T_Other as $cls { [Key] string Id; };
instance of T_Other as $inst { Id = "o"; };
'''


def typed_text(place, t, arr, lit):
    a = '[]' if arr else ''
    decl = ('T_Other REF p' if t == 'ref' else '%s p%s' % (t, a))
    if place == 'qualdecl':
        if t == 'ref':
            return None
        return _TYPED_PRE + 'Qualifier TQ : %s%s = %s, Scope(any);\n' % (
            t, a, lit)
    if place == 'qualvalue':
        if t == 'ref':
            return None
        par = lit if lit.startswith('{') else '(%s)' % lit
        return _TYPED_PRE + 'Qualifier TQ : %s%s, Scope(any);\n' \
            'class T_A { [TQ%s] string s; };\n' % (t, a, par)
    if place == 'propdefault':
        return _TYPED_PRE + 'class T_A { %s = %s; };\n' % (decl, lit)
    if place == 'propdefault-q':
        return _TYPED_PRE + 'class T_A { [Description("d")] %s = %s; };\n' \
            % (decl, lit)
    if place == 'instvalue':
        return _TYPED_PRE + 'class T_A { [Key] string Id; %s; };\n' \
            'instance of T_A { Id = "a"; p = %s; };\n' % (decl, lit)
    if place == 'instvalue-emb':
        if t != 'string':
            return None
        q = 'EmbeddedInstance("T_Other")' if not arr else 'EmbeddedObject'
        return _TYPED_PRE + 'class T_A { [Key] string Id; [%s] %s; };\n' \
            'instance of T_A { Id = "a"; p = %s; };\n' % (q, decl, lit)
    if place == 'arraysize':
        if arr or t == 'ref':
            return None
        return _TYPED_PRE + 'class T_A { %s p[%s]; };\n' % (t, lit)
    raise ValueError(place)


def _lit_matches(t, arr, litname):
    "literal kind is the natural one for the declared type (trivial case)"
    base = litname.split('-')[0]
    if arr != (base == 'array'):
        return False
    if t in INT_RANGE:
        return litname in ('int-small', 'array-int')
    return {'real32': 'real', 'real64': 'real', 'string': 'string',
            'char16': 'char', 'boolean': 'bool',
            'datetime': 'string-datetime'}.get(t) == litname


def typed_oracle(ctx, ex):
    place, t, arr, litname = ex
    lit = dict(LITERALS)[litname]
    text = typed_text(place, t, arr, lit)
    if text is None:
        return
    comp = new_compiler()
    kind, exc = _attempt(lambda: comp.compile_string(text, None))
    classes = judge(ctx, kind, exc, text, False, {None: text},
                    position=not _in_embedded(exc))
    check_reuse(ctx, comp, kind, text)
    ctx.case(nontrivial=not _lit_matches(t, arr, litname),
             classes=classes + ['place:' + place])


def typed_enumerate(ctx, shard, nshards):
    n = 0
    for place in PLACES:
        for t in TYPED_TYPES:
            for arr in (False, True):
                for litname, _ in LITERALS:
                    n += 1
                    if n % nshards != shard:
                        continue
                    ex = (place, t, arr, litname)
                    ctx.current = ex
                    typed_oracle(ctx, ex)


# ---------------------------------------------------------------------------
# sub-check: files

def _file_unit(draw, prefix, with_prelude, includes):
    text, _ = g_unit(draw, prefix=prefix, with_prelude=with_prelude,
                     pragmas=False)
    head = ''.join('#pragma include ("%s")\n' % inc for inc in includes)
    return head + text


STRUCTURES = ['single', 'chain', 'subdir', 'missing', 'missing', 'self',
              'mutual',
              'directory', 'searchdep', 'nonutf8', 'bom', 'crlf',
              'top-missing', 'string-include', 'searchgraph', 'searchgraph',
              'searchgraph', 'searchdep', 'searchdep']


def _search_graph(draw):
    """
    Include graph whose members live in different directories: n files
    d<i>/n<i>.mof, file i includes file i+1, the last one includes nothing
    (chain) or an earlier one (self, mutual, longer cycle, chain that runs
    into a cycle).  Every edge is written either as a relative path that
    exists as seen from the including file ('direct') or as a name that does
    not exist there and is found only by find_mof() in the search path
    ('search': the bare file name, or the name under a directory that does
    not exist).  The top-level file name may itself be one that only the
    search path resolves.  Returns (files, top, search_dirs, info).
    """
    n = _int(draw, 1, 4)
    shape = _pick(draw, ['chain', 'cycle', 'cycle', 'cycle', 'rho'])
    same_dir = _chance(draw, 15)   # all in one directory: bare names direct
    dirs = ['d0' if same_dir else 'd%d' % i for i in range(n)]
    names = ['n%d.mof' % i for i in range(n)]
    if shape == 'chain':
        back = None
    elif shape == 'cycle':
        back = 0
    else:
        back = _int(draw, 0, n - 1)
    edges = [(i, i + 1) for i in range(n - 1)]
    if back is not None:
        edges.append((n - 1, back))
    modes = []
    files = {}
    incs = {i: [] for i in range(n)}
    for src, dst in edges:
        mode = _pick(draw, ['search', 'search', 'direct', 'search-nodir'])
        if mode == 'direct' or (mode == 'search' and dirs[src] == dirs[dst]):
            mode = 'direct'
            ref = names[dst] if dirs[src] == dirs[dst] else \
                '../%s/%s' % (dirs[dst], names[dst])
        elif mode == 'search':
            ref = names[dst]
        else:
            ref = 'nowhere/' + names[dst]
        modes.append(mode)
        incs[src].append(ref)
    for i in range(n):
        files['%s/%s' % (dirs[i], names[i])] = _file_unit(
            draw, 'S%d' % i, i == n - 1, incs[i])
    k = _int(draw, 0, 2)
    if k == 0:
        top = '%s/%s' % (dirs[0], names[0])
        topmode = 'direct'
    elif k == 1:
        top = 'nowhere/' + names[0]      # resolved through the search path
        topmode = 'search'
    else:
        top = names[0].upper()           # find_mof() ignores case
        topmode = 'search'
    search_dirs = [''] if _chance(draw, 40) else sorted(set(dirs))
    if _chance(draw, 30):
        search_dirs = list(reversed(search_dirs))
    info = 'searchgraph:%s:%s:top-%s' % (
        'cyclic' if back is not None else 'acyclic',
        'search-edge' if any(m != 'direct' for m in modes) else
        'direct-edges', topmode)
    return files, top, search_dirs, info


@st.composite
def files_strategy(draw):
    s = _pick(draw, STRUCTURES)
    files = {}
    top = 'top.mof'
    if _chance(draw, 12):
        text = _pick(draw, POSITION_EXPLICIT)
        return dict(structure='single', files={top: text.encode('utf-8')},
                    top=top, search=False, entry='file', faulty=top,
                    muts=('explicit',), ns=None)
    search = False
    entry = 'file'
    if s in ('single', 'nonutf8', 'bom', 'crlf', 'top-missing'):
        files[top] = _file_unit(draw, 'F0', True, [])
    elif s == 'chain':
        depth = _int(draw, 1, 3)
        names = [top] + ['inc%d.mof' % i for i in range(1, depth + 1)]
        for i, name in enumerate(names):
            last = i == len(names) - 1
            files[name] = _file_unit(draw, 'F%d' % i, last,
                                     [] if last else [names[i + 1]])
    elif s == 'subdir':
        files[top] = _file_unit(draw, 'F0', False, ['sub/a.mof'])
        files['sub/a.mof'] = _file_unit(draw, 'F1', False, ['b.mof'])
        files['sub/b.mof'] = _file_unit(draw, 'F2', True, [])
    elif s == 'missing':
        files[top] = _file_unit(draw, 'F0', True,
                                [_pick(draw, [
                                    'nothere.mof', 'sub/no.mof', 'x', '.mof',
                                    'aä.mof', '../../nothere.mof',
                                    # names no file can have: NUL (through a
                                    # MOF hex escape), other control
                                    # characters, over-long, lone surrogate
                                    'sub/\\x0.mof', '\\x00', 'a\\x0000b.mof',
                                    '\\x1.mof', 'a\\nb.mof', 'x' * 300 + '.mof',
                                    ('d' * 200 + '/') * 25 + 'x.mof',
                                    '\\xD800.mof', '*?<>|.mof', ' ', '~/x.mof',
                                    '/dev/null/x.mof', '/proc/self/mem'])])
    elif s == 'self':
        files[top] = _file_unit(draw, 'F0', True, [top])
    elif s == 'mutual':
        files[top] = _file_unit(draw, 'F0', True, ['other.mof'])
        files['other.mof'] = _file_unit(draw, 'F1', False, [top])
    elif s == 'directory':
        files[top] = _file_unit(draw, 'F0', True,
                                [_pick(draw, ['', '.', 'sub', 'sub/'])])
        files['sub/x.mof'] = 'class F9 {};\n'
    elif s == 'searchdep':
        search = True
        files['qualifiers.mof'] = PRELUDE
        files['dep/F_Super.mof'] = 'class F_Super { [Key] string Id; };\n'
        if _chance(draw, 30):
            # the file found for the superclass defines something else
            files['dep/F_Super.mof'] = _pick(draw, [
                'class F_Else { [Key] string Id; };\n', '', '// nothing\n'])
        files['dep/F_Target.mof'] = '[Description("t")] class F_Target ' \
            '{ [Key] uint32 Id; };\n'
        wrong = ['class F_Else { [Key] string Id; };\n', '', '// nothing\n',
                 'instance of F_Else { Id = "9"; };\n']
        if _chance(draw, 20):
            # the file found for the referenced class defines something else
            files['dep/F_Target.mof'] = _pick(draw, wrong)
        files[top] = 'class F_Sub : F_Super { [Description("x")] uint8 p; ' \
            'F_Target REF r; };\ninstance of F_Sub { Id = "1"; p = 5; };\n'
        if _chance(draw, 60):
            # an instance whose class is only on the search path; the file
            # found for it defines the class, a class with a dependency of
            # its own, or something else
            files['dep/F_Inst.mof'] = _pick(draw, [
                'class F_Inst { [Key] string Id; };\n',
                'class F_Inst { [Key] string Id; };\n',
                'class F_Inst : F_Super { uint8 q; };\n',
                'class F_Inst { [Key] string Id; F_Target REF t; };\n'] +
                wrong)
            unit = 'instance of F_Inst { Id = "2"; };\n'
            files[top] = unit + files[top] if _chance(draw, 60) else \
                files[top] + unit
    elif s == 'string-include':
        entry = 'string'
        search = _chance(draw, 50)
        files[top] = _file_unit(draw, 'F0', False, ['inc1.mof'])
        files['inc1.mof'] = _file_unit(draw, 'F1', True, [])
    search_dirs = None
    info = None
    if s == 'searchgraph':
        files, top, search_dirs, info = _search_graph(draw)
        search = True
    faulty = None
    muts = ()
    if _chance(draw, 30 if s == 'searchgraph' else 70):
        faulty = _pick(draw, sorted(files))
        files[faulty], muts = g_mutated_text(draw, files[faulty],
                                             SYNTAX_MUTATIONS)
    enc = {}
    for name, text in files.items():
        data = text.encode('utf-8', 'surrogatepass')
        if s == 'crlf':
            data = data.replace(b'\n', b'\r\n')
        if s == 'bom' and name == top:
            data = b'\xef\xbb\xbf' + data
        if s == 'nonutf8' and name == top:
            pos = _int(draw, 0, len(data))
            data = data[:pos] + _pick(draw, [b'\xff', b'\xc3', b'\xe4',
                                             b'\xed\xa0\x80', b'\xfe\xff',
                                             b'\x80']) + data[pos:]
        enc[name] = data
    if s == 'top-missing':
        enc = {}
    ex = dict(structure=s, files=enc, top=top, search=search, entry=entry,
              faulty=faulty, muts=muts, ns=_pick(draw, _NAMESPACES))
    if search_dirs is not None:
        ex['search_dirs'] = search_dirs
        ex['info'] = info
    return ex


def files_oracle(ctx, ex):
    tmp = tempfile.mkdtemp(prefix='c09-')
    tmp = os.path.realpath(tmp)
    cwd = os.getcwd()
    try:
        cands = {}
        anytext = []
        for name, data in ex['files'].items():
            path = os.path.join(tmp, name)
            os.makedirs(os.path.dirname(path), exist_ok=True)
            with open(path, 'wb') as fp:
                fp.write(data)
            try:
                # what compile_file reads (universal newlines)
                txt = data.decode('utf-8')
                txt = txt.replace('\r\n', '\n').replace('\r', '\n')
            except UnicodeDecodeError:
                txt = None
            if txt is not None:
                cands[os.path.normpath(path)] = txt
                anytext.append(txt)
        top = os.path.join(tmp, ex['top'])
        if ex.get('search_dirs') is not None:
            spaths = [os.path.join(tmp, d) if d else tmp
                      for d in ex['search_dirs']]
        else:
            spaths = [tmp] if ex['search'] else None
        comp = new_compiler(search_paths=spaths)
        alltext = '\n'.join(anytext)
        if ex['entry'] == 'string':
            text = cands.get(os.path.normpath(top), "#pragma include (\"top.mof\")\n")
            cands[None] = text
            os.chdir(tmp)   # includes of a string are relative to the cwd
            kind, exc = _attempt(lambda: comp.compile_string(text, ex['ns']))
            only = None
        else:
            kind, exc = _attempt(lambda: comp.compile_file(top, ex['ns']))
            only = os.path.normpath(os.path.join(tmp, ex['faulty'])) \
                if ex['faulty'] else None
        classes = judge(ctx, kind, exc, alltext + '#pragma include', True,
                        cands, position=not _in_embedded(exc),
                        only_file=only if ex['entry'] == 'file' else None)
        check_reuse(ctx, comp, kind, alltext)
    finally:
        os.chdir(cwd)
        shutil.rmtree(tmp, ignore_errors=True)
    muts = _real_muts(ex['muts'])
    info = ex.get('info')
    ctx.case(nontrivial=bool(muts) or ex['structure'] in
             ('missing', 'self', 'mutual', 'directory', 'nonutf8',
              'top-missing') or bool(info and ':cyclic:' in info),
             classes=classes + ['structure:' + ex['structure'],
                                'entry:' + ex['entry'],
                                'fault:' + ('yes' if ex['faulty'] else 'no')]
             + ([info] if info else []))


# ---------------------------------------------------------------------------
# sub-check: repofault

OPS = ['CreateClass', 'ModifyClass', 'GetClass', 'CreateInstance',
       'ModifyInstance', 'SetQualifier', 'EnumerateQualifiers',
       'DeleteQualifier', 'GetQualifier']


class FaultRepo(MOFWBEMConnection):
    """
    In-memory repository (MOFWBEMConnection without server) whose k-th call
    of an operation raises CIMError(code); Modify*/DeleteQualifier work
    instead of raising 'This should not happen'.
    """

    def __init__(self, faults):
        super().__init__(conn=None)
        self.v_calls = Counter()
        self.v_faults = dict(((op, k), code) for op, k, code in faults)
        self.v_fired = []

    def _hit(self, op):
        self.v_calls[op] += 1
        code = self.v_faults.pop((op, self.v_calls[op]), None)
        if code is not None:
            self.v_fired.append((op, self.v_calls[op], code))
            raise CIMError(code, 'injected fault in %s' % op)

    def CreateClass(self, *args, **kwargs):
        self._hit('CreateClass')
        return super().CreateClass(*args, **kwargs)

    def ModifyClass(self, *args, **kwargs):
        self._hit('ModifyClass')
        cc = args[0] if args else kwargs['ModifiedClass']
        ns = kwargs.get('namespace', self.default_namespace)
        self.classes.setdefault(ns, pywbem.NocaseDict())[cc.classname] = cc

    def GetClass(self, *args, **kwargs):
        self._hit('GetClass')
        return super().GetClass(*args, **kwargs)

    def CreateInstance(self, *args, **kwargs):
        self._hit('CreateInstance')
        return super().CreateInstance(*args, **kwargs)

    def ModifyInstance(self, *args, **kwargs):
        self._hit('ModifyInstance')

    def SetQualifier(self, *args, **kwargs):
        self._hit('SetQualifier')
        return super().SetQualifier(*args, **kwargs)

    def EnumerateQualifiers(self, *args, **kwargs):
        self._hit('EnumerateQualifiers')
        return super().EnumerateQualifiers(*args, **kwargs)

    def DeleteQualifier(self, *args, **kwargs):
        self._hit('DeleteQualifier')
        name = args[0] if args else kwargs['QualifierName']
        ns = kwargs.get('namespace', self.default_namespace)
        self.qualifiers.get(ns, {}).pop(name, None)

    def GetQualifier(self, *args, **kwargs):
        self._hit('GetQualifier')
        return super().GetQualifier(*args, **kwargs)


REPO_UNITS = {
    'check': CHECK_UNIT.replace('VC_', 'RU_'),
    'quals': PRELUDE,
    'small': PRELUDE + 'class R_A { [Key] string Id; uint8 p; };\n'
             'class R_B : R_A { R_A REF r; };\n'
             'instance of R_A as $a { Id = "1"; p = 1; };\n'
             'instance of R_B { Id = "2"; r = $a; };\n',
    'undeclared-qualifier': 'class R_A { [Key] string Id; };\n',
    # an instance without its key value: the ALREADY_EXISTS recovery path
    # of instance creation cannot build the instance path
    'keyless-instance': PRELUDE + 'class R_A { [Key] string Id; uint8 p; };\n'
                        'instance of R_A { p = 1; };\n',
    'pragma': '#pragma namespace("root/other")\n' + PRELUDE +
              'class R_A { [Key] string Id; };\n'
              'instance of R_A { Id = "1"; };\n',
}


# first faults that send the compiler into a recovery path, where a second
# fault can hit the recovery call
_RECOVERABLE = [('CreateClass', 11), ('CreateClass', 3), ('CreateClass', 10),
                ('CreateClass', 6), ('CreateClass', 1), ('CreateClass', 4),
                ('CreateInstance', 11), ('SetQualifier', 3),
                ('SetQualifier', 7), ('EnumerateQualifiers', 3),
                ('GetClass', 6)]
_CODES2 = [1, 3, 4, 6, 7, 10, 11, 28]


def repofault_cases(tier):
    "Finite domain: every single fault, and recovery-path fault pairs"
    units = sorted(REPO_UNITS)
    for unit in units:
        for ns in (None, 'root/x'):
            for op in OPS:
                for k in range(1, 7):
                    for code in range(1, 29):
                        yield dict(unit=unit, faults=((op, k, code),), ns=ns)
    kmax = 2 if tier == 'quick' else 4
    for unit in ('small', 'check', 'undeclared-qualifier'):
        for op1, code1 in _RECOVERABLE:
            for k1 in range(1, kmax + 1):
                for op2 in OPS:
                    for k2 in range(1, kmax + 1):
                        for code2 in (_CODES2 if tier == 'quick'
                                      else range(1, 29)):
                            if (op1, k1) == (op2, k2):
                                continue
                            yield dict(unit=unit, ns=None, faults=(
                                (op1, k1, code1), (op2, k2, code2)))


def repofault_enumerate(ctx, shard, nshards):
    for i, ex in enumerate(repofault_cases(ctx.tier)):
        if i % nshards != shard:
            continue
        ctx.current = ex
        repofault_oracle(ctx, ex)


def repofault_replay(ctx, ex):
    ctx.current = ex
    repofault_oracle(ctx, ex)


def repofault_oracle(ctx, ex):
    text = REPO_UNITS[ex['unit']]
    repo = FaultRepo(ex['faults'])
    comp = new_compiler(repo)
    kind, exc = _attempt(lambda: comp.compile_string(text, ex['ns']))
    fired = list(repo.v_fired)
    classes = ['outcome:' + kind, 'fired:%d' % len(fired)]
    if kind == 'leak':
        sig = leak_signature(exc, text)
        if fired and not isinstance(exc, CIMError):
            # which status code sent the compiler down the failing path
            sig += ':after-CIMError-%d' % fired[-1][2]
        elif fired:
            # which call's error escaped, and how many injected errors the
            # compiler had handled before
            sig += ':from-%s-after-%d-handled-faults' % (
                fired[-1][0], len(fired) - 1)
        ctx.fail(sig, _detail(exc, text) + '\nfired: %r' % (fired,))
    elif kind == 'timeout':
        ctx.fail('nontermination:repofault', repr(ex))
    elif kind == 'os':
        ctx.fail('leak:OSError-without-file:' + type(exc).__name__,
                 _detail(exc, text))
    elif kind == 'mof':
        classes.append('mof:' + type(exc).__name__)
        if isinstance(exc, pywbem.MOFRepositoryError):
            ce = exc.cim_error
            if fired and ce is not None and \
                    ce.status_code not in [f[2] for f in fired] + [1]:
                ctx.fail('repofault:cim_error-is-not-an-injected-error',
                         '%r vs fired %r' % (ce, fired))
            classes.append('mof:repo-error-code-%s' %
                           (ce.status_code if ce is not None else None))
        classes.append(check_position(ctx, exc, {None: text}, text))
        _attempt(lambda: str(exc))
    elif kind == 'ok' and not fired:
        classes.append('fault-not-reached')
    repo.v_faults.clear()
    check_reuse(ctx, comp, kind, text)
    for op, _, code in fired:
        classes.append('fault:%s' % op)
        classes.append('code:%d' % code)
    ctx.case(nontrivial=bool(fired) and
             (len(fired) > 1 or fired[0][1] >= 2),
             classes=classes)


# ---------------------------------------------------------------------------
# sub-check: mock

@st.composite
def mock_strategy(draw):
    """
    Units with statement-level changes (a statement dropped, repeated or
    moved: missing dependencies, ALREADY_EXISTS, use before definition) and
    syntax-level mutations; the value/type mutations are left to the strings
    and typed sub-checks, the compiler code is the same.
    """
    if _chance(draw, 12):
        return dict(text=_pick(draw, POSITION_EXPLICIT), ns=None,
                    muts=('explicit',), twice=False)
    _, info = g_unit(draw, prefix='M', pragmas=False)
    stmts = list(info['statements'])
    muts = []
    if _chance(draw, 60) and stmts:
        for _ in range(_int(draw, 1, 2)):
            k = _int(draw, 0, len(stmts) - 1)
            op = _pick(draw, ['stmt-drop', 'stmt-dup', 'stmt-move'])
            if op == 'stmt-drop':
                if k == 0 and stmts[0] == PRELUDE:
                    # drop one qualifier declaration of the prelude
                    lines = PRELUDE.splitlines(True)
                    del lines[_int(draw, 0, len(lines) - 1)]
                    stmts[0] = ''.join(lines)
                else:
                    del stmts[k]
            elif op == 'stmt-dup':
                stmts.insert(_int(draw, k, len(stmts)), stmts[k])
            else:
                st_ = stmts.pop(k)
                stmts.insert(_int(draw, 0, len(stmts)), st_)
            muts.append(op)
            if not stmts:
                break
    base = '\n'.join(stmts) + '\n'
    if _chance(draw, 15):
        base = '#pragma namespace ("%s")\n' % _pick(
            draw, ['root/x', 'root/missing', 'root/cimv2']) + base
        muts.append('pragma-namespace')
    if _chance(draw, 40):
        text, m2 = g_mutated_text(draw, base, SYNTAX_MUTATIONS)
        muts += list(m2)
    else:
        text = base
    return dict(text=text, ns=_pick(draw, [None, 'root/cimv2', 'root/x']),
                muts=tuple(muts), twice=_chance(draw, 10))


_PRAGMA_NS = re.compile(r'#\s*pragma\s+namespace\s*\(\s*"([^"]*)"', re.I)


def mock_oracle(ctx, ex):
    import pywbem_mock
    text = ex['text']
    new_compiler()   # PLY tables
    conn = pywbem_mock.FakedWBEMConnection()
    conn.add_namespace('root/x')
    conn.add_namespace(CHECK_NS)
    existing = ['root/cimv2', 'root/x', CHECK_NS]
    missing_ns = [n for n in _PRAGMA_NS.findall(' '.join(tokenize(text)))
                  if n.strip('/').lower() not in existing]
    classes = []
    if ex['twice']:
        # the same text a second time: ALREADY_EXISTS paths of the repository
        _attempt(lambda: conn.compile_mof_string(text, ex['ns']))
        classes.append('mock:twice')
    kind, exc = _attempt(lambda: conn.compile_mof_string(text, ex['ns']))
    if kind == 'leak' and missing_ns and isinstance(exc, pywbem.Error):
        classes += ['outcome:leak-tolerated',
                    'mock:pragma-ns-missing:' + type(exc).__name__]
    else:
        # comments and line ends may stand between '#pragma' and 'include'
        low = text.lower()
        has_include = 'pragma' in low and 'include' in low
        classes += judge(ctx, kind, exc, text, has_include, {None: text},
                         position=not _in_embedded(exc))
    if CHECK_NS not in text:
        kind2, exc2 = _attempt(
            lambda: conn.compile_mof_string(CHECK_UNIT, CHECK_NS))
        if kind2 != 'ok':
            ctx.fail('reuse-mock:check-unit-fails-after-%s:%s' %
                     (kind, type(exc2).__name__ if exc2 else 'timeout'),
                     _detail(exc2, text) if exc2 else text)
        elif _canon_mock(conn, CHECK_NS) != _expected('mock'):
            ctx.fail('reuse-mock:check-unit-result-differs-after-' + kind,
                     runner.short_repr(text, 700))
    muts = _real_muts(ex['muts'])
    ctx.case(nontrivial=ntokens(text) >= 5 and bool(muts),
             classes=classes + ['mut:' + m for m in ex['muts']])


# ---------------------------------------------------------------------------
# sub-check: depreuse - reuse after a failure that involved the search path

DEP_PRELUDE = PRELUDE


class StrictRepo(pywbem.BaseRepositoryConnection):
    """
    A repository that stores only what it accepted: CreateClass rejects a
    class whose superclass (INVALID_SUPERCLASS), reference classes or
    EmbeddedInstance classes (INVALID_PARAMETER) do not exist, or that exists
    already.  (MOFWBEMConnection keeps rejected classes in its local store,
    which hides compiler state that wrongly says 'this class is known'.)
    """

    default_namespace = 'root/cimv2'

    def __init__(self):
        self.classes = {}      # ns -> {lower name: CIMClass}
        self.qualifiers = {}   # ns -> {lower name: declaration}
        self.instances = {}

    def _ns(self, kwargs):
        return kwargs.get('namespace') or self.default_namespace

    def GetClass(self, *args, **kwargs):
        name = args[0] if args else kwargs['ClassName']
        try:
            cls = self.classes[self._ns(kwargs)][name.lower()].copy()
        except KeyError:
            raise CIMError(pywbem.CIM_ERR_NOT_FOUND, name)
        if not kwargs.get('LocalOnly', True) and cls.superclass:
            sup = self.GetClass(cls.superclass, namespace=self._ns(kwargs),
                                LocalOnly=False)
            for prop in sup.properties.values():
                if prop.name not in cls.properties:
                    cls.properties[prop.name] = prop
        return cls

    def CreateClass(self, *args, **kwargs):
        cls = args[0] if args else kwargs['NewClass']
        store = self.classes.setdefault(self._ns(kwargs), {})
        if cls.classname.lower() in store:
            raise CIMError(pywbem.CIM_ERR_ALREADY_EXISTS, cls.classname)
        if cls.superclass and cls.superclass.lower() not in store:
            raise CIMError(pywbem.CIM_ERR_INVALID_SUPERCLASS, cls.superclass)
        for prop in cls.properties.values():
            if prop.type == 'reference' and \
                    prop.reference_class.lower() not in store:
                raise CIMError(pywbem.CIM_ERR_INVALID_PARAMETER,
                               prop.reference_class)
            emb = prop.qualifiers.get('EmbeddedInstance')
            if emb is not None and isinstance(emb.value, str) and \
                    emb.value.lower() not in store:
                raise CIMError(pywbem.CIM_ERR_INVALID_PARAMETER, emb.value)
        store[cls.classname.lower()] = cls.copy()

    def ModifyClass(self, *args, **kwargs):
        cls = args[0] if args else kwargs['ModifiedClass']
        self.classes.setdefault(self._ns(kwargs), {})[
            cls.classname.lower()] = cls.copy()

    def EnumerateQualifiers(self, *args, **kwargs):
        return list(self.qualifiers.get(self._ns(kwargs), {}).values())

    def GetQualifier(self, *args, **kwargs):
        name = args[0] if args else kwargs['QualifierName']
        try:
            return self.qualifiers[self._ns(kwargs)][name.lower()]
        except KeyError:
            raise CIMError(pywbem.CIM_ERR_NOT_FOUND, name)

    def SetQualifier(self, *args, **kwargs):
        qual = args[0] if args else kwargs['QualifierDeclaration']
        self.qualifiers.setdefault(self._ns(kwargs), {})[
            qual.name.lower()] = qual

    def _unsupported(self, *args, **kwargs):
        raise CIMError(pywbem.CIM_ERR_NOT_SUPPORTED, 'not provided')

    DeleteClass = DeleteQualifier = EnumerateInstanceNames = _unsupported
    CreateInstance = ModifyInstance = DeleteInstance = _unsupported

    def canon(self, ns):
        return sorted('C ' + c.tocimxmlstr()
                      for c in self.classes.get(ns, {}).values())


def _dep_class_text(name, deps, assoc, has_super_key):
    "MOF of one class of the dependency forest; deps: [(kind, target)]"
    sup = [t for k, t in deps if k == 'super']
    feats = []
    if not sup:
        feats.append('[Key] string Id;')
    for k, t in deps:
        if k == 'ref':
            feats.append('[Key] %s REF to_%s;' % (t, t))
        elif k == 'emb':
            feats.append('[EmbeddedInstance("%s")] string in_%s_%s;' %
                         (t, name, t))
    head = '[Association] ' if assoc else ''
    head += 'class ' + name
    if sup:
        head += ' : ' + sup[0]
    del has_super_key
    return head + ' {\n    ' + '\n    '.join(feats) + '\n};\n'


@st.composite
def depreuse_strategy(draw):
    """
    A dependency forest D0..Dn-1 (superclass, reference and EmbeddedInstance
    dependencies towards higher numbers), each class in its own file of the
    search path, missing, or in a file that is broken or defines something
    else.  Step 1 compiles a class that needs D0 (fails if the closure has a
    defect); then every defect is repaired, in the MOF text of step 2 or in
    the search path; step 2 compiles valid MOF that needs D0 again.
    """
    n = _int(draw, 2, 5)
    deps = {}
    for i in range(n - 1):
        cand = list(range(i + 1, n))
        ds = []
        nd = 1 if i == 0 else _int(draw, 0, 2)
        for _ in range(nd):
            t = _pick(draw, cand)
            kind = _pick(draw, ['ref', 'ref', 'emb', 'super'])
            if any(x[1] == t for x in ds):
                continue
            if kind == 'super' and any(x[0] in ('super', 'ref')
                                       for x in ds):
                kind = 'emb'
            if kind == 'ref' and any(x[0] == 'super' for x in ds):
                kind = 'emb'
            ds.append((kind, t))
        deps[i] = ds
    deps[n - 1] = []
    assoc = {}
    for i in reversed(range(n)):
        assoc[i] = any(k == 'ref' for k, _ in deps[i]) or \
            any(k == 'super' and assoc[t] for k, t in deps[i])
    status = {}
    repair = {}
    for i in range(n):
        status[i] = _pick(draw, ['file', 'file', 'file', 'missing',
                                 'missing', 'broken', 'wrongfile'])
        repair[i] = _pick(draw, ['inline', 'inline', 'file'])
    topkind1 = _pick(draw, ['ref', 'ref', 'emb', 'super'])
    topkind2 = _pick(draw, ['ref', 'ref', 'emb', 'super', 'same'])
    names = ['Dep_%d' % i for i in range(n)]
    texts = {i: _dep_class_text(names[i],
                                [(k, names[t]) for k, t in deps[i]],
                                assoc[i], False) for i in range(n)}

    def top(name, kind):
        return _dep_class_text(name, [(kind, names[0])],
                               kind == 'ref' or
                               (kind == 'super' and assoc[0]), False)

    files1 = {}
    files2 = {}
    inline = []
    for i in range(n):
        fname = names[i] + '.mof'
        good = texts[i]
        if status[i] == 'file':
            files1[fname] = files2[fname] = good
            continue
        if status[i] == 'broken':
            files1[fname] = good.replace('{', '{ $', 1)
        elif status[i] == 'wrongfile':
            files1[fname] = 'class Dep_Other_%d { [Key] string Id; };\n' % i
        if repair[i] == 'file':
            files2[fname] = good
        else:
            if fname in files1:
                files2[fname] = files1[fname]
            inline.append(i)
    step1 = top('Dep_Top1', topkind1)
    step2 = ''.join(texts[i] for i in sorted(inline, reverse=True))
    if topkind2 == 'same':
        step2 += step1 if False else top('Dep_Top2', topkind1)
    else:
        step2 += top('Dep_Top2', topkind2)
    return dict(handle=_pick(draw, ['strict', 'strict', 'faked']),
                files1=files1, files2=files2, step1=step1, step2=step2,
                ns=_pick(draw, [None, 'root/cimv2']),
                status=dict((names[i], status[i]) for i in range(n)),
                defects=tuple(sorted(set(status[i] for i in range(n)
                                         if status[i] != 'file'))),
                repairs=tuple(sorted(set(repair[i] for i in range(n)
                                         if status[i] != 'file'))),
                kinds=tuple(sorted(set(k for i in deps for k, _ in deps[i])
                                   | {topkind1})))


def _dep_sequence(ex, tmp, reuse):
    """
    Prelude, step 1, repairs, step 2 on a new repository; step 2 on the same
    compiler object (reuse) or on a new one for the same repository.
    Returns ((kind1, exc1), (kind2, exc2), canonical classes).
    """
    os.makedirs(tmp)
    if ex['handle'] == 'faked':
        import pywbem_mock
        handle = pywbem_mock.FakedWBEMConnection()
    else:
        handle = StrictRepo()
    ns = ex['ns']
    comp = new_compiler(handle, search_paths=[tmp])
    r0 = _attempt(lambda: comp.compile_string(DEP_PRELUDE, ns))
    if r0[0] != 'ok':
        return r0, r0, None
    for name, text in ex['files1'].items():
        with open(os.path.join(tmp, name), 'w', encoding='utf-8') as fp:
            fp.write(text)
    r1 = _attempt(lambda: comp.compile_string(ex['step1'], ns))
    for name in ex['files1']:
        os.remove(os.path.join(tmp, name))
    for name, text in ex['files2'].items():
        with open(os.path.join(tmp, name), 'w', encoding='utf-8') as fp:
            fp.write(text)
    comp2 = comp if reuse else new_compiler(handle, search_paths=[tmp])
    r2 = _attempt(lambda: comp2.compile_string(ex['step2'], ns))
    nsn = ns or 'root/cimv2'
    if ex['handle'] == 'faked':
        canon = sorted('C ' + c.tocimxmlstr() for c in
                       handle.cimrepository.get_class_store(nsn)
                       .iter_values())
    else:
        canon = handle.canon(nsn)
    return r1, r2, canon


def depreuse_oracle(ctx, ex):
    tmp = os.path.realpath(tempfile.mkdtemp(prefix='c09-dep-'))
    try:
        r1a, r2a, canon_a = _dep_sequence(ex, os.path.join(tmp, 'a'), True)
        r1b, r2b, canon_b = _dep_sequence(ex, os.path.join(tmp, 'a2'),
                                          False)
    finally:
        shutil.rmtree(tmp, ignore_errors=True)
    text = ex['step1'] + '\n--- step 2:\n' + ex['step2'] + \
        '\n--- search path at step 1: %r\n--- at step 2: %r' % (
            ex['files1'], ex['files2'])

    def tag(res):
        kind, exc = res
        return kind if kind != 'mof' else type(exc).__name__

    classes = ['handle:' + ex['handle'], 'step1:' + tag(r1a),
               'step2-reused:' + tag(r2a), 'step2-fresh:' + tag(r2b)]
    classes += ['defect:' + d for d in ex['defects']] or ['defect:none']
    classes += ['repair:' + d for d in ex['repairs']]
    classes += ['dep:' + k for k in ex['kinds']]
    for step, res in (('step1', r1a), ('step2', r2a), ('step2-fresh', r2b)):
        kind, exc = res
        if kind == 'leak':
            ctx.fail(leak_signature(exc, text) + '@' + step,
                     _detail(exc, text))
        elif kind == 'timeout':
            ctx.fail('nontermination:depreuse-' + step, text)
        elif kind == 'os':
            ctx.fail('leak:OSError-without-missing-file:' + step,
                     _detail(exc, text))
    if tag(r1a) != tag(r1b):
        ctx.fail('depreuse:step-1-not-deterministic',
                 '%s vs %s\n%s' % (tag(r1a), tag(r1b), text))
    elif r2b[0] == 'ok' and r2a[0] == 'mof':
        # which dependency the reused compiler did not resolve, and what
        # was wrong with it at step 1 (different causes, different keys)
        msg = r2a[1].msg or ''
        failing = re.findall(r'Cannot compile class \S*?(Dep_\d+)', msg)
        named = sorted((set(re.findall(r'Dep_\d+', msg)) - set(failing)) &
                       set(ex['status']))
        what = '+'.join(sorted(set(ex['status'][x] for x in named))) or \
            'unknown'
        ctx.fail('depreuse:valid-mof-fails-only-on-the-compiler-that-had-a-'
                 'failed-compile:%s:dependency-was-%s-at-step-1' %
                 (type(r2a[1]).__name__, what),
                 'step 1 ended with %s; step 2 on a new compiler for the '
                 'same repository succeeds, on the same compiler: %s\n%s' %
                 (tag(r1a), r2a[1], text))
    elif tag(r2a) != tag(r2b):
        ctx.fail('depreuse:step-2-outcome-differs-from-new-compiler',
                 'same compiler: %s, new compiler: %s\n%s' %
                 (tag(r2a), tag(r2b), text))
    elif canon_a != canon_b:
        ctx.fail('depreuse:repository-differs-from-new-compiler',
                 '%r\nvs\n%r\n%s' % (canon_a, canon_b, text))
    ctx.case(nontrivial=r1a[0] == 'mof' and r2b[0] == 'ok',
             classes=classes)


# ---------------------------------------------------------------------------
# sub-check: termination (finite list)

def _bombs():
    esc = '\\x1111'
    cls = 'class B { string s = %s; };\n'
    nested = 'instance of B { s = \\"x\\"; };'
    for _ in range(3):
        nested = 'instance of B { s = "%s"; };' % nested.replace(
            '\\', '\\\\').replace('"', '\\"')
    return [
        ('string-18-hex-escapes-unterminated', cls % ('"' + esc * 18)),
        ('string-18-hex-escapes-ended-by-newline',
         'class B { string s = "' + esc * 18 + '\n"; };\n'),
        ('string-18-hex-escapes-bad-escape-at-end',
         cls % ('"' + esc * 18 + '\\q"')),
        ('string-24-short-hex-escapes-unterminated',
         cls % ('"' + '\\XAB' * 24)),
        ('string-18-hex-escapes-terminated', cls % ('"' + esc * 18 + '"')),
        ('string-3000-hex-escapes-terminated', cls % ('"' + esc * 3000 + '"')),
        ('char-unterminated', "class B { char16 c = '\\x1111; };\n"),
        ('qualifier-string-18-hex-escapes-unterminated',
         PRELUDE + 'class B { [Description("' + esc * 18 + ')] string s; };'),
        ('decimal-5000-digits', 'class B { uint64 p = ' + '9' * 5000 + '; };'),
        ('decimal-100000-digits',
         'class B { uint64 p = ' + '9' * 100000 + '; };'),
        ('hex-5000-digits', 'class B { uint64 p = 0x' + 'F' * 5000 + '; };'),
        ('octal-5000-digits', 'class B { uint64 p = 0' + '7' * 5000 + '; };'),
        ('binary-5000-digits',
         'class B { uint64 p = ' + '1' * 5000 + 'b; };'),
        ('real-5000-digits',
         'class B { real64 p = 0.' + '0' * 5000 + '1; };'),
        ('real-exponent-999', 'class B { real64 p = 1.0e999; };'),
        ('real-exponent-huge', 'class B { real64 p = 1.0e99999999; };'),
        ('block-comment-unterminated-150kB', '/* ' + 'a *\n' * 37000),
        ('block-comment-many-openers', '/*/ ' * 20000),
        ('line-150kB', 'class B { string s = "' + 'a' * 150000 + '"; };'),
        ('identifier-150kB', 'class ' + 'B' * 150000 + ' {};'),
        ('string-3000-parts', cls % ' '.join(['"ab"'] * 3000)),
        ('array-5000-values',
         'class B { uint32 p[] = {' + ', '.join(['1'] * 5000) + '}; };'),
        ('class-3000-properties', 'class B { ' + ' '.join(
            'uint8 p%d;' % i for i in range(3000)) + ' };'),
        ('3000-classes', ' '.join('class B%d {};' % i for i in range(3000))),
        ('illegal-characters-50000', '@' * 50000),
        ('quotes-20000', '"' * 20001),
        ('backslashes-in-string-20000', cls % ('"' + '\\\\' * 20000 + '"')),
        ('backslashes-in-string-20001-unterminated',
         cls % ('"' + '\\' * 20001 + '"')),
        ('nested-embedded-instances',
         PRELUDE + 'class B { [Key] string Id; [EmbeddedObject] string s; '
         '};\ninstance of B { Id = "1"; s = "%s"; };\n' %
         nested.replace('\\', '\\\\').replace('"', '\\"')),
        ('crs-50000', 'class B {' + '\r' * 50000 + '$ };'),
        ('newlines-100000', '\n' * 100000 + 'class B { $ };'),
    ]


BOMBS = _bombs()


def termination_oracle(ctx, name):
    text = dict(BOMBS)[name]
    comp = new_compiler()
    kind, exc = _attempt(lambda: comp.compile_string(text, None))
    classes = judge(ctx, kind, exc, text, False, {None: text}, label=name,
                    position=not _in_embedded(exc))
    if kind != 'timeout':
        check_reuse(ctx, comp, kind, text)
    ctx.case(nontrivial=True, classes=classes + ['bomb:' + name])


def termination_enumerate(ctx, shard, nshards):
    for i, (name, _) in enumerate(BOMBS):
        if i % nshards != shard:
            continue
        ctx.current = name
        termination_oracle(ctx, name)


def typed_replay(ctx, ex):
    ctx.current = ex
    typed_oracle(ctx, tuple(ex))


def termination_replay(ctx, ex):
    ctx.current = ex
    termination_oracle(ctx, ex)


def atheris_campaign(ctx, shard, nshards):
    """
    Coverage-guided campaign on MOF text (thorough tier; pbt/fuzzlib.py,
    pbt/fuzz_c09.py): one libFuzzer process per shard, artifacts come back
    through atheris_replay() = the 'strings' oracle.
    """
    from . import fuzz_c09, fuzzlib
    fuzzlib.campaign(ctx, shard, 'pbt.fuzz_c09', fuzz_c09.seed_corpus,
                     atheris_replay, max_len=6000,
                     dictionary=fuzz_c09.DICTIONARY, timeout=TIMEOUT + 15)


def atheris_replay(ctx, example):
    from . import fuzz_c09
    ctx.current = example
    text = fuzz_c09.text_from_bytes(bytes.fromhex(example[1]))
    string_oracle(ctx, dict(text=text, ns=None, muts=('atheris',),
                            src='text'))


SUBCHECKS = [
    Sub('strings', strategy=strings_strategy, oracle=string_oracle,
        quick=(16, 600), thorough=(16, 12000), case_timeout=60),
    Sub('typed', enumerate=typed_enumerate, quick=(16, 0), thorough=(16, 0)),
    Sub('files', strategy=files_strategy, oracle=files_oracle,
        quick=(8, 120), thorough=(16, 3000), case_timeout=60),
    Sub('repofault', enumerate=repofault_enumerate, quick=(16, 0),
        thorough=(16, 0)),
    Sub('mock', strategy=mock_strategy, oracle=mock_oracle,
        quick=(8, 150), thorough=(16, 3000), case_timeout=90),
    Sub('termination', enumerate=termination_enumerate, quick=(8, 0),
        thorough=(8, 0)),
    Sub('atheris', enumerate=atheris_campaign, quick=(0, 0),
        thorough=(8, 0), budget=(0, 900)),
    Sub('depreuse', strategy=depreuse_strategy, oracle=depreuse_oracle,
        quick=(8, 70), thorough=(16, 1500), case_timeout=90),
]
SUBCHECKS[6].replay = atheris_replay
SUBCHECKS[1].replay = typed_replay
SUBCHECKS[3].replay = repofault_replay
SUBCHECKS[5].replay = termination_replay
