"""
C02 - Bad server responses surface only as documented pywbem errors.
DESIGN.md 4.2.
"""

import glob
import os
import sys

from hypothesis import strategies as st
import requests
import urllib3

import pywbem

from .runner import Sub, REPO, exc_signature
from . import strategies as S
from . import ops as O
from . import responses as R
from .xmlserver import connect, Resp, request_method_name

PROPERTY = 'C02'
RULE = (
    "Example = (operation call with valid arguments, connection settings, "
    "1..3 scripted responses).  Responses: (xml) a well-formed, DTD-valid, "
    "semantically right response for the method actually requested, built "
    "from generated CIM objects, then 0..3 tree mutations (rename element, "
    "delete/rename/set attribute from a pool of bad values, replace text by "
    "out-of-range/INF/garbage values, delete/duplicate/move/replace "
    "elements, inject ERROR with odd CODE, inject PARAMVALUEs, malformed "
    "embedded-object text); (bytes) byte-level damage of such a response "
    "(truncation, byte flips, ill-formed UTF-8, UTF-16, bogus encoding "
    "declarations, DOCTYPE with entities, deep nesting, trailing garbage) or "
    "arbitrary bytes; (yaml) responses recorded in tests/functiontest/*.yaml "
    "with mutations; x HTTP status/headers (Content-Type, CIMError, "
    "PGErrorDetail, WBEMServerResponseTime, WWW-Authenticate, "
    "Content-Encoding) x transport faults (every requests/urllib3 exception "
    "class).  Oracle: the call returns a value of the documented result type "
    "or raises a pywbem.Error subclass; ParseErrors carry request and "
    "response data; it terminates.  Non-trivial = the response reaches "
    "operation-level logic (well-formed XML accepted by parse_cim) or is one "
    "defect away from a valid response.  Distinct = distinct example.")
ASSUMPTIONS = [
    "the atheris campaign (thorough tier) fuzzes (operation selector byte, "
    "response body bytes) for 22 fixed valid calls; libFuzzer seeds are "
    "derived from VERIF_SEED but a campaign is only approximately "
    "reproducible - the saved crash input is the reproducible unit",
    "arguments are always valid (argument validation errors raised before "
    "anything is sent are not in scope and are counted as 'local')",
    "Iter... calls are generated without FilterQuery/ContinueOnError/"
    "ReturnQueryResultClass (their documented ValueError on fallback belongs "
    "to C15)",
    "responses are bounded (<= ~64 KiB, nesting <= 450); after 6 requests of "
    "one call the scripted server ends the enumeration with a valid final "
    "response",
    "transport exceptions are constructed the way requests/urllib3 construct "
    "them (with a message or inner exception)",
]
SENSITIVITY = []

_YAML = None


def yaml_bodies():
    "recorded response bodies of the repository's function tests"
    global _YAML
    if _YAML is None:
        import yaml
        loader = getattr(yaml, 'CSafeLoader', yaml.SafeLoader)
        out = []
        for f in sorted(glob.glob(os.path.join(
                REPO, 'tests', 'functiontest', '*.yaml'))):
            try:
                docs = yaml.load(open(f, encoding='utf-8'), Loader=loader)
            except Exception:  # pylint: disable=broad-except
                continue
            for tc in docs or []:
                try:
                    data = tc['http_response']['data']
                    meth = tc['pywbem_request']['operation']['pywbem_method']
                except (KeyError, TypeError):
                    continue
                if isinstance(data, str) and data.strip():
                    out.append((meth, data))
        _YAML = out
    return _YAML


STATUS = [(200, 'OK')] * 12 + [
    (100, 'Continue'), (204, 'No Content'), (301, 'Moved'), (400, 'Bad'),
    (401, 'Unauthorized'), (403, 'Forbidden'), (404, 'Not Found'),
    (407, 'Proxy'), (500, 'Internal'), (501, 'Not Implemented'),
    (503, 'Unavailable'), (599, ''), (200, '')]
HEADERS = [
    ('Content-Type', 'application/xml; charset="utf-8"'),
    ('Content-Type', 'application/xml; charset="utf-8"'),
    ('Content-Type', 'text/xml'), ('Content-Type', 'text/html'),
    ('Content-Type', ''), ('Content-Type', 'application/xml; charset=utf-16'),
    ('CIMError', 'request-not-valid'), ('CIMError', 'x y'),
    ('PGErrorDetail', 'a%20b%zz'), ('PGErrorDetail', '%ff%fe'),
    ('WBEMServerResponseTime', '1234'), ('WBEMServerResponseTime', 'abc'),
    ('WBEMServerResponseTime', '1e999'), ('WBEMServerResponseTime', ''),
    ('WBEMServerResponseTime', '-5'),
    ('WWW-Authenticate', 'Basic realm="x"'), ('WWW-Authenticate', 'Digest'),
    ('WWW-Authenticate', ''), ('WWW-Authenticate', ',,, ,'),
    ('Content-Encoding', 'gzip'), ('Content-Encoding', 'deflate'),
    ('Content-Length', '5'), ('CIMOperation', 'MethodResponse'),
    ('Transfer-Encoding', 'chunked'),
]
ERROR_CODES = ['', ' ', '1 ', ' 1', '01', '+1', '-1', '1.0', '1e1', '0x1', '1_0',
               '99', '255', '65536', '9' * 30, 'x', 'CIM_ERR_FAILED', 'None',
               '\u00b2', '1\u00b9', '\u2460', '\uff11', '\u0661', '\u0969',
               '\u00bd', '1\n', '\t1', '{0}', '%d']
LOCATIONS = ['http://[bad', 'https://[::1', 'http://srv/cimom', '/cimom', '/x',
             '', ' ', '//', 'ftp://x/y', 'http://other:99999/', 'http://h:abc/',
             'http://exa mple/', 'http://\u00e9/', 'mailto:a@b', 'http://',
             'http://srv:5988/cimom?x=1#frag', '../..', 'http://[::1]:5988/',
             'http://user:pw@srv/cimom', 'HTTP://SRV/cimom', ':', 'a b',
             'http://srv/\x00']
PAYLOAD_OPS = sorted(R.KIND)
AUTH_PARTS = ['Basic realm="x"', 'Basic', 'Negotiate', 'Digest realm="a, b"',
              '', ' ', 'basic', 'Basic  realm="x"', ' Basic realm="x"',
              'Kerberos', 'NTLM abc==', '\tBasic', 'Basic,']
FAULTS = ['ConnectionError', 'ConnectTimeout', 'ReadTimeout', 'SSLError',
          'ProxyError', 'ChunkedEncodingError', 'ContentDecodingError',
          'TooManyRedirects', 'RetryError', 'InvalidHeader', 'InvalidURL',
          'u3:ProtocolError', 'u3:ReadTimeoutError', 'u3:MaxRetryError',
          'u3:NewConnectionError', 'u3:SSLError', 'u3:DecodeError',
          'u3:MaxRetry(ReadTimeout)', 'Conn(MaxRetry(NewConn))',
          'Conn(ProtocolError)', 'u3:IncompleteRead', 'u3:LocationParseError']


def make_fault(name):
    u3 = urllib3.exceptions
    rq = requests.exceptions
    if name == 'u3:ProtocolError':
        return u3.ProtocolError('Connection aborted.',
                                ConnectionResetError(104, 'reset by peer'))
    if name == 'u3:ReadTimeoutError':
        return u3.ReadTimeoutError(None, '/cimom', 'Read timed out.')
    if name == 'u3:MaxRetryError':
        return u3.MaxRetryError(None, '/cimom', reason=None)
    if name == 'u3:NewConnectionError':
        return u3.NewConnectionError(None, 'Failed to establish a new '
                                     'connection: [Errno 111] refused')
    if name == 'u3:SSLError':
        return u3.SSLError('bad handshake')
    if name == 'u3:DecodeError':
        return u3.DecodeError('decode')
    if name == 'u3:IncompleteRead':
        return u3.IncompleteRead(3, 10)
    if name == 'u3:LocationParseError':
        return u3.LocationParseError('http://[')
    if name == 'u3:MaxRetry(ReadTimeout)':
        return u3.MaxRetryError(
            None, '/cimom',
            reason=u3.ReadTimeoutError(None, '/cimom', 'Read timed out.'))
    if name == 'Conn(MaxRetry(NewConn))':
        return rq.ConnectionError(u3.MaxRetryError(
            None, '/cimom', reason=u3.NewConnectionError(None, 'refused')))
    if name == 'Conn(ProtocolError)':
        return rq.ConnectionError(u3.ProtocolError(
            'Connection aborted.', ConnectionResetError(104, 'reset')))
    if name == 'SSLError':
        return rq.SSLError(u3.MaxRetryError(
            None, '/cimom', reason=u3.SSLError('CERTIFICATE_VERIFY_FAILED')))
    if name == 'RetryError':
        return rq.RetryError(u3.MaxRetryError(None, '/cimom', reason=None))
    if name == 'ContentDecodingError':
        return rq.ContentDecodingError(u3.DecodeError('bad gzip'))
    if name == 'ChunkedEncodingError':
        return rq.ChunkedEncodingError(u3.ProtocolError('chunk'))
    cls = getattr(rq, name)
    return cls('scripted %s' % name)


def g_response(draw):
    mode = draw(st.sampled_from(['xml'] * 10 + ['bytes'] * 3 +
                                ['raw', 'yaml', 'yaml', 'fault', 'cimerror']))
    spec = {'mode': mode}
    status = draw(st.sampled_from(STATUS))
    if mode in ('xml', 'yaml') and draw(S._I10) < 8:
        status = (200, 'OK')
    nh = draw(st.sampled_from([0, 0, 0, 1, 1, 2]))
    headers = [draw(st.sampled_from(HEADERS)) for _ in range(nh)]
    # HTTP-level scenarios in which status and headers belong together
    scen = draw(S._I100)
    if scen < 6:
        status = (401, draw(st.sampled_from(['Unauthorized', '', 'x'])))
        if draw(S._I10) < 8:
            parts = [draw(st.sampled_from(AUTH_PARTS))
                     for _ in range(1 + draw(S._I10) % 4)]
            headers.append(('WWW-Authenticate',
                            draw(st.sampled_from([',', ', ', ' ,'])).join(
                                parts)))
    elif scen < 12:
        status = draw(st.sampled_from([s for s in STATUS if s[0] != 200]))
        headers.append(('CIMError', draw(st.sampled_from(
            ['request-not-valid', 'unsupported-protocol-version', '', ' ',
             'x y', 'é']))))
        if draw(S._B):
            headers.append(('PGErrorDetail', draw(st.sampled_from(
                ['a%20b', '%', '%zz', '%ff%fe', '', 'a b', '%E2%82']))))
    elif scen < 16:
        # redirects: requests follows them and parses the Location value
        status = draw(st.sampled_from([(301, 'Moved Permanently'),
                                       (302, 'Found'), (303, 'See Other'),
                                       (307, 'Temporary Redirect'),
                                       (308, 'Permanent Redirect')]))
        headers.append(('Location', draw(st.sampled_from(LOCATIONS))))
    spec['status'] = status
    spec['headers'] = headers
    if mode in ('xml', 'bytes'):
        spec['pool'] = R.g_pool(draw)
        spec['mut'] = R.g_mutations(draw)
        r = draw(S._I100)
        if r < 12:
            # the (valid) answer to another operation / the other level
            spec['payload_of'] = draw(st.sampled_from(PAYLOAD_OPS))
            spec['flip_level'] = draw(S._B)
            spec['mix'] = draw(S._B)
            if r < 8:
                spec['mut'] = []
    if mode == 'bytes':
        spec['damage'] = (draw(st.integers(0, R.N_DAMAGE - 1)),
                          draw(st.integers(0, 10 ** 6)),
                          draw(st.integers(0, 10 ** 6)))
    if mode == 'raw':
        spec['raw'] = draw(st.one_of(
            st.binary(max_size=40),
            st.sampled_from([b'', b'<', b'<CIM/>', b'<?xml version="1.0"?>',
                             b'\xef\xbb\xbf<CIM/>', b'\xff\xfe<\x00',
                             b'<CIM CIMVERSION="2.0" DTDVERSION="2.0"/>',
                             b'<CIM CIMVERSION="2.0" DTDVERSION="2.0">'
                             b'<MESSAGE ID="1" PROTOCOLVERSION="1.0"/></CIM>',
                             b'<CIM CIMVERSION="3.0" DTDVERSION="2.0">'
                             b'<MESSAGE ID="1" PROTOCOLVERSION="1.0">'
                             b'<SIMPLERSP/></MESSAGE></CIM>'])))
    if mode == 'cimerror':
        # an ERROR element in place: status code attribute of every shape
        # (valid, out of range, not a number, digits that are no int()
        # literal), description, optional error instances
        spec['code'] = draw(st.one_of(
            st.integers(0, 30).map(str),
            st.sampled_from(ERROR_CODES),
            st.sampled_from(R.ATTR_VALUES)))
        spec['desc'] = draw(st.one_of(st.none(), S._CIMSTR,
                                      st.sampled_from(R.ATTR_VALUES)))
        spec['einst'] = draw(st.sampled_from([0, 0, 0, 1, 2]))
        spec['mut'] = R.g_mutations(draw) if draw(S._I10) < 3 else []
    if mode == 'yaml':
        spec['yaml'] = draw(st.integers(0, 10 ** 6))
        spec['mut'] = R.g_mutations(draw)
    if mode == 'fault':
        spec['fault'] = draw(st.sampled_from(FAULTS))
    return spec


def strategy(ops=None):
    ops = list(ops or O.ALL_OPS)

    @st.composite
    def strat(draw):
        op = ops[draw(st.integers(0, len(ops) - 1))]
        call = O.g_call(draw, op, simple_paths=draw(S._B))
        if op.startswith('Iter'):
            for k in ('FilterQuery', 'FilterQueryLanguage', 'ContinueOnError',
                      'ReturnQueryResultClass'):
                if k in call['args'] and op != 'IterQueryInstances':
                    call['args'][k] = None
            if op == 'IterQueryInstances':
                call['args']['ContinueOnError'] = None
                call['args']['ReturnQueryResultClass'] = None
        conn = {'dns': draw(st.sampled_from([None, 'root/cimv2', 'a/b'])),
                'pull': draw(st.sampled_from([None, None, True, False])),
                'stats': draw(st.sampled_from([False, False, True]))}
        n = draw(st.sampled_from([1, 1, 2, 3]))
        return {'call': call, 'conn': conn,
                'responses': [g_response(draw) for _ in range(n)]}
    return strat()


MAX_REQ = 6


def build_body(spec, tag, name, call, force_final=False):
    "bytes of the response body for a request (tag, name)"
    class_level = not (isinstance(call['args'].get('ObjectName'), dict) and
                       call['args']['ObjectName']['k'] == 'ipath')
    if force_final:
        pool = spec.get('pool') or {'insts': [], 'classes': [], 'qdecls': [],
                                    'retval': ('uint8', False, 0), 'outs': [],
                                    'eos': True, 'ctx': 'c'}
        return R.valid_response(tag or 'IMETHODCALL', name or 'x', pool,
                                class_level, force_eos=True).encode('utf-8')
    mode = spec['mode']
    if mode == 'raw':
        return spec['raw']
    if mode == 'yaml':
        bodies = yaml_bodies()
        same = [b for m, b in bodies if m == name] or [b for m, b in bodies]
        text = same[spec['yaml'] % len(same)]
        try:
            text = R.mutate(text, spec['mut'])
        except Exception:  # pylint: disable=broad-except
            pass  # recorded body that is not well-formed: use as is
        return text.encode('utf-8')
    if mode == 'cimerror':
        text = cimerror_body(tag or 'IMETHODCALL', name or 'x', spec)
        try:
            text = R.mutate(text, spec['mut'])
        except Exception:  # pylint: disable=broad-except
            pass    # characters lxml cannot hold: use the unmutated text
        return text.encode('utf-8', 'surrogatepass')
    if spec.get('flip_level'):
        class_level = not class_level
    own_level = class_level
    if spec.get('flip_level'):
        own_level = not class_level
    text = R.valid_response(tag or 'IMETHODCALL', name or 'x', spec['pool'],
                            class_level, payload_of=spec.get('payload_of'),
                            mix=bool(spec.get('mix')),
                            own_class_level=own_level)
    text = R.mutate(text, spec['mut'])
    body = text.encode('utf-8')
    if mode == 'bytes':
        body = R.damage(body, *spec['damage'])
    return body


def cimerror_body(tag, name, spec):
    from xml.sax.saxutils import quoteattr
    rtag = {'IMETHODCALL': 'IMETHODRESPONSE', 'METHODCALL': 'METHODRESPONSE',
            'EXPMETHODCALL': 'EXPMETHODRESPONSE'}[tag]
    outer = 'SIMPLEEXPRSP' if tag == 'EXPMETHODCALL' else 'SIMPLERSP'
    attrs = ' CODE=%s' % quoteattr(spec['code'])
    if spec['desc'] is not None:
        attrs += ' DESCRIPTION=%s' % quoteattr(spec['desc'])
    inst = ('<INSTANCE CLASSNAME="CIM_Error"><PROPERTY NAME="ErrorType" '
            'TYPE="uint16"><VALUE>4</VALUE></PROPERTY></INSTANCE>')
    return ('<?xml version="1.0" encoding="utf-8" ?>\n<CIM CIMVERSION="2.0" '
            'DTDVERSION="2.0"><MESSAGE ID="1001" PROTOCOLVERSION="1.0">'
            '<%s><%s NAME=%s><ERROR%s>%s</ERROR></%s></%s></MESSAGE></CIM>' %
            (outer, rtag, quoteattr(name), attrs, inst * spec['einst'], rtag,
             outer))


PRELUDE_POOL = {'insts': [{'k': 'inst', 'classname': 'CIM_Prelude',
                           'properties': [], 'qualifiers': [], 'path': {
                               'k': 'ipath', 'classname': 'CIM_Prelude',
                               'keys': [('k', 'string', 'prelude')],
                               'namespace': 'root/cimv2', 'host': 'h'}}],
                'classes': [], 'qdecls': [], 'retval': ('uint8', False, 0),
                'outs': [], 'eos': True, 'ctx': 'c'}


def run_case(ex, observers=None, conn_kw=None, prelude=False):
    """
    Run one example; returns (outcome, value-or-exception, adapter, bodies)
    outcome in 'returned' | 'error' (pywbem.Error) | 'leak' | 'local'
    `observers(conn)` is called after the connection was created.
    """
    call = ex['call']
    bodies = []

    def responder(req):
        i = len(adapter.requests) - 1
        if prelude:
            if i == 0:
                body = R.valid_response(
                    'IMETHODCALL', 'EnumerateInstanceNames',
                    PRELUDE_POOL).encode('utf-8')
                bodies.append(body)
                return Resp(body)
            i -= 1
        specs = ex['responses']
        spec = specs[min(i, len(specs) - 1)]
        tag, name = request_method_name(req.body)
        if i >= MAX_REQ:
            body = build_body(spec, tag, name, call, force_final=True)
            bodies.append(body)
            return Resp(body)
        if spec['mode'] == 'fault':
            bodies.append(None)
            return Resp(exc=make_fault(spec['fault']))
        body = build_body(spec, tag, name, call)
        bodies.append(body)
        headers = {'Content-Type': 'application/xml; charset="utf-8"'}
        for k, v in spec['headers']:
            headers[k] = v
        return Resp(body, status=spec['status'][0], reason=spec['status'][1],
                    headers=headers)
    kw = {'use_pull_operations': ex['conn']['pull'],
          'stats_enabled': ex['conn'].get('stats', False)}
    if ex['conn']['dns']:
        kw['default_namespace'] = ex['conn']['dns']
    kw.update(conn_kw or {})
    conn, adapter = connect(responder, **kw)
    if observers:
        observers(conn)
    try:
        if prelude:
            # a successful operation before the one under test, on the same
            # connection
            conn.EnumerateInstanceNames('CIM_Prelude')
        try:
            r = O.invoke(conn, call)
            return 'returned', r, adapter, bodies, conn
        except pywbem.Error as exc:
            return 'error', exc, adapter, bodies, conn
        except Exception as exc:  # pylint: disable=broad-except
            if not adapter.requests:
                return 'local', exc, adapter, bodies, conn
            return 'leak', exc, adapter, bodies, conn
    finally:
        conn.close()


def _reaches_logic(body):
    from pywbem._tupletree import xml_to_tupletree_sax
    from pywbem._tupleparse import TupleParser
    try:
        TupleParser().parse_cim(xml_to_tupletree_sax(body, 'x'))
        return True
    except Exception:  # pylint: disable=broad-except
        return False


def oracle(ctx, ex, key=None):
    import warnings
    with warnings.catch_warnings():
        warnings.simplefilter('ignore')
        outcome, val, adapter, bodies, conn = run_case(ex)
    op = ex['call']['op']
    classes = ['op:' + op, 'outcome:' + outcome,
               'mode:' + ex['responses'][0]['mode']]
    if any(sp.get('payload_of') for sp in ex['responses']):
        classes.append('payload:of-another-operation')
    if any(300 <= sp['status'][0] < 400 and
           any(k == 'Location' for k, _ in sp['headers'])
           for sp in ex['responses']):
        classes.append('scenario:redirect-with-location')
    if outcome == 'leak':
        ctx.fail_exc(val, 'leak')
    elif outcome == 'error':
        classes.append('error:' + type(val).__name__)
        if isinstance(val, pywbem.ParseError):
            last = bodies[-1] if bodies else None
            rd = val.response_data
            qd = val.request_data
            if last is not None:
                if rd is None:
                    ctx.fail('parse-error-without-response-data:' +
                             (exc_signature(val) or type(val).__name__),
                             repr(val)[:500])
                else:
                    encoded = any(k.lower() == 'content-encoding'
                                  for s in ex['responses']
                                  for k, _ in s['headers'])
                    if isinstance(rd, bytes) and rd not in bodies and \
                            not encoded:
                        ctx.fail('parse-error-response-data-differs',
                                 '%r vs %r' % (rd[:200], last[:200]))
                if qd is None:
                    ctx.fail('parse-error-without-request-data:' +
                             (exc_signature(val) or type(val).__name__),
                             repr(val)[:500])
                else:
                    # (an Iter... call may have sent a CloseEnumeration after
                    # the failing request)
                    qdb = qd.encode('utf-8') if isinstance(qd, str) else qd
                    if not any(qdb in r.body for r in adapter.requests):
                        ctx.fail('parse-error-request-data-differs',
                                 '%r vs %r' % (qdb[:200],
                                               adapter.requests[-1].body[:200]))
    elif outcome == 'returned':
        if not R.result_type_ok(op, ex['call'], val):
            ctx.fail('result-type:' + op,
                     'returned %r' % (val,))
    nontriv = False
    if outcome != 'local':
        specs = ex['responses']
        nontriv = any(s['mode'] in ('xml', 'yaml', 'cimerror') and len(s.get('mut', ()))
                      <= 1 for s in specs) or \
            any(b is not None and _reaches_logic(b) for b in bodies[:2])
    ctx.case(key=key, nontrivial=nontriv, classes=classes)


# ---------------------------------------------------------------------------
# coverage-guided byte-level campaign (thorough tier): atheris / libFuzzer

def atheris_campaign(ctx, shard, nshards):
    """
    One libFuzzer process per shard (own seed, own fresh corpus directory
    seeded with valid responses and the recorded bodies; shard 0 starts from
    an empty corpus).  Crash artifacts are replayed through the normal
    oracle so that they get the usual signatures.  See pbt/fuzzlib.py.
    """
    from . import fuzz_c02, fuzzlib
    fuzzlib.campaign(ctx, shard, 'pbt.fuzz_c02', fuzz_c02.seed_corpus,
                     atheris_replay, max_len=4096,
                     dictionary=fuzz_c02.DICTIONARY)


def atheris_replay(ctx, example):
    from . import fuzz_c02
    data = bytes.fromhex(example[1])
    ctx.current = example
    oracle(ctx, fuzz_c02.example_from_bytes(data))


# ---------------------------------------------------------------------------
# sub-check: crosskind (exhaustive) - every operation answered with the valid
# payload of every kind of response ("wrong element for the operation")

_FIXED_POOL = {
    'insts': [{'k': 'inst', 'classname': 'CIM_Foo', 'properties': [
        {'k': 'prop', 'name': 'p', 'type': 'uint8', 'value': 1,
         'is_array': False, 'array_size': None, 'reference_class': None,
         'embedded_object': None, 'class_origin': None, 'propagated': None,
         'qualifiers': []}], 'qualifiers': [], 'path': {
             'k': 'ipath', 'classname': 'CIM_Foo',
             'keys': [('k', 'uint8', 1)], 'namespace': 'root/cimv2',
             'host': 'h'}}],
    'classes': [{'k': 'class', 'classname': 'CIM_Foo', 'superclass': None,
                 'properties': [], 'methods': [], 'qualifiers': []}],
    'qdecls': [{'k': 'qualdecl', 'name': 'Q', 'type': 'string',
                'value': None, 'is_array': False, 'array_size': None,
                'scopes': None, 'overridable': None, 'tosubclass': None,
                'toinstance': None, 'translatable': None}],
    'retval': ('uint32', False, 0), 'outs': [('o', ('string', False, 'a'))],
    'eos': True, 'ctx': 'ctx-1'}
_KIND_OPS = None
_FIXED_CALLS = {}


def _kind_ops():
    "one operation name per distinct payload kind"
    global _KIND_OPS
    if _KIND_OPS is None:
        seen = {}
        for opn in sorted(R.KIND):
            seen.setdefault(R.KIND[opn], opn)
        _KIND_OPS = sorted(seen.values())
    return _KIND_OPS


def _fixed_calls():
    """
    Deterministic valid calls: for every operation up to two (instance-level
    and class-level target where the operation has both), drawn once from
    the normal call generator with a derandomized Hypothesis run.
    """
    if _FIXED_CALLS:
        return _FIXED_CALLS
    from hypothesis import given, settings, Phase, HealthCheck
    got = {}

    @settings(max_examples=1, derandomize=True, database=None, deadline=None,
              phases=[Phase.generate],
              suppress_health_check=list(HealthCheck))
    @given(st.data())
    def grab(data):
        for opn in O.ALL_OPS:
            variants = {}
            for _ in range(8):
                call = O.g_call(data.draw, opn, simple_paths=True)
                if opn.startswith('Iter'):
                    for k in ('FilterQuery', 'FilterQueryLanguage',
                              'ContinueOnError', 'ReturnQueryResultClass'):
                        if k in call['args'] and opn != 'IterQueryInstances':
                            call['args'][k] = None
                    if opn == 'IterQueryInstances':
                        call['args']['ContinueOnError'] = None
                        call['args']['ReturnQueryResultClass'] = None
                on = call['args'].get('ObjectName')
                level = 'inst' if isinstance(on, dict) and \
                    on.get('k') == 'ipath' else 'class'
                variants.setdefault(level, call)
            if 'ObjectName' in variants[sorted(variants)[0]]['args']:
                # both levels, whatever was drawn
                base = variants[sorted(variants)[0]]
                for level, on in (
                        ('class', 'CIM_Foo'),
                        ('inst', {'k': 'ipath', 'classname': 'CIM_Foo',
                                  'keys': [('k', 'uint8', 1)],
                                  'namespace': None, 'host': None})):
                    if level not in variants:
                        c2 = {'op': base['op'], 'args': dict(base['args'])}
                        c2['args']['ObjectName'] = on
                        variants[level] = c2
            got[opn] = [variants[k] for k in sorted(variants)]
    grab()
    _FIXED_CALLS.update(got)
    return _FIXED_CALLS


def _crosskind_example(key):
    opn, ci, kind_op, flip, eos, pull = key[:6]
    mix = key[6] if len(key) > 6 else 0
    pool = dict(_FIXED_POOL, eos=bool(eos))
    calls = _fixed_calls()[opn]
    return {'call': calls[ci % len(calls)],
            'conn': {'dns': None, 'pull': pull, 'stats': False},
            'responses': [{'mode': 'xml', 'status': (200, 'OK'),
                           'headers': [], 'pool': pool, 'mut': [],
                           'payload_of': kind_op, 'flip_level': bool(flip),
                           'mix': bool(mix)}]}


def crosskind_keys():
    keys = []
    calls = _fixed_calls()
    for opn in O.ALL_OPS:
        for ci in range(len(calls[opn])):
            for kind_op in _kind_ops():
                kind = R.KIND[kind_op]
                for flip in (0, 1):
                    if flip and kind not in ('objs_withpath', 'objnames'):
                        continue    # only these payloads have two levels
                    for eos in ((1, 0) if kind.startswith('open_') else (1,)):
                        for pull in ((None, True) if opn.startswith('Iter')
                                     else (None,)):
                            keys.append((opn, ci, kind_op, flip, eos, pull,
                                         0))
                            if opn.startswith('Iter') or \
                                    R.KIND.get(opn, 'void') not in (
                                        'void', 'export', 'inst', 'iname',
                                        'class', 'qualdecl'):
                                # the right objects first, the others behind
                                keys.append((opn, ci, kind_op, flip, eos,
                                             pull, 1))
    return keys


def crosskind_enumerate(ctx, shard, nshards):
    for n, key in enumerate(crosskind_keys()):
        if n % nshards != shard:
            continue
        crosskind_replay(ctx, key)


def crosskind_replay(ctx, key):
    key = tuple(key)
    ctx.current = key
    oracle(ctx, _crosskind_example(key), key=key)


# ---------------------------------------------------------------------------
# sub-check: valuetexts (exhaustive) - every value text of the pool as the
# content of a VALUE / KEYVALUE / RETURNVALUE / PARAMVALUE of every CIM type

_VT_TYPES = ['boolean', 'string', 'char16', 'datetime', 'uint8', 'sint8',
             'uint16', 'sint16', 'uint32', 'sint32', 'uint64', 'sint64',
             'real32', 'real64']
_VT_PLACES = ['property', 'property-array', 'keyvalue-typed',
              'keyvalue-untyped', 'returnvalue', 'paramvalue', 'qualifier']


def _vt_case(place, type_, text):
    from xml.sax.saxutils import escape
    t = escape(text)
    if place in ('returnvalue', 'paramvalue'):
        call = {'op': 'InvokeMethod', 'args': {
            'MethodName': 'M', 'ObjectName': 'CIM_Foo', 'Params': [],
            'kwparams': []}}
        inner = ('<RETURNVALUE PARAMTYPE="%s"><VALUE>%s</VALUE></RETURNVALUE>'
                 % (type_, t)) if place == 'returnvalue' else (
                     '<PARAMVALUE NAME="o" PARAMTYPE="%s"><VALUE>%s</VALUE>'
                     '</PARAMVALUE>' % (type_, t))
        rsp = '<METHODRESPONSE NAME="M">%s</METHODRESPONSE>' % inner
    elif place.startswith('keyvalue'):
        call = {'op': 'EnumerateInstanceNames',
                'args': {'ClassName': 'CIM_Foo'}}
        vt = 'boolean' if type_ == 'boolean' else \
            'string' if type_ in ('string', 'char16', 'datetime') else \
            'numeric'
        ta = ' TYPE="%s"' % type_ if place == 'keyvalue-typed' else ''
        rsp = ('<IMETHODRESPONSE NAME="EnumerateInstanceNames"><IRETURNVALUE>'
               '<INSTANCENAME CLASSNAME="CIM_Foo"><KEYBINDING NAME="k">'
               '<KEYVALUE VALUETYPE="%s"%s>%s</KEYVALUE></KEYBINDING>'
               '</INSTANCENAME></IRETURNVALUE></IMETHODRESPONSE>' %
               (vt, ta, t))
    else:
        call = {'op': 'GetInstance', 'args': {'InstanceName': {
            'k': 'ipath', 'classname': 'CIM_Foo',
            'keys': [('k', 'uint8', 1)], 'namespace': None, 'host': None}}}
        if place == 'property':
            p = ('<PROPERTY NAME="p" TYPE="%s"><VALUE>%s</VALUE></PROPERTY>'
                 % (type_, t))
        elif place == 'property-array':
            p = ('<PROPERTY.ARRAY NAME="p" TYPE="%s"><VALUE.ARRAY><VALUE>%s'
                 '</VALUE><VALUE.NULL/><VALUE>%s</VALUE></VALUE.ARRAY>'
                 '</PROPERTY.ARRAY>' % (type_, t, t))
        else:
            p = ('<PROPERTY NAME="p" TYPE="string"><QUALIFIER NAME="Q" '
                 'TYPE="%s"><VALUE>%s</VALUE></QUALIFIER><VALUE>v</VALUE>'
                 '</PROPERTY>' % (type_, t))
        rsp = ('<IMETHODRESPONSE NAME="GetInstance"><IRETURNVALUE><INSTANCE '
               'CLASSNAME="CIM_Foo">%s</INSTANCE></IRETURNVALUE>'
               '</IMETHODRESPONSE>' % p)
    body = ('<?xml version="1.0" encoding="utf-8" ?>\n<CIM CIMVERSION="2.0" '
            'DTDVERSION="2.0"><MESSAGE ID="1001" PROTOCOLVERSION="1.0">'
            '<SIMPLERSP>%s</SIMPLERSP></MESSAGE></CIM>' % rsp)
    return {'call': call,
            'conn': {'dns': None, 'pull': None, 'stats': False},
            'responses': [{'mode': 'raw', 'status': (200, 'OK'),
                           'headers': [],
                           'raw': body.encode('utf-8', 'surrogatepass')}]}


def _vt_texts():
    return list(R.TEXT_VALUES) + [v for v in R.ATTR_VALUES
                                  if v not in R.TEXT_VALUES]


def valuetexts_enumerate(ctx, shard, nshards):
    n = 0
    texts = _vt_texts()
    for place in _VT_PLACES:
        for type_ in _VT_TYPES:
            for ti in range(len(texts)):
                n += 1
                if n % nshards != shard:
                    continue
                valuetexts_replay(ctx, (place, type_, ti))


def valuetexts_replay(ctx, key):
    place, type_, ti = key
    key = (place, type_, ti)
    ctx.current = key
    texts = _vt_texts()
    oracle(ctx, _vt_case(place, type_, texts[ti % len(texts)]), key=key)


# ---------------------------------------------------------------------------
# sub-check: rawhttp - a scripted server on a real loopback socket, so that
# the HTTP layer below pywbem (requests / urllib3 / http.client) parses real
# bytes: status lines, header sections and body framings of every shape

_RAW_PREFIX = [b'', b'', b'', b'', b'', b'HTTP/1.1 100 Continue\r\n\r\n',
               b'HTTP/1.1 100 Continue\r\n\r\n' * 3,
               b'HTTP/1.1 102 Processing\r\n\r\n', b'\r\n', b'junk\r\n',
               b'\x00\x01\x02', b'HTTP/1.1 101 Switching\r\n\r\n']
_RAW_STATUS = [b'HTTP/1.1 200 OK'] * 8 + [
    b'HTTP/1.0 200 OK', b'HTTP/1.1 200', b'HTTP/1.1 200 ', b'HTTP/2.0 200 OK',
    b'HTTP/1.1 abc OK', b'HTTP/1.1 99 x', b'HTTP/1.1 1000 x', b'HTTP/1.1 -1 x',
    b'HTTP/1.1 2000 OK', b'ICY 200 OK', b'', b'HTTP/1.1', b'HTTP/1.1  200  OK',
    b'HTTP/1.1 200 \xff\xfe', b'HTTP/1.1 401 Unauthorized', b'HTTP/1.1 500 x',
    b'HTTP/1.1 204 No Content', b'HTTP/1.1 304 Not Modified',
    b'HTTP/1.1 301 Moved', b'HTTP/1.1 407 Proxy Authentication Required',
    b'\x00' * 10, b'HTTP/1.1 200 ' + b'x' * 70000, b'http/1.1 200 ok',
    b'HTTP/1.1 200 OK\x00', b'<CIM/>', b'HTTP/1.1 200 \xe4\xf6']
_RAW_HEADERS = [
    (b'Content-Type', b'application/xml; charset="utf-8"'),
    (b'Content-Type', b'application/xml; charset="utf-8"'),
    (b'Content-Type', b'text/xml'), (b'Content-Type', b'\xff\xfe'),
    (b'Content-Type', b'application/xml; charset=utf-16'),
    (b'Content-Encoding', b'gzip'), (b'Content-Encoding', b'deflate'),
    (b'Content-Encoding', b'br'), (b'Content-Encoding', b'x, gzip'),
    (b'Content-Encoding', b'identity'), (b'Transfer-Encoding', b'gzip'),
    (b'Transfer-Encoding', b'identity'), (b'Connection', b'close'),
    (b'Connection', b'keep-alive'), (b'Connection', b'upgrade'),
    (b'WWW-Authenticate', b'Basic realm="x"'), (b'WWW-Authenticate', b''),
    (b'CIMError', b'request-not-valid'), (b'CIMError', b'\xe4'),
    (b'PGErrorDetail', b'%ff%fe'), (b'Location', b'http://[bad'),
    (b'Location', b'/cimom'), (b'Set-Cookie', b'a=b; Path=/'),
    (b'Set-Cookie', b'\x00'), (b'WBEMServerResponseTime', b'12'),
    (b'WBEMServerResponseTime', b'\xb2'), (b'Content-Length', b'3'),
    (b'Content-Length', b'-1'), (b'Date', b'yesterday'),
    (b'X-Utf8', 'gr\u00fc\u00df \u20ac'.encode('utf-8')),
    (b'X-Nul', b'a\x00b'), (b'Trailer', b'X-Trailer'),
    (b'Upgrade', b'h2c'), (b'Keep-Alive', b'timeout=x'),
]
_RAW_LINES = [b'NoColonHere', b' leading-space: x', b': novalue',
              b'X-Fold: a\r\n  continued', b'X-Fold: a\r\n\tcontinued',
              b'X\x00Y: z', b'X-\xe4: \xe4', b'Content-Type',
              b'X: ' + b'\xff' * 10, b'X-CR: a\rb', b'X Y: z', b'',
              b'X-Tab\t: v', b'\xef\xbb\xbfX-BOM: v']
_RAW_FRAMING = ['length'] * 8 + ['none', 'none', 'short', 'long', 'garbage',
                                 'two', 'chunked', 'chunked', 'chunked-badsize',
                                 'chunked-noterm', 'chunked-trailer',
                                 'chunked+length']
_RAW_SERVER = []


def rawhttp_strategy():
    @st.composite
    def strat(draw):
        op = O.ALL_OPS[draw(st.integers(0, len(O.ALL_OPS) - 1))]
        call = O.g_call(draw, op, simple_paths=True)
        if op.startswith('Iter'):
            for k in ('FilterQuery', 'FilterQueryLanguage', 'ContinueOnError',
                      'ReturnQueryResultClass'):
                if k in call['args'] and op != 'IterQueryInstances':
                    call['args'][k] = None
            if op == 'IterQueryInstances':
                call['args']['ContinueOnError'] = None
                call['args']['ReturnQueryResultClass'] = None
        # a plain, correct exchange with 0..3 deviations (mostly one), so
        # that each deviation is also seen alone
        script = {'prefix': b'', 'status_line': b'HTTP/1.1 200 OK',
                  'headers': [(b'Content-Type',
                               b'application/xml; charset="utf-8"')],
                  'raw_headers': [], 'many': 0, 'long': 0, 'eol': b'\r\n',
                  'framing': 'length', 'cl': b'abc', 'close_early': False,
                  'cutpm': None}
        bkind = 'valid'
        ndev = draw(st.sampled_from([0, 1, 1, 1, 1, 2, 2, 3]))
        for _ in range(ndev):
            dev = draw(st.sampled_from(
                ['prefix', 'status', 'status', 'headers', 'headers', 'lines',
                 'many', 'long', 'eol', 'framing', 'framing', 'cut', 'cut',
                 'close', 'body', 'body']))
            if dev == 'prefix':
                script['prefix'] = draw(st.sampled_from(
                    [p for p in _RAW_PREFIX if p]))
            elif dev == 'status':
                script['status_line'] = draw(st.sampled_from(_RAW_STATUS[8:]))
            elif dev == 'headers':
                script['headers'] = script['headers'] + [
                    draw(st.sampled_from(_RAW_HEADERS))
                    for _ in range(1 + draw(S._I10) % 2)]
                if draw(S._I10) < 3:
                    script['headers'] = script['headers'][1:]
            elif dev == 'lines':
                script['raw_headers'] = [
                    draw(st.sampled_from(_RAW_LINES))
                    for _ in range(1 + draw(S._I10) % 2)]
            elif dev == 'many':
                script['many'] = draw(st.sampled_from(
                    [50, 97, 98, 99, 100, 101, 150, 1000]))
            elif dev == 'long':
                script['long'] = draw(st.sampled_from(
                    [1000, 65000, 65500, 65536, 65537, 100000, 300000]))
            elif dev == 'eol':
                script['eol'] = draw(st.sampled_from([b'\n', b'\r']))
            elif dev == 'framing':
                script['framing'] = draw(st.sampled_from(
                    [f for f in _RAW_FRAMING if f != 'length']))
                script['cl'] = draw(st.sampled_from(
                    [b'abc', b'', b'1e3', b'0x10', b'99999999999999999999',
                     b'\xb2', b'3, 3', b' 5 ']))
            elif dev == 'cut':
                script['cutpm'] = draw(st.integers(0, 1000))
            elif dev == 'close':
                script['close_early'] = True
            else:
                bkind = draw(st.sampled_from(
                    ['gzip', 'deflate', 'raw', 'empty', 'big']))
                if bkind in ('gzip', 'deflate') and draw(S._B):
                    # announced as such: a legitimate compressed response
                    script['headers'] = script['headers'] + [
                        (b'Content-Encoding', bkind.encode())]
        body = {'kind': bkind, 'pool': R.g_pool(draw),
                'raw': draw(st.binary(max_size=30))}
        return {'call': call, 'script': script, 'body': body,
                'pull': draw(st.sampled_from([None, None, True, False]))}
    return strat()


def _raw_body(ex, tag, name):
    import gzip
    import zlib
    b = ex['body']
    call = ex['call']
    class_level = not (isinstance(call['args'].get('ObjectName'), dict) and
                       call['args']['ObjectName']['k'] == 'ipath')
    valid = R.valid_response(tag or 'IMETHODCALL', name or 'x', b['pool'],
                             class_level, force_eos=True).encode('utf-8')
    if b['kind'] == 'valid':
        return valid
    if b['kind'] == 'gzip':
        return gzip.compress(valid)
    if b['kind'] == 'deflate':
        return zlib.compress(valid)
    if b['kind'] == 'raw':
        return b['raw']
    if b['kind'] == 'big':
        return valid + b' ' * 200000
    return b''


def rawhttp_oracle(ctx, ex):
    import warnings
    from . import rawserver
    if not _RAW_SERVER:
        _RAW_SERVER.append(rawserver.RawServer())
    srv = _RAW_SERVER[0]
    call = ex['call']
    op = call['op']
    # the body depends on the request (method name); Iter... operations send
    # several requests: the script is completed by the first one and re-used
    tag = 'METHODCALL' if op == 'InvokeMethod' else \
        'EXPMETHODCALL' if op == 'ExportIndication' else 'IMETHODCALL'
    name = call['args'].get('MethodName') if op == 'InvokeMethod' else op
    if op.startswith('Iter'):
        name = {'IterEnumerateInstances': 'OpenEnumerateInstances',
                'IterEnumerateInstancePaths': 'OpenEnumerateInstancePaths',
                'IterAssociatorInstances': 'OpenAssociatorInstances',
                'IterAssociatorInstancePaths': 'OpenAssociatorInstancePaths',
                'IterReferenceInstances': 'OpenReferenceInstances',
                'IterReferenceInstancePaths': 'OpenReferenceInstancePaths',
                'IterQueryInstances': 'OpenQueryInstances'}[op]
    script = dict(ex['script'])
    script['body'] = _raw_body(ex, tag, name)
    whole = rawserver.assemble(dict(script, cut=None))
    if script.get('cutpm') is not None:
        script['cut'] = len(whole) * script['cutpm'] // 1000
    srv.script = script
    n0 = srv.connections
    conn = pywbem.WBEMConnection('http://127.0.0.1:%d' % srv.port,
                                 timeout=4, use_pull_operations=ex['pull'])
    outcome = 'returned'
    val = None
    with warnings.catch_warnings():
        warnings.simplefilter('ignore')
        try:
            try:
                val = O.invoke(conn, call)
            except pywbem.Error as exc:
                outcome, val = 'error', exc
            except Exception as exc:  # pylint: disable=broad-except
                outcome, val = ('leak' if srv.connections > n0 else 'local',
                                exc)
        finally:
            conn.close()
    classes = ['op:' + op, 'outcome:' + outcome,
               'framing:' + script['framing'], 'body:' + ex['body']['kind']]
    if script['many'] >= 100:
        classes.append('head:100-or-more-header-fields')
    if script['long'] >= 65536 or len(script['status_line']) > 65536:
        classes.append('head:line-longer-than-65536')
    if script.get('cut') is not None:
        classes.append('cut:' + ('in-head' if script['cut'] <
                                 whole.find(script['eol'] * 2) else 'in-body'))
    if script['status_line'] != b'HTTP/1.1 200 OK':
        classes.append('status-line:unusual')
    if script['prefix']:
        classes.append('prefix:yes')
    if outcome == 'leak':
        ctx.fail_exc(val, 'leak')
    elif outcome == 'error':
        classes.append('error:' + type(val).__name__)
    elif outcome == 'returned':
        if not R.result_type_ok(op, call, val):
            ctx.fail('result-type:' + op, 'returned %r' % (val,))
    plain = (script['status_line'] == b'HTTP/1.1 200 OK' and
             script['framing'] == 'length' and not script['prefix'] and
             not script['raw_headers'] and not script['many'] and
             not script['long'] and script.get('cut') is None and
             ex['body']['kind'] == 'valid' and script['eol'] == b'\r\n')
    ctx.case(nontrivial=outcome != 'local' and not plain, classes=classes)


SUBCHECKS = [
    Sub('responses', strategy=strategy, oracle=oracle,
        quick=(16, 500), thorough=(16, 25000), case_timeout=60,
        timeout_is_violation=True),
    Sub('atheris', enumerate=atheris_campaign, quick=(0, 0),
        thorough=(8, 0), budget=(0, 900)),
    Sub('crosskind', enumerate=crosskind_enumerate, quick=(8, 0),
        thorough=(8, 0)),
    Sub('valuetexts', enumerate=valuetexts_enumerate, quick=(8, 0),
        thorough=(8, 0)),
    Sub('rawhttp', strategy=rawhttp_strategy, oracle=rawhttp_oracle,
        quick=(8, 250), thorough=(16, 6000), case_timeout=60,
        timeout_is_violation=True),
]
SUBCHECKS[1].replay = atheris_replay
SUBCHECKS[2].replay = crosskind_replay
SUBCHECKS[3].replay = valuetexts_replay
