"""
C10 - The mock server's instance store is a faithful keyed map with CIM
status codes.  DESIGN.md 4.10 and Appendix B.

History check over FakedWBEMConnection: a generated schema (1-3 namespaces,
class trees of depth <= 3, key and non-key properties of all types) and a
sequence of CreateInstance / ModifyInstance / DeleteInstance / GetInstance /
EnumerateInstances / EnumerateInstanceNames calls plus client side mutation
of objects passed in or handed out.  A reference model (dict keyed by
(namespace, creation class, keybindings)) predicts result or status code.
"""

import os
import re
import traceback
import warnings

from hypothesis import strategies as st

import pywbem
import pywbem_mock
from pywbem import (CIMInstance, CIMInstanceName, CIMClassName, CIMProperty,
                    CIMClass, CIMQualifier, CIMError, CIMDateTime, Char16,
                    CIM_ERR_INVALID_NAMESPACE, CIM_ERR_INVALID_PARAMETER,
                    CIM_ERR_INVALID_CLASS, CIM_ERR_NOT_FOUND,
                    CIM_ERR_ALREADY_EXISTS)
from pywbem._cim_types import CIMInt, CIMFloat

from .runner import Sub, HarnessError, slug, exc_signature, exc_detail
from . import strategies as S
from . import repo as RP
from .normalize import vcanon, EXACT

PROPERTY = 'C10'
RULE = (
    "A history = generated schema (1-3 namespaces with mixed-case names, up "
    "to 6 non-association classes in trees of depth <= 3, 1-3 key "
    "properties per root class of string/char16/boolean/integer/real/"
    "datetime type, 0-3 non-key properties per class of all 15 simple types "
    "as scalars or arrays, with or without class default, embedded "
    "instance/object properties; classes present in a subset of the "
    "namespaces) + 0-4 prefilled instances + up to N steps.  Steps: "
    "CreateInstance (new / duplicate / same keys in another namespace / "
    "missing or NULL key / unknown property / wrong type / wrong array-ness "
    "/ unqualified embedded object / unknown class / class not in that "
    "namespace / unknown namespace; namespace given as argument, in the "
    "path of NewInstance, or by default), ModifyInstance (partial "
    "instances, key unchanged / changed, unknown or mistyped properties, "
    "class name mismatch, PropertyList None / [] / subset / names absent "
    "from the instance / unknown names / str / tuple / duplicates in other "
    "case), DeleteInstance, GetInstance (tri-state flags, PropertyList), "
    "EnumerateInstances (DeepInheritance, PropertyList, class given as str "
    "or CIMClassName) and EnumerateInstanceNames; target paths are drawn "
    "from instances created (and possibly deleted) earlier in exact form "
    "or varied: other lexical case of class/key/namespace names, reversed "
    "key order, numerically equal key of another integer type / plain "
    "int, char16 key as str, host added, namespace dropped, string key "
    "value in other case, superclass/subclass name, fewer/extra keys, other "
    "namespace, fresh key values.  mutate steps scribble over an object "
    "that was passed to or returned by an earlier call (value lists and "
    "embedded instances in place, CIMProperty attributes, property "
    "dictionary entries, path keybindings/classname/namespace, instance "
    "attributes).  After every step the whole store is read back "
    "(GetInstance of every model entry, EnumerateInstances and "
    "EnumerateInstanceNames of every root class in every namespace) and "
    "compared with the model.  Non-trivial history = at least one "
    "successful create followed by a successful access through a "
    "case/order/type-variant path, or a mutate step followed by a read of "
    "a non-empty store.  Distinct = distinct history.")
ASSUMPTIONS = [
    "key values are non-NaN; equality of key values is CIM value equality: "
    "integers by number regardless of the CIM integer type (CIM-XML and "
    "WBEM URIs only know 'numeric' keys), strings/char16 by exact text, "
    "datetimes by instant/duration, reals by float value; boolean-vs-integer"
    " and integer-vs-real look-ups are not generated",
    "a property that is absent and a property that is present with value "
    "NULL are treated as equivalent when results are compared (the mock "
    "stores exactly the properties given; DSP0200 servers report NULL)",
    "names are compared case-insensitively (property statement); the "
    "spelling of returned names is not asserted",
    "when several documented error conditions apply to one call, any of "
    "their status codes is accepted (the provider docstrings do not order "
    "them); conditions that cannot be evaluated (class in an unknown "
    "namespace, instance of an unknown class) are not counted",
    "ModifyInstance: an invalid or key-changing property that PropertyList "
    "excludes from modification may be rejected with INVALID_PARAMETER or "
    "ignored; a key property named in PropertyList but absent from the "
    "instance may be rejected or left unchanged",
    "LocalOnly, IncludeQualifiers and IncludeClassOrigin are documented as "
    "ignored by the mock; qualifiers and class origins of results are not "
    "compared",
    "the order of enumeration results is not compared",
    "only non-association classes without reference properties and without "
    "property overrides (associations are C13, inheritance resolution C12)",
    "arguments always have the documented Python types (client-side "
    "TypeError/ValueError paths are not part of the model)",
]
SENSITIVITY = [
    "MainProvider._get_instance: _get_bare_instance(copy=True) -> copy=False (GetInstance hands out the stored object) -> store:get:ok:missing-property, isolation:get-result:missing-property",
    "InstanceWriteProvider.create_new_instance_path: strict=True -> strict=False -> status:create:succeeded-instead-of-INVALID_PARAMETER[missing-key]",
    "ProviderDispatcher.DeleteInstance: existence check removed -> leak:delete:KeyError@_inmemoryrepository:delete:raiseKeyError",
    "ProviderDispatcher.ModifyInstance: key-change check removed -> leak:modify:KeyError@_inmemoryrepository:update:raiseKeyError, status:modify:succeeded-instead-of-INVALID_PARAMETER[key-change]",
    "ProviderDispatcher.ModifyInstance: deepcopy(ModifiedInstance) removed -> isolation:modify-arg:value-diff",
    "MainProvider._get_subclass_list_for_enums: deep=False (only direct subclasses enumerated) -> readback:EnumerateInstances:missing",
    "InMemoryObjectStore.create: duplicate check removed (silent overwrite) -> status:create:succeeded-instead-of-ALREADY_EXISTS[already-exists]",
    "BaseProvider.filter_properties: case-sensitive PropertyList compare -> result:get:value-diff / result:get:missing-property, result:enum:...",
    "ProviderDispatcher.ModifyInstance: properties outside PropertyList no longer dropped -> store:modify[pl]:ok:value-diff, store:modify[pl]:ok:unexpected-property",
    "MainProvider.EnumerateInstances: DeepInheritance default inverted -> readback:EnumerateInstances:missing-property",
    "ProviderDispatcher.ModifyInstance: class name comparison made case-sensitive -> status:modify:INVALID_PARAMETER-instead-of-success[none]",
    "NOT caught (equivalent through the public API, other copies still isolate): ProviderDispatcher.CreateInstance deepcopy(NewInstance) removed; EnumerateInstanceNames path.copy() removed; InMemoryObjectStore.iter_values without deepcopy; duplicate PropertyList names kept",
]

STRINGS = S.cim_string(max_size=12)
NS_POOL = ['root/cimv2', 'Root/Other', 'interop']
KEY_TYPES = ['string', 'string', 'string', 'uint8', 'sint32', 'uint64',
             'boolean', 'char16', 'datetime', 'real64', 'real32', 'uint16']
KEY_POOL = {
    'string': ['a', 'A', 'b', '', 'Key One', 'x/y:z="1"'],
    'char16': ['a', 'A', '0'],
    'uint8': [0, 1, 255], 'uint16': [0, 1, 65535], 'sint32': [-1, 0, 1],
    'uint64': [0, 1, 2 ** 64 - 1], 'boolean': [True, False],
    'real64': [0.0, 1.5, -1.0], 'real32': [0.0, 1.5, -1.0],
    'datetime': [('ts', 2020, 1, 1, 0, 0, 0, 0, 0), ('iv', 1, 0, 0),
                 ('ts', 2020, 1, 1, 1, 0, 0, 0, 60)],
}
PROP_TYPES = S.SIMPLE_TYPES + ['string', 'string', 'string', 'char16',
                                'char16']
EMB_CLASS = 'TST_Emb'
EMB_MOF = """
class TST_Emb {
    [Key] string ID;
    uint8 Arr[];
    string Note;
};
"""

_E = {CIM_ERR_INVALID_NAMESPACE: 'INVALID_NAMESPACE',
      CIM_ERR_INVALID_PARAMETER: 'INVALID_PARAMETER',
      CIM_ERR_INVALID_CLASS: 'INVALID_CLASS',
      CIM_ERR_NOT_FOUND: 'NOT_FOUND',
      CIM_ERR_ALREADY_EXISTS: 'ALREADY_EXISTS'}


_PROPERTY_REASONS = {'unknown-property', 'type-mismatch',
                     'arrayness-mismatch', 'embedded-scalar-unqualified',
                     'embedded-array-unqualified'}


def _ename(code):
    return _E.get(code, 'CIM_ERR_%s' % code)


# ---------------------------------------------------------------------------
# schema generation

def g_schema(draw):
    nns = draw(st.sampled_from([1, 2, 2, 3]))
    nss = NS_POOL[:nns]
    ncls = draw(st.integers(1, 6))
    classes = []
    depth = []
    for i in range(ncls):
        sup = None
        if i > 0 and draw(S._I10) < 6:
            cands = [j for j in range(i) if depth[j] < 3]
            if cands:
                sup = cands[draw(S._I100) % len(cands)]
        depth.append(1 if sup is None else depth[sup] + 1)
        props = []
        if sup is None:
            nkeys = draw(st.sampled_from([1, 1, 1, 2, 2, 3]))
            for k in range(nkeys):
                kt = KEY_TYPES[draw(S._I100) % len(KEY_TYPES)]
                props.append({'name': 'Key%s%d' % ('AbC'[k], i), 'type': kt,
                              'is_array': False, 'key': True, 'value': None,
                              'embedded': None, 'refclass': None})
        for k in range(draw(st.sampled_from([0, 1, 2, 2, 3]))):
            t = PROP_TYPES[draw(S._I100) % len(PROP_TYPES)]
            is_arr = draw(S._I10) < (5 if t == 'string' else 3)
            emb = None
            if t == 'string' and draw(S._I10) < 3:
                emb = 'instance' if draw(S._B) else 'object'
            dflt = None
            if emb is None and draw(S._I10) < (7 if t == 'char16' else 4):
                if is_arr:
                    dflt = [S._g_scalar(draw, t, 0, STRINGS)
                            for _ in range(draw(S._I10) % 3)]
                else:
                    dflt = S._g_scalar(draw, t, 0, STRINGS)
            props.append({'name': 'Pr%d_%d%s' % (i, k, t[:2].upper()),
                          'type': t, 'is_array': is_arr, 'key': False,
                          'value': dflt, 'embedded': emb, 'refclass': None})
        # half of the classes live in one namespace only, so that the
        # namespaces of one schema have different class trees under equal
        # names
        cnss = list(range(nns)) if draw(S._I10) < 5 else \
            [draw(S._I10) % nns]
        if sup is not None:
            cnss = [n for n in cnss if n in classes[sup]['nss']] or \
                list(classes[sup]['nss'])
        classes.append({'name': 'TST_Cls%d' % i, 'super': sup,
                        'assoc': False, 'props': props, 'nss': cnss})
    return {'namespaces': nss, 'classes': classes,
            'default_ns': draw(S._I10) % nns, 'instances': []}


def _g_keyval(draw, t):
    if draw(S._I10) < 6:
        pool = KEY_POOL[t]
        return pool[draw(S._I100) % len(pool)]
    return S._g_scalar(draw, t, 0, STRINGS, allow_nan=False)


def _g_val(draw, p, nulls=True):
    "value recipe for property p (non-key)"
    if nulls and draw(S._I10) == 0:
        return None
    if p['embedded']:
        v = _g_emb(draw)
        return [v] * (1 + draw(S._B)) if p['is_array'] else v
    if p['is_array']:
        return [None if draw(S._I10) < 2 else
                S._g_scalar(draw, p['type'], 0, STRINGS)
                for _ in range(draw(S._I10) % 3)]
    return S._g_scalar(draw, p['type'], 0, STRINGS)


def _g_emb(draw):
    def pr(name, t, v, arr=False):
        return {'k': 'prop', 'name': name, 'type': t, 'value': v,
                'is_array': arr, 'array_size': None, 'reference_class': None,
                'embedded_object': None, 'class_origin': None,
                'propagated': None, 'qualifiers': []}
    return {'k': 'inst', 'classname': EMB_CLASS, 'properties': [
        pr('ID', 'string', draw(st.sampled_from(['e1', 'e2', 'E 3']))),
        pr('Arr', 'uint8', [draw(S._I10), 7], True)],
        'qualifiers': [], 'path': None}


def _swap(draw, s):
    return S.swapcase_name(s, draw(st.integers(1, 2 ** 20)))


# ---------------------------------------------------------------------------
# building

def b_inst(r):
    props = [CIMProperty(n, S.build_value(t, v), type=t, is_array=a,
                         embedded_object=e)
             for (n, t, a, v, e) in r['props']]
    inst = CIMInstance(r['cls'], properties=props)
    # set afterwards: the constructor would propagate key property values
    # into the keybindings of the path (deprecated pywbem behaviour)
    inst.path = S.build(r.get('path'))
    return inst


def b_plist(pl):
    if isinstance(pl, tuple) and pl and pl[0] == 'tuple':
        return tuple(pl[1])
    if isinstance(pl, list):
        return list(pl)
    return pl


def plist_names(pl):
    "None | list of names as the server sees them"
    if pl is None:
        return None
    if isinstance(pl, str):
        return [pl]
    if isinstance(pl, tuple):
        return list(pl[1])
    return list(pl)


def kcanon(v):
    "identity of a key value (CIM value equality)"
    if isinstance(v, bool):
        return ('b', v)
    if isinstance(v, (CIMInt, int)):
        return ('n', int(v))
    if isinstance(v, (CIMFloat, float)):
        f = float(v)
        return ('f', repr(0.0 if f == 0 else f))
    if isinstance(v, CIMDateTime):
        if v.is_interval:
            return ('d', 'iv', str(v.timedelta))
        d = v.datetime
        from datetime import datetime as _dt
        return ('d', 'ts', str((d.replace(tzinfo=None) - _dt(1, 1, 1)) -
                               d.utcoffset()))
    if isinstance(v, str):
        return ('s', str(v))
    if v is None:
        return ('null',)
    return ('other', repr(v))


def has_emb_inst(v):
    if isinstance(v, dict):
        return True
    if isinstance(v, list):
        return any(isinstance(x, dict) for x in v)
    return False


def mock_frame_sig(exc):
    "type + innermost pywbem_mock frame (falls back to innermost pywbem one)"
    from .runner import REPO
    mdir = os.path.join(os.path.realpath(REPO), 'pywbem_mock') + os.sep
    inner = None
    for fr in traceback.extract_tb(exc.__traceback__):
        if os.path.realpath(fr.filename).startswith(mdir):
            inner = fr
    if inner is None:
        return exc_signature(exc)
    line = re.sub(r'\s+', '', (inner.line or '').strip())[:50]
    return slug('%s@%s:%s:%s' % (type(exc).__name__,
                                 os.path.basename(inner.filename)[:-3],
                                 inner.name, line), 140)


# ---------------------------------------------------------------------------
# client side scribbling

def _other(v, t):
    "a different value of CIM type t"
    if t == 'boolean':
        return not v
    if t in S.INT_TYPES:
        return S.INT_TYPES[t](0 if (v is not None and int(v) != 0) else 1)
    if t in S.REAL_TYPES:
        return S.REAL_TYPES[t](0.0 if (v is not None and float(v) != 0)
                               else 2.5)
    if t == 'datetime':
        a = CIMDateTime('19990101000000.000000+000')
        return a if (v is None or kcanon(v) != kcanon(a)) else \
            CIMDateTime('00000001000000.000000:000')
    if t == 'char16':
        return 'Z' if v != 'Z' else 'Y'
    return 'scribbled' if v != 'scribbled' else 'scribbled2'


def _other_key(v):
    if isinstance(v, bool):
        return not v
    if isinstance(v, CIMInt):
        return type(v)(0 if int(v) != 0 else 1)
    if isinstance(v, int):
        return 0 if v != 0 else 1
    if isinstance(v, CIMFloat):
        return type(v)(0.0 if float(v) != 0 else 2.5)
    if isinstance(v, float):
        return 0.0 if v != 0 else 2.5
    if isinstance(v, CIMDateTime):
        return _other(v, 'datetime')
    return 'scribbled' if v != 'scribbled' else 'scribbled2'


def scribble(obj, levels):
    """
    Change a client-side object.  levels: subset of {3: value objects in
    place, 2: CIMProperty attributes, 1: dictionary entries / path
    attributes, 0: attributes of the object itself}; deepest first.
    """
    if isinstance(obj, list):
        for x in obj:
            scribble(x, levels)
        return
    if isinstance(obj, CIMInstanceName):
        if 1 in levels or 3 in levels:
            for k in list(obj.keybindings.keys()):
                obj.keybindings[k] = _other_key(obj.keybindings[k])
            obj.keybindings['ZzExtra'] = 'x'
        if 0 in levels or 2 in levels:
            obj.classname = 'Scribbled_' + obj.classname
            obj.namespace = 'scribbled/ns'
            obj.host = 'scribbledhost'
        return
    if isinstance(obj, CIMInstance):
        props = list(obj.properties.values())
        if 3 in levels:
            for p in props:
                v = p.value
                if isinstance(v, list):
                    for x in v:
                        if isinstance(x, (CIMInstance, CIMInstanceName)):
                            scribble(x, (3, 2, 1, 0))
                    if v and not isinstance(v[0], CIMInstance):
                        v[0] = _other(v[0], p.type)
                    v.append(v[0] if v else _other(None, p.type))
                elif isinstance(v, (CIMInstance, CIMInstanceName)):
                    scribble(v, (3, 2, 1, 0))
            if obj.path is not None:
                scribble(obj.path, (3,))
        if 2 in levels:
            for p in props:
                if p.embedded_object is None:
                    if p.is_array:
                        p.value = [_other(None, p.type)]
                    else:
                        p.value = _other(p.value, p.type)
                else:
                    p.value = None
                p.name = p.name + '_scr'
        if 1 in levels:
            names = list(obj.properties.keys())
            for n in names[:1]:
                del obj.properties[n]
            for n in names[1:]:
                p = obj.properties[n]
                if p.embedded_object is None and not p.is_array:
                    obj.properties[n] = CIMProperty(
                        p.name, _other(p.value, p.type), type=p.type)
            obj.properties['ZzNew'] = CIMProperty('ZzNew', 'x')
            if obj.path is not None:
                scribble(obj.path, (1, 0))
        if 0 in levels:
            obj.classname = 'Scribbled_' + obj.classname
            obj.path = CIMInstanceName('Scribbled', {'k': 'v'},
                                       namespace='scribbled/ns')
        return
    raise HarnessError('cannot scribble %r' % (type(obj),))


# ---------------------------------------------------------------------------
# the machine

class Machine:
    def __init__(self, ctx):
        self.ctx = ctx
        self.conn = None

    # ---- setup ---------------------------------------------------------

    def init_strategy(self):
        m = self

        @st.composite
        def strat(draw):
            sch = g_schema(draw)
            m._load_schema(sch)
            m.model = {}
            m.log = []
            pre = []
            for _ in range(draw(st.sampled_from([0, 1, 2, 3, 4]))):
                step = m._g_create(draw, force_new=True)
                pre.append(step)
                # keep the generator's view current (no connection yet)
                exp = m._expect_create(step)
                if not exp['errs']:
                    m._apply_effect(exp)
            return {'schema': sch, 'prefill': pre}
        return strat()

    def _load_schema(self, sch):
        self.schema = sch
        self.nss = sch['namespaces']
        self.classes = sch['classes']
        self.dns = self.nss[sch['default_ns']]
        self.ns_l = {n.lower(): i for i, n in enumerate(self.nss)}
        self.cls_l = {c['name'].lower(): i
                      for i, c in enumerate(self.classes)}
        self.allp = [RP.all_props(self.classes, i)
                     for i in range(len(self.classes))]
        self.pm = [{p['name'].lower(): p for p in ps} for ps in self.allp]
        self.keys = [[p for p in ps if p['key']] for ps in self.allp]
        self.subtree = []
        for i in range(len(self.classes)):
            self.subtree.append(set(
                j for j in range(len(self.classes))
                if RP.is_subclass(self.classes, j, i)))

    def setup(self, init):
        warnings.simplefilter('ignore')
        self._load_schema(init['schema'])
        self.model = {}       # ident -> entry
        self.log = []         # every entry ever created (dicts)
        self.held = []        # (origin, client object)
        self.flags = {'created': False, 'variant_access': False,
                      'mutated': False, 'read_after_mutate': False}
        self.avoid_create_result = any(
            'isolation:create-result' in k for k in self.ctx.known)
        conn = pywbem_mock.FakedWBEMConnection(default_namespace=self.dns)
        qdecls, _ = RP.base_objects()
        for ns in self.nss:
            if ns not in conn.namespaces:
                conn.add_namespace(ns)
            conn.add_cimobjects([q.copy() for q in qdecls], namespace=ns)
            conn.compile_mof_string(EMB_MOF, namespace=ns)
        for ci, c in enumerate(self.classes):
            klass = self._build_class(ci)
            for nsi in c['nss']:
                try:
                    conn.CreateClass(klass, namespace=self.nss[nsi])
                except pywbem.Error as exc:
                    raise HarnessError('schema rejected: %s' % exc) from exc
        self.conn = conn
        for step in init['prefill']:
            self._do(step, quiet=True)

    def _build_class(self, ci):
        c = self.classes[ci]
        props = []
        for p in c['props']:
            quals = []
            if p['key']:
                quals.append(CIMQualifier('Key', True))
            if p['embedded'] == 'instance':
                quals.append(CIMQualifier('EmbeddedInstance', EMB_CLASS))
            elif p['embedded'] == 'object':
                quals.append(CIMQualifier('EmbeddedObject', True))
            props.append(CIMProperty(
                p['name'], S.build_value(p['type'], p['value']),
                type=p['type'], is_array=p['is_array'],
                embedded_object=p['embedded'], qualifiers=quals))
        sup = self.classes[c['super']]['name'] \
            if c['super'] is not None else None
        return CIMClass(c['name'], properties=props, superclass=sup)

    # ---- model helpers -------------------------------------------------

    def _nsi(self, name):
        if name is None:
            name = self.dns
        return self.ns_l.get(name.strip('/').lower())

    def _ci(self, name, nsi):
        ci = self.cls_l.get(name.lower())
        if ci is None or nsi not in self.classes[ci]['nss']:
            return None
        return ci

    def _ident_from_keys(self, nsi, ci, kv):
        "kv: list of (name, built value); None if it cannot name an instance"
        want = set(p['name'].lower() for p in self.keys[ci])
        got = [n.lower() for n, _ in kv]
        if set(got) != want or len(got) != len(want):
            return None
        return (nsi, ci, frozenset((n.lower(), kcanon(v)) for n, v in kv))

    def _ident_of_path_recipe(self, p, nsi, ci):
        kv = [(n, S.build_keyvalue(kt, v)) for n, kt, v in p['keys']]
        return self._ident_from_keys(nsi, ci, kv)

    def _ident_of_path_obj(self, path):
        "ident of a returned CIMInstanceName (None parts if unknown)"
        nsi = self.ns_l.get((path.namespace or '').lower())
        ci = self.cls_l.get((path.classname or '').lower())
        if nsi is None or ci is None:
            return None
        return self._ident_from_keys(
            nsi, ci, list(path.keybindings.items()))

    def _class_default(self, p):
        return (p['type'], p['is_array'],
                vcanon(S.build_value(p['type'], p['value']), EXACT))

    # ---- step generation -------------------------------------------------

    def step_strategy(self):
        m = self

        @st.composite
        def strat(draw):
            return m._g_step(draw)
        return strat()

    def _g_step(self, draw):
        k = draw(S._I100)
        if k < 24:
            return self._g_create(draw)
        if k < 44:
            return self._g_modify(draw)
        if k < 52:
            return {'op': 'delete', 'path': self._g_target(draw)[1],
                    'label': self._last_label}
        if k < 67:
            lbl, p = self._g_target(draw)
            return {'op': 'get', 'path': p, 'label': lbl,
                    'lo': draw(S._TRI), 'iq': draw(S._TRI),
                    'ico': draw(S._TRI),
                    'plist': self._g_plist(draw, self._ci_of(p))}
        if k < 78:
            return self._g_enum(draw, 'enum')
        if k < 85:
            return self._g_enum(draw, 'names')
        return {'op': 'mutate', 'target': draw(S._I100),
                'levels': draw(st.sampled_from(
                    [(3, 2, 1, 0), (3, 2, 1, 0), (3,), (2,), (1,), (0,),
                     (3, 2), (1, 0)])), 'label': 'mutate'}

    _last_label = 'exact'

    def _ci_of(self, p):
        return self.cls_l.get(p['classname'].lower())

    def _ns_arg(self, draw, nsi):
        "spelling variants of an existing namespace"
        ns = self.nss[nsi]
        k = draw(S._I10)
        if k < 6:
            return ns
        if k < 8:
            return _swap(draw, ns)
        return draw(st.sampled_from(['/' + ns, ns + '/', '//' + ns + '/']))

    def _fresh_keys(self, draw, ci):
        return [(p['name'], p['type'], _g_keyval(draw, p['type']))
                for p in self.keys[ci]]

    def _g_target(self, draw):
        "(label, ipath recipe)"
        live = [e for e in self.log if e['ident'] in self.model]
        pool = live if (live and draw(S._I10) < 7) else self.log
        if not pool or draw(S._I10) == 0:
            ci = draw(S._I100) % len(self.classes)
            c = self.classes[ci]
            nsi = c['nss'][draw(S._I10) % len(c['nss'])]
            ns = self.nss[nsi]
            lbl = 'fresh'
            self._last_label = lbl
            return lbl, {'k': 'ipath', 'classname': c['name'],
                         'keys': self._fresh_keys(draw, ci),
                         'namespace': None if ns == self.dns and draw(S._B)
                         else ns, 'host': None}
        e = pool[draw(S._I100) % len(pool)]
        p = dict(e['path'])
        p['keys'] = list(p['keys'])
        ci = e['ci']
        k = draw(S._I100)
        lbl = 'exact'
        if k < 30:
            pass
        elif k < 45:
            lbl = 'case'
            p['classname'] = _swap(draw, p['classname'])
            p['keys'] = [(_swap(draw, n), t, v) for n, t, v in p['keys']]
            if draw(S._B):
                p['namespace'] = _swap(draw, p['namespace'])
        elif k < 52:
            lbl = 'order'
            p['keys'] = list(reversed(p['keys']))
            if len(p['keys']) < 2:
                lbl = 'exact'
        elif k < 62:
            lbl = 'numtype'
            keys = []
            changed = False
            for n, t, v in p['keys']:
                if t in S.INT_TYPES and not changed:
                    alts = [a for a in sorted(S.INT_TYPES) if a != t and
                            S.INT_RANGE[a][0] <= v <= S.INT_RANGE[a][1]]
                    alts.append('int')
                    t = alts[draw(S._I100) % len(alts)]
                    changed = True
                elif t == 'char16' and not changed:
                    t = 'string'
                    changed = True
                keys.append((n, t, v))
            p['keys'] = keys
            if not changed:
                lbl = 'exact'
        elif k < 67:
            lbl = 'host'
            p['host'] = 'otherhost:5989'
        elif k < 72:
            if e['nsi'] == self.schema['default_ns']:
                lbl = 'nsnone'
                p['namespace'] = None
        elif k < 77:
            lbl = 'valcase'
            keys = []
            for n, t, v in p['keys']:
                if t in ('string', 'char16') and v.swapcase() != v and \
                        lbl == 'valcase':
                    v = v.swapcase()
                    lbl = 'valcase!'
                keys.append((n, t, v))
            p['keys'] = keys
            lbl = 'valcase' if lbl == 'valcase!' else 'exact'
        elif k < 82:
            rel = [j for j in range(len(self.classes)) if j != ci and
                   (j in self.subtree[ci] or ci in self.subtree[j]) and
                   e['nsi'] in self.classes[j]['nss']]
            if rel:
                lbl = 'relatedclass'
                p['classname'] = self.classes[
                    rel[draw(S._I100) % len(rel)]]['name']
        elif k < 85:
            if len(p['keys']) > 1:
                lbl = 'fewerkeys'
                p['keys'] = p['keys'][:-1]
        elif k < 88:
            lbl = 'extrakey'
            p['keys'] = p['keys'] + [('KeyZz', 'string', 'x')]
        elif k < 92:
            others = [n for n in self.classes[ci]['nss'] if n != e['nsi']]
            if others:
                lbl = 'otherns'
                p['namespace'] = self.nss[others[draw(S._I10) %
                                                 len(others)]]
        elif k < 94:
            lbl = 'badns'
            p['namespace'] = 'root/nonexistent'
        elif k < 96:
            missing = [i for i in range(len(self.nss))
                       if i not in self.classes[ci]['nss']]
            if missing:
                lbl = 'classnotinns'
                p['namespace'] = self.nss[missing[0]]
        elif k < 98:
            lbl = 'badclass'
            p['classname'] = p['classname'] + 'X'
        else:
            lbl = 'othervalue'
            p['keys'] = self._fresh_keys(draw, ci)
        self._last_label = lbl
        return lbl, p

    def _g_plist(self, draw, ci):
        k = draw(S._I100)
        if k < 45:
            return None
        names = [p['name'] for p in self.allp[ci]] if ci is not None \
            else ['KeyA0']
        if not names:
            names = ['Nope']
        pick = lambda: names[draw(S._I100) % len(names)]  # noqa: E731
        if k < 52:
            return []
        if k < 60:
            return pick()
        if k < 66:
            return [pick(), 'NoSuchProp']
        n = 1 + draw(S._I10) % 3
        pl = [pick() for _ in range(n)]
        if k < 80:
            pl = [_swap(draw, x) for x in pl]
        if k < 72 and pl:
            pl.append(pl[0].upper())
        return pl if k % 2 else ('tuple', pl)

    def _g_props(self, draw, ci, want_keys=True, frac=7):
        "list of (name, type, is_array, value, embedded) for class ci"
        out = []
        for p in self.allp[ci]:
            if p['key']:
                if want_keys:
                    out.append((p['name'], p['type'], False,
                                _g_keyval(draw, p['type']), None))
                continue
            if draw(S._I10) < frac:
                out.append((p['name'], p['type'], p['is_array'],
                            _g_val(draw, p), p['embedded']))
        return out

    def _spoil(self, draw, ci, props, how):
        "inject an invalid element into a property list"
        props = list(props)
        nonkey = [i for i, x in enumerate(props)
                  if not self.pm[ci][x[0].lower()]['key']]
        if how == 'unknown-prop':
            others = [p for j, ps in enumerate(self.allp) for p in ps
                      if p['name'].lower() not in self.pm[ci]]
            if others and draw(S._B):
                p = others[draw(S._I100) % len(others)]
                props.append((p['name'], p['type'], p['is_array'], None,
                              None))
            else:
                props.append(('NoSuchProp', 'string', False, 'x', None))
            return props
        if not nonkey:
            nk = [p for p in self.allp[ci] if not p['key']]
            if not nk:
                props.append(('NoSuchProp', 'string', False, 'x', None))
                return props
            p = nk[0]
            props.append((p['name'], p['type'], p['is_array'], None,
                          p['embedded']))
            nonkey = [len(props) - 1]
        i = nonkey[draw(S._I100) % len(nonkey)]
        n, t, a, v, e = props[i]
        if how == 'wrong-type':
            t2 = 'uint16' if t != 'uint16' else 'sint16'
            props[i] = (n, t2, a, [1] if a else 1, None)
        elif how == 'wrong-arrayness':
            if e:
                props[i] = (n, t, not a, None, e)
            else:
                s = S._g_scalar(draw, t, 0, STRINGS)
                props[i] = (n, t, not a, s if a else [s], e)
        elif how == 'embedded-unqualified':
            plain = [j for j in nonkey if props[j][1] == 'string' and
                     not props[j][4]]
            plain.sort(key=lambda j: not props[j][2])    # arrays first
            if plain:
                j = plain[0] if draw(S._B) else \
                    plain[draw(S._I10) % len(plain)]
                n, t, a, v, e = props[j]
                emb = _g_emb(draw)
                props[j] = (n, t, a, [emb] if a else emb, 'instance')
            else:
                props.append(('NoSuchProp', 'string', False, 'x', None))
        return props

    def _g_create(self, draw, force_new=False):
        k = 0 if force_new else draw(S._I100)
        live = [e for e in self.log if e['ident'] in self.model]
        ci = draw(S._I100) % len(self.classes)
        c = self.classes[ci]
        nsi = c['nss'][draw(S._I10) % len(c['nss'])]
        label = 'new'
        props = None
        if k < 45 or not live:
            props = self._g_props(draw, ci)
        elif k < 58:
            label = 'dup'
            e = live[draw(S._I100) % len(live)]
            ci, nsi = e['ci'], e['nsi']
            c = self.classes[ci]
            keyp = [(n, t, False, v, None) for n, t, v in e['path']['keys']]
            props = keyp + self._g_props(draw, ci, want_keys=False)
        elif k < 64:
            e = live[draw(S._I100) % len(live)]
            others = [n for n in self.classes[e['ci']]['nss']
                      if n != e['nsi']]
            ci = e['ci']
            c = self.classes[ci]
            if others:
                label = 'dup-other-ns'
                nsi = others[draw(S._I10) % len(others)]
            else:
                label = 'dup'
                nsi = e['nsi']
            keyp = [(n, t, False, v, None) for n, t, v in e['path']['keys']]
            props = keyp + self._g_props(draw, ci, want_keys=False)
        elif k < 70:
            label = 'missing-key'
            props = self._g_props(draw, ci)
            ki = [i for i, x in enumerate(props)
                  if self.pm[ci][x[0].lower()]['key']]
            del props[ki[draw(S._I10) % len(ki)]]
        elif k < 73:
            label = 'null-key'
            props = self._g_props(draw, ci)
            ki = [i for i, x in enumerate(props)
                  if self.pm[ci][x[0].lower()]['key']]
            i = ki[draw(S._I10) % len(ki)]
            props[i] = props[i][:3] + (None, None)
        elif k < 88:
            label = ['unknown-prop', 'wrong-type', 'wrong-arrayness',
                     'embedded-unqualified'][(k - 73) % 4]
            props = self._spoil(draw, ci, self._g_props(draw, ci), label)
        else:
            props = self._g_props(draw, ci)
        cname = c['name']
        nsname = self.nss[nsi]
        if 88 <= k < 91:
            label = 'badclass'
            cname = cname + 'X'
        elif 91 <= k < 94:
            label = 'badns'
            nsname = 'root/nonexistent'
        elif 94 <= k < 100:
            missing = [i for i in range(len(self.nss))
                       if i not in c['nss']]
            if missing:
                label = 'classnotinns'
                nsi = missing[0]
                nsname = self.nss[nsi]
        if draw(S._I10) < 2:
            cname = _swap(draw, cname)
        if draw(S._I10) < 2:
            props = [(_swap(draw, n), t, a, v, e) for n, t, a, v, e in props]
        if draw(S._I10) < 2:
            props = list(reversed(props))
        # how the namespace is conveyed
        how = draw(S._I10)
        path = None
        ns_arg = None
        if label == 'badns':
            ns_arg = nsname
        elif how < 5:
            ns_arg = self._ns_arg(draw, nsi)
        elif how < 7:
            path = {'k': 'ipath', 'classname': cname,
                    'keys': [('Ignored', 'string', 'x')],
                    'namespace': nsname, 'host': None}
        elif nsi == self.schema['default_ns']:
            pass
        else:
            ns_arg = nsname
        return {'op': 'create', 'label': label, 'ns': ns_arg,
                'inst': {'cls': cname, 'props': props, 'path': path}}

    def _g_modify(self, draw):
        tlabel, path = self._g_target(draw)
        ci = self._ci_of(path)
        if ci is None:
            ci = draw(S._I100) % len(self.classes)
        k = draw(S._I100)
        label = 'subset'
        nsi = self._nsi(path['namespace'])
        ent = None
        if nsi is not None and self._ci(path['classname'], nsi) is not None:
            ident = self._ident_of_path_recipe(path, nsi, ci)
            ent = self.model.get(ident)
        keyp = []
        if ent is not None:
            keyp = [(n, t, False, v, None)
                    for n, t, v in ent['path']['keys']]
        if k < 40:
            props = self._g_props(draw, ci, want_keys=False, frac=6)
        elif k < 52:
            label = 'with-key-same'
            props = keyp + self._g_props(draw, ci, want_keys=False, frac=5)
        elif k < 62:
            label = 'key-change'
            props = self._g_props(draw, ci, want_keys=False, frac=4)
            kk = [(p['name'], p['type'], False,
                   _g_keyval(draw, p['type']), None) for p in self.keys[ci]]
            props.append(kk[draw(S._I10) % len(kk)])
        elif k < 80:
            label = ['unknown-prop', 'wrong-type', 'wrong-arrayness',
                     'embedded-unqualified'][(k - 62) % 4]
            props = self._spoil(
                draw, ci, self._g_props(draw, ci, want_keys=False, frac=5),
                label)
        elif k < 85:
            label = 'empty'
            props = []
        else:
            props = self._g_props(draw, ci, want_keys=False, frac=9)
            label = 'full'
        cname = path['classname']
        if draw(S._I100) < 4:
            label = 'classname-mismatch'
            other = [c['name'] for c in self.classes
                     if c['name'].lower() != cname.lower()]
            cname = other[draw(S._I100) % len(other)] if other \
                else cname + 'Y'
        elif draw(S._I10) < 2:
            cname = _swap(draw, cname)
        if draw(S._I10) < 2:
            props = [(_swap(draw, n), t, a, v, e) for n, t, a, v, e in props]
        # property list
        j = draw(S._I100)
        given = [x[0] for x in props]
        allnames = [p['name'] for p in self.allp[ci]]
        nonkeys = [p['name'] for p in self.allp[ci] if not p['key']]
        if j < 45:
            pl = None
        elif j < 50:
            pl = []
        elif j < 62 and given:
            pl = [given[draw(S._I100) % len(given)]
                  for _ in range(1 + draw(S._I10) % 2)]
            label += '+pl-subset'
        elif j < 80 and nonkeys:
            pl = [nonkeys[draw(S._I100) % len(nonkeys)]
                  for _ in range(1 + draw(S._I10) % 3)]
            label += '+pl-nonkeys'
        elif j < 86:
            pl = [allnames[draw(S._I100) % len(allnames)]
                  for _ in range(1 + draw(S._I10) % 3)]
            label += '+pl-any'
        elif j < 91:
            pl = (given[:1] or allnames[:1]) + ['NoSuchProp']
            label += '+pl-unknown'
        else:
            pl = allnames[draw(S._I100) % len(allnames)]
            label += '+pl-str'
        if isinstance(pl, list) and pl:
            if draw(S._I10) < 3:
                pl = [_swap(draw, x) for x in pl]
            if draw(S._I10) < 2:
                pl = pl + [pl[0].swapcase()]
            if draw(S._I10) < 3:
                pl = ('tuple', pl)
        return {'op': 'modify', 'label': label, 'tlabel': tlabel,
                'inst': {'cls': cname, 'props': props, 'path': path},
                'plist': pl, 'iq': draw(S._TRI)}

    def _g_enum(self, draw, op):
        ci = draw(S._I100) % len(self.classes)
        c = self.classes[ci]
        cname = c['name']
        label = 'exact'
        k = draw(S._I100)
        nsi = c['nss'][draw(S._I10) % len(c['nss'])]
        if k < 15:
            label = 'case'
            cname = _swap(draw, cname)
        elif k < 20:
            label = 'badclass'
            cname = cname + 'X'
        ns_arg = self._ns_arg(draw, nsi)
        if nsi == self.schema['default_ns'] and draw(S._I10) < 4:
            ns_arg = None
        if 20 <= k < 25:
            label = 'badns'
            ns_arg = 'root/nonexistent'
        elif 25 <= k < 32:
            missing = [i for i in range(len(self.nss))
                       if i not in c['nss']]
            if missing:
                label = 'classnotinns'
                ns_arg = self.nss[missing[0]]
        cn = cname
        if draw(S._I10) < 2:
            cn = {'k': 'cpath', 'classname': cname,
                  'namespace': ns_arg.strip('/') if ns_arg else None,
                  'host': None}
            if cn['namespace'] is not None and draw(S._B):
                ns_arg = None
        step = {'op': op, 'label': label, 'cn': cn, 'ns': ns_arg}
        if op == 'enum':
            step.update({'lo': draw(S._TRI), 'di': draw(S._TRI),
                         'iq': draw(S._TRI), 'ico': draw(S._TRI),
                         'plist': self._g_plist(draw, ci)})
        return step

    # ---- expectations ----------------------------------------------------

    def _check_props(self, ci, props, designated=None):
        """
        -> (errs, may, reasons): INVALID_PARAMETER conditions of an
        instance's properties against class ci; `designated`: lower-cased
        names that are to be modified (None = all).
        """
        errs, may, reasons = set(), set(), []
        for n, t, a, v, e in props:
            cp = self.pm[ci].get(n.lower())
            why = None
            if cp is None:
                why = 'unknown-property'
            elif t != cp['type']:
                why = 'type-mismatch'
            elif a != cp['is_array']:
                why = 'arrayness-mismatch'
            elif has_emb_inst(v) and cp['embedded'] is None:
                why = 'embedded-array-unqualified' if isinstance(v, list) \
                    else 'embedded-scalar-unqualified'
            if why:
                if designated is None or n.lower() in designated:
                    errs.add(CIM_ERR_INVALID_PARAMETER)
                    reasons.append(why)
                else:
                    may.add(CIM_ERR_INVALID_PARAMETER)
        return errs, may, reasons

    def _pvals(self, props, ci):
        """
        {lower name: (type, is_array, canonical value)}; key properties are
        compared by CIM value equality like the keybindings (-0.0 == 0.0,
        same instant with another UTC offset)
        """
        out = {}
        for n, t, a, v, e in props:
            cp = self.pm[ci].get(n.lower())
            val = S.build_value(t, v)
            if cp is not None and cp['key'] and not a:
                out[n.lower()] = (t, a, kcanon(val))
            else:
                out[n.lower()] = (t, a, vcanon(val, EXACT))
        return out

    def _expect_create(self, step):
        inst = step['inst']
        ns = step['ns']
        if ns is None and inst['path'] is not None and \
                inst['path']['namespace'] is not None:
            ns = inst['path']['namespace']
        nsi = self._nsi(ns)
        exp = {'errs': set(), 'may': set(), 'effect': None, 'ident': None,
               'nsi': nsi, 'reasons': []}
        if nsi is None:
            exp['errs'].add(CIM_ERR_INVALID_NAMESPACE)
            exp['reasons'].append('namespace')
            return exp
        ci = self._ci(inst['cls'], nsi)
        if ci is None:
            exp['errs'].add(CIM_ERR_INVALID_CLASS)
            exp['reasons'].append('class')
            return exp
        errs, _, reasons = self._check_props(ci, inst['props'])
        given = {n.lower(): (t, v) for n, t, a, v, e in inst['props']}
        kv = []
        keys_ok = True
        for p in self.keys[ci]:
            g = given.get(p['name'].lower())
            if g is None:
                keys_ok = False
                reasons.append('missing-key')
            elif g[1] is None:
                keys_ok = False
                reasons.append('null-key')
            elif g[0] != p['type']:
                keys_ok = False     # mistyped key: already INVALID_PARAMETER
            else:
                kv.append((p['name'], p['type'], g[1]))
        if not keys_ok:
            errs.add(CIM_ERR_INVALID_PARAMETER)
        else:
            ident = self._ident_from_keys(
                nsi, ci, [(n, S.build_keyvalue(t, v)) for n, t, v in kv])
            exp['ident'] = ident
            if ident in self.model:
                errs.add(CIM_ERR_ALREADY_EXISTS)
                reasons.append('already-exists')
            exp['effect'] = ('create', {
                'ident': ident, 'nsi': nsi, 'ci': ci,
                'props': self._pvals(inst['props'], ci),
                'path': {'k': 'ipath',
                         'classname': self.classes[ci]['name'],
                         'keys': kv, 'namespace': self.nss[nsi],
                         'host': None}})
        exp['errs'] = errs
        exp['reasons'] = reasons
        return exp

    _LOOKUP_REASON = {CIM_ERR_INVALID_NAMESPACE: 'namespace',
                      CIM_ERR_INVALID_CLASS: 'class',
                      CIM_ERR_NOT_FOUND: 'not-found'}

    def _lookup(self, path):
        "-> (errs, nsi, ci, ident, entry) for a target path recipe"
        nsi = self._nsi(path['namespace'])
        if nsi is None:
            return {CIM_ERR_INVALID_NAMESPACE}, None, None, None, None
        ci = self._ci(path['classname'], nsi)
        if ci is None:
            return {CIM_ERR_INVALID_CLASS}, nsi, None, None, None
        ident = self._ident_of_path_recipe(path, nsi, ci)
        ent = self.model.get(ident) if ident is not None else None
        if ent is None:
            return {CIM_ERR_NOT_FOUND}, nsi, ci, ident, None
        return set(), nsi, ci, ident, ent

    def _expect_modify(self, step):
        inst = step['inst']
        path = inst['path']
        exp = {'errs': set(), 'may': set(), 'effect': None, 'reasons': []}
        mismatch = inst['cls'].lower() != path['classname'].lower()
        errs, nsi, ci, ident, ent = self._lookup(path)
        errs = set(errs)
        reasons = [self._LOOKUP_REASON[c] for c in errs]
        if mismatch:
            errs.add(CIM_ERR_INVALID_PARAMETER)
            reasons.append('classname-mismatch')
            if nsi is not None and self._ci(inst['cls'], nsi) is None:
                errs.add(CIM_ERR_INVALID_CLASS)
            exp['errs'], exp['reasons'] = errs, reasons
            return exp
        if ci is None:
            exp['errs'], exp['reasons'] = errs, reasons
            return exp
        pl = plist_names(step['plist'])
        pl_l = None
        if pl is not None:
            pl_l = []
            for n in pl:
                if n.lower() not in self.pm[ci]:
                    errs.add(CIM_ERR_INVALID_PARAMETER)
                    reasons.append('plist-unknown-property')
                elif n.lower() not in pl_l:
                    pl_l.append(n.lower())
        e2, may, r2 = self._check_props(ci, inst['props'], pl_l)
        errs |= e2
        reasons += r2
        given = self._pvals(inst['props'], ci)
        keyl = set(p['name'].lower() for p in self.keys[ci])
        if ent is not None:
            old = dict(ent['ident'][2])
            for ln, (t, a, cv) in given.items():
                if ln in keyl and self.pm[ci][ln]['type'] == t and not a \
                        and cv != old[ln]:
                    if pl_l is None or ln in pl_l:
                        errs.add(CIM_ERR_INVALID_PARAMETER)
                        reasons.append('key-change')
                    else:
                        may.add(CIM_ERR_INVALID_PARAMETER)
            if pl_l is not None:
                for ln in pl_l:
                    if ln in keyl and ln not in given:
                        may.add(CIM_ERR_INVALID_PARAMETER)
        exp['errs'], exp['may'], exp['reasons'] = errs, may, reasons
        if ent is not None:
            newp = dict(ent['props'])
            if pl_l is None:
                for ln, val in given.items():
                    if ln not in keyl:
                        newp[ln] = val
            else:
                for ln in pl_l:
                    if ln in keyl:
                        continue
                    if ln in given:
                        newp[ln] = given[ln]
                    else:
                        newp[ln] = self._class_default(self.pm[ci][ln])
            exp['effect'] = ('modify', ident, newp)
        return exp

    def _apply_effect(self, exp):
        eff = exp['effect']
        if eff is None:
            return
        if eff[0] == 'create':
            ent = eff[1]
            self.model[ent['ident']] = ent
            self.log.append(ent)
        elif eff[0] == 'modify':
            self.model[eff[1]]['props'] = eff[2]
        elif eff[0] == 'delete':
            del self.model[eff[1]]

    # ---- comparing results -----------------------------------------------

    def _inst_props(self, inst, ci):
        out = {}
        for n, p in inst.properties.items():
            cp = self.pm[ci].get(n.lower())
            if cp is not None and cp['key'] and not p.is_array:
                out[n.lower()] = (p.type, False, kcanon(p.value))
            else:
                out[n.lower()] = (p.type, bool(p.is_array),
                                  vcanon(p.value, EXACT))
        return out

    def _allowed(self, ent, plist, limit_ci=None):
        "expected properties of an entry under the filters"
        props = ent['props']
        names = set(props)
        if limit_ci is not None:
            names &= set(self.pm[limit_ci])
        pl = plist_names(plist)
        if pl is not None:
            names &= set(n.lower() for n in pl)
        return {n: props[n] for n in names}

    @staticmethod
    def _diff_props(want, got):
        "None or (kind, text); absent == NULL"
        for n in sorted(set(want) | set(got)):
            w, g = want.get(n), got.get(n)
            if w is not None and g is not None:
                if w[:2] != g[:2]:
                    return ('type-changed:%s->%s' % (
                        w[0] if w[0] != g[0] else 'array=%s' % w[1],
                        g[0] if w[0] != g[0] else 'array=%s' % g[1]),
                        'property %s: expected %r, got %r' % (n, w, g))
                if w != g:
                    return ('value-diff',
                            'property %s: expected %r, got %r' % (n, w, g))
            elif w is None:
                if g[2] is not None:
                    return ('unexpected-property',
                            'unexpected property %s = %r' % (n, g))
            elif w[2] is not None:
                return ('missing-property',
                        'property %s missing, expected %r' % (n, w))
        return None

    def _check_inst(self, inst, ent, plist, limit_ci, what):
        "-> None or (kind, text)"
        if not isinstance(inst, CIMInstance):
            return ('type', '%s is %r' % (what, type(inst)))
        if inst.path is None:
            return ('no-path', '%s has no path' % what)
        if self._ident_of_path_obj(inst.path) != ent['ident']:
            return ('wrong-path', '%s has path %r, expected %r' %
                    (what, inst.path, ent['path']))
        if inst.path.host is not None:
            return ('host-set', '%s has host %r' % (what, inst.path.host))
        if inst.classname.lower() != \
                self.classes[ent['ci']]['name'].lower():
            return ('wrong-classname', '%s classname %r, creation class %r'
                    % (what, inst.classname,
                       self.classes[ent['ci']]['name']))
        d = self._diff_props(self._allowed(ent, plist, limit_ci),
                             self._inst_props(inst, ent['ci']))
        if d:
            return (d[0], '%s: %s' % (what, d[1]))
        return None

    def _expected_members(self, nsi, ci):
        return {i: e for i, e in self.model.items()
                if e['nsi'] == nsi and e['ci'] in self.subtree[ci]}

    def _check_enum(self, result, nsi, ci, plist, di, names, what):
        "-> None or (kind, text)"
        want = self._expected_members(nsi, ci)
        if not isinstance(result, list):
            return ('type', '%s returned %r' % (what, type(result)))
        seen = set()
        for obj in result:
            path = obj if names else getattr(obj, 'path', None)
            if not isinstance(path, CIMInstanceName):
                return ('type', '%s item %r' % (what, type(obj)))
            ident = self._ident_of_path_obj(path)
            if ident in seen:
                return ('duplicate', '%s returned %r twice' % (what, path))
            seen.add(ident)
            if ident not in want:
                return ('extra', '%s returned %r which the model does not '
                        'hold there' % (what, path))
            if path.host is not None:
                return ('host-set', '%s path with host %r' % (what, path))
            if not names:
                bad = self._check_inst(
                    obj, want[ident], plist,
                    ci if di is False else None, what + ' item')
                if bad:
                    return bad
        miss = [want[i]['path'] for i in want if i not in seen]
        if miss:
            return ('missing', '%s did not return %r' % (what, miss[0]))
        return None

    def _check_store(self):
        """
        Read everything back; -> None or (kind, text, source).  source is
        'GetInstance' when the keyed look-up of a model entry disagrees with
        the model, else the enumeration that disagrees although all keyed
        look-ups agree.
        """
        conn = self.conn
        for ident in sorted(self.model, key=repr):
            ent = self.model[ident]
            try:
                inst = conn.GetInstance(S.build(ent['path']))
            except CIMError as exc:
                return ('get-%s' % _ename(exc.status_code),
                        'GetInstance(%r): %s' % (ent['path'], exc),
                        'GetInstance')
            bad = self._check_inst(inst, ent, None, None, 'GetInstance')
            if bad:
                return bad + ('GetInstance',)
        for nsi, ns in enumerate(self.nss):
            for ci, c in enumerate(self.classes):
                if c['super'] is not None or nsi not in c['nss']:
                    continue
                src = 'EnumerateInstances'
                try:
                    r = conn.EnumerateInstances(c['name'], namespace=ns)
                    bad = self._check_enum(r, nsi, ci, None, None, False,
                                           'EnumerateInstances')
                    if bad:
                        return bad + (src,)
                    src = 'EnumerateInstanceNames'
                    r = conn.EnumerateInstanceNames(c['name'], namespace=ns)
                    bad = self._check_enum(r, nsi, ci, None, None, True,
                                           'EnumerateInstanceNames')
                    if bad:
                        return bad + (src,)
                except CIMError as exc:
                    return ('%s' % _ename(exc.status_code),
                            '%s(%r, %r): %s' % (src, c['name'], ns, exc),
                            src)
        return None

    # ---- execution -------------------------------------------------------

    def _hold(self, origin, obj):
        self.held.append((origin, obj))
        if len(self.held) > 16:
            del self.held[0]

    def _call(self, fn):
        try:
            return ('ok', fn())
        except CIMError as exc:
            return ('cimerror', exc.status_code, exc)
        except Exception as exc:  # pylint: disable=broad-except
            if exc_signature(exc) is None:
                raise
            return ('leak', exc)

    def _verdict(self, op, label, out, exp):
        "compare outcome class with expectation; -> True if as expected"
        ctx = self.ctx
        allowed = exp['errs'] | exp['may']
        rs = set(exp.get('reasons') or [])
        why = '+'.join(sorted(rs)) or 'none'
        if rs and rs <= _PROPERTY_REASONS:
            # one validation routine serves CreateInstance and ModifyInstance
            op = 'create-or-modify'
        if out[0] == 'leak':
            ctx.fail('leak:%s:%s' % (op, mock_frame_sig(out[1])),
                     'step %r\nexpected %s\n%s' %
                     (self.step, self._expname(exp), exc_detail(out[1])))
            return False
        if out[0] == 'cimerror':
            if out[1] in allowed:
                return True
            ctx.fail('status:%s:%s-instead-of-%s[%s]' %
                     (op, _ename(out[1]), self._expname(exp), why),
                     'step %r\nraised %s' % (self.step, out[2]))
            return False
        if exp['errs']:
            ctx.fail('status:%s:succeeded-instead-of-%s[%s]' %
                     (op, self._expname(exp), why),
                     'step %r\nreturned %r' % (self.step, out[1]))
            return False
        return True

    @staticmethod
    def _expname(exp):
        if not exp['errs']:
            return 'success'
        return '|'.join(sorted(_ename(c) for c in exp['errs']))

    def apply(self, step):
        return self._do(step)

    def _do(self, step, quiet=False):
        ctx = self.ctx
        self.step = step
        op = step['op']
        label = step.get('label', '')
        classes = ['op:' + op, '%s:%s' % (op, label)]
        ok = True
        exp = None
        out = None
        changed_model = False
        if op == 'mutate':
            if not self.held:
                if not quiet:
                    ctx.case(nontrivial=False, classes=('mutate:nothing',))
                return True
            origin, obj = self.held[step['target'] % len(self.held)]
            if origin == 'create-result' and self.avoid_create_result and \
                    step['target'] % 10:
                # listed as known finding: mostly spare the history (the
                # defect makes the instance unreachable), but keep hitting
                # it now and then so that the finding stays confirmed
                obj = obj.copy()
            scribble(obj, step['levels'])
            classes.append('mutate:' + origin)
            self.flags['mutated'] = True
            bad = self._check_store()
            if bad and bad[2] != 'GetInstance':
                ctx.fail('readback:%s:%s' % (bad[2], bad[0]),
                         'all model entries are found by GetInstance, but '
                         'after a mutate step: %s' % bad[1])
                ctx.case(key=('step', len(self.log), step),
                         nontrivial=True, classes=classes)
                return False
            if bad:
                ctx.fail('isolation:%s:%s' % (origin, bad[0]),
                         'after scribbling (levels %r) over the object %s '
                         'the store differs from the model: %s' %
                         (step['levels'], origin, bad[1]))
                ctx.case(key=('step', len(self.log), step),
                         nontrivial=True, classes=classes)
                return False
            if self.model:
                self.flags['read_after_mutate'] = True
            ctx.case(key=('step', len(self.log), step), nontrivial=True,
                     classes=classes)
            return True

        if op == 'create':
            exp = self._expect_create(step)
            inst = b_inst(step['inst'])
            self._hold('create-arg', inst)
            out = self._call(lambda: self.conn.CreateInstance(
                inst, namespace=step['ns']))
            ok = self._verdict(op, label, out, exp)
            if out[0] == 'ok' and ok:
                r = out[1]
                if not isinstance(r, CIMInstanceName) or \
                        self._ident_of_path_obj(r) != exp['ident'] or \
                        r.host is not None:
                    ctx.fail('result:create:wrong-path',
                             'step %r\nreturned %r' % (step, r))
                    ok = False
                else:
                    self._hold('create-result', r)
                    self.flags['created'] = True
            if out[0] == 'ok' and exp['effect'] and \
                    exp['ident'] not in self.model:
                self._apply_effect(exp)
                changed_model = True
        elif op == 'modify':
            exp = self._expect_modify(step)
            inst = b_inst(step['inst'])
            self._hold('modify-arg', inst)
            pl = b_plist(step['plist'])
            out = self._call(lambda: self.conn.ModifyInstance(
                inst, IncludeQualifiers=step['iq'], PropertyList=pl))
            ok = self._verdict(op, label, out, exp)
            if out[0] == 'ok' and exp['effect']:
                self._apply_effect(exp)
                changed_model = True
                if ok and step['tlabel'] in ('case', 'order', 'numtype'):
                    self.flags['variant_access'] = True
        elif op == 'delete':
            errs, nsi, ci, ident, ent = self._lookup(step['path'])
            exp = {'errs': errs, 'may': set(),
                   'reasons': [self._LOOKUP_REASON[c] for c in errs],
                   'effect': ('delete', ident) if ent else None}
            path = S.build(step['path'])
            self._hold('delete-arg', path)
            out = self._call(lambda: self.conn.DeleteInstance(path))
            ok = self._verdict(op, label, out, exp)
            if out[0] == 'ok' and exp['effect']:
                self._apply_effect(exp)
                changed_model = True
                if ok and label in ('case', 'order', 'numtype'):
                    self.flags['variant_access'] = True
        elif op == 'get':
            errs, nsi, ci, ident, ent = self._lookup(step['path'])
            exp = {'errs': errs, 'may': set(), 'effect': None,
                   'reasons': [self._LOOKUP_REASON[c] for c in errs]}
            path = S.build(step['path'])
            self._hold('get-arg', path)
            pl = b_plist(step['plist'])
            out = self._call(lambda: self.conn.GetInstance(
                path, LocalOnly=step['lo'], IncludeQualifiers=step['iq'],
                IncludeClassOrigin=step['ico'], PropertyList=pl))
            ok = self._verdict(op, label, out, exp)
            if out[0] == 'ok' and ok:
                bad = self._check_inst(out[1], ent, step['plist'], None,
                                       'GetInstance')
                if bad:
                    ctx.fail('result:get:%s' % bad[0],
                             'step %r\n%s' % (step, bad[1]))
                    ok = False
                else:
                    self._hold('get-result', out[1])
                    if step['plist'] is not None:
                        classes.append('get:with-plist')
                    if label in ('case', 'order', 'numtype'):
                        self.flags['variant_access'] = True
        elif op in ('enum', 'names'):
            cn = step['cn']
            ns = step['ns']
            cname = cn if isinstance(cn, str) else cn['classname']
            if ns is None and isinstance(cn, dict):
                ns = cn['namespace']
            nsi = self._nsi(ns)
            errs = set()
            ci = None
            if nsi is None:
                errs.add(CIM_ERR_INVALID_NAMESPACE)
            else:
                ci = self._ci(cname, nsi)
                if ci is None:
                    errs.add(CIM_ERR_INVALID_CLASS)
            exp = {'errs': errs, 'may': set(), 'effect': None,
                   'reasons': [self._LOOKUP_REASON[c] for c in errs]}
            cnobj = cn if isinstance(cn, str) else S.build(cn)
            if op == 'enum':
                pl = b_plist(step['plist'])
                out = self._call(lambda: self.conn.EnumerateInstances(
                    cnobj, namespace=step['ns'], LocalOnly=step['lo'],
                    DeepInheritance=step['di'],
                    IncludeQualifiers=step['iq'],
                    IncludeClassOrigin=step['ico'], PropertyList=pl))
            else:
                out = self._call(lambda: self.conn.EnumerateInstanceNames(
                    cnobj, namespace=step['ns']))
            ok = self._verdict(op, label, out, exp)
            if out[0] == 'ok' and ok:
                bad = self._check_enum(
                    out[1], nsi, ci, step.get('plist'), step.get('di'),
                    op == 'names', 'Enumerate')
                if bad:
                    ctx.fail('result:%s:%s' % (op, bad[0]),
                             'step %r\n%s' % (step, bad[1]))
                    ok = False
                elif out[1]:
                    self._hold(op + '-result', out[1])
                    classes.append(op + ':nonempty')
                    if any(self.cls_l.get(
                            (o if op == 'names' else o.path).classname.lower())
                           != ci for o in out[1]):
                        classes.append(op + ':returns-subclass-instances')
                if op == 'enum' and ci is not None:
                    classes.append('enum:di=%s' % step['di'])
                    if step['plist'] is not None:
                        classes.append('enum:with-plist')
        else:
            raise HarnessError('unknown step %r' % (step,))

        outcome = 'ok' if out[0] == 'ok' else \
            _ename(out[1]) if out[0] == 'cimerror' else 'leak'
        classes.append('outcome:%s:%s' % (op, outcome))
        if exp and len(exp['errs']) > 1:
            classes.append('several-errors-apply')
        if exp and exp['may']:
            classes.append('lenient-error-applies')
        # the store must equal the model after every step
        bad = self._check_store()
        if bad and ok and bad[2] != 'GetInstance':
            ctx.fail('readback:%s:%s' % (bad[2], bad[0]),
                     'all model entries are found by GetInstance, but after '
                     'step %r: %s' % (step, bad[1]))
        elif bad and ok:
            what = op
            if op == 'modify':
                what = 'modify[pl]' if step['plist'] is not None \
                    else 'modify'
            ctx.fail('store:%s:%s:%s' % (what, outcome, bad[0]),
                     'after step %r (outcome %s) the store differs from the '
                     'model: %s' % (step, outcome, bad[1]))
        if self.flags['mutated'] and op in ('get', 'enum', 'names') and \
                out[0] == 'ok' and self.model:
            self.flags['read_after_mutate'] = True
        if not quiet:
            ctx.case(key=('step', len(self.log), step),
                     nontrivial=(out[0] == 'ok' or bool(exp['errs'])),
                     classes=classes)
        return not bad

    def finish(self):
        f = self.flags
        nontriv = (f['created'] and f['variant_access']) or \
            f['read_after_mutate']
        depth = 1
        for i in range(len(self.classes)):
            d, j = 1, i
            while self.classes[j]['super'] is not None:
                d, j = d + 1, self.classes[j]['super']
            depth = max(depth, d)
        self.ctx.case(nontrivial=nontriv, classes=(
            'history', 'schema:namespaces=%d' % len(self.nss),
            'schema:depth=%d' % depth,
            'history:variant-access' if f['variant_access']
            else 'history:no-variant-access',
            'history:read-after-mutate' if f['read_after_mutate']
            else 'history:no-read-after-mutate'))

    def teardown(self):
        self.conn = None
        self.held = []


SUBCHECKS = [
    Sub('history', machine=Machine, quick=(16, 40), thorough=(16, 1200),
        steps=(40, 80), case_timeout=120, budget=(1200, 7200)),
]
