"""
Canonical forms of pywbem objects used by round-trip and differential oracles
(DESIGN.md 2.1, 4.1).

``canon(obj)`` maps a pywbem object (or value) to nested tuples of plain
Python data in which names keep their spelling and order, CIM types are
explicit, NULL / '' / [] are distinct, floats are compared by value with the
sign of zero and NaN == NaN.  Options select the documented normalisations a
given oracle needs.
"""

import math
from datetime import datetime, timedelta

from pywbem import (CIMInstanceName, CIMClassName, CIMInstance, CIMClass,
                    CIMProperty, CIMMethod, CIMParameter, CIMQualifier,
                    CIMQualifierDeclaration, CIMDateTime, Char16)
from pywbem._cim_types import CIMInt, CIMFloat

ALL_SCOPES = ('CLASS', 'ASSOCIATION', 'REFERENCE', 'PROPERTY', 'METHOD',
              'PARAMETER', 'INDICATION')


def fcanon(f):
    f = float(f)
    if math.isnan(f):
        return 'nan'
    if f == 0:
        return '-0.0' if math.copysign(1, f) < 0 else '0.0'
    return repr(f)


class Opts:
    """
    defaults:   replace None flavor/propagated attributes by the DSP0201
                defaults (what a parsed object reports)
    lower:      lower-case all CIM names (for case-insensitive comparison)
    untyped_keys: keybinding numbers compare by value only, Char16 as str
    sort:       sort children by lower-cased name (order-insensitive)
    f32:        compare real32 values after rounding to float32
    """
    def __init__(self, defaults=False, lower=False, untyped_keys=False,
                 sort=False, host=True, f32=True, ignore=()):
        self.defaults = defaults
        self.lower = lower
        self.untyped_keys = untyped_keys
        self.sort = sort
        self.host = host
        self.f32 = f32
        self.ignore = set(ignore)


EXACT = Opts()
PARSED = Opts(defaults=True)


def _n(name, o):
    if name is None:
        return None
    return name.lower() if o.lower else name


def _f32(x):
    import struct
    try:
        return struct.unpack('f', struct.pack('f', x))[0]
    except OverflowError:
        return math.copysign(math.inf, x)


def vcanon(v, o=EXACT, key=False):
    "canonical form of a CIM value (scalar or list)"
    if v is None:
        return None
    if isinstance(v, (list, tuple)):
        return ('list', tuple(vcanon(x, o, key) for x in v))
    if isinstance(v, bool):
        return ('boolean', v)
    if isinstance(v, CIMInt):
        if key and o.untyped_keys:
            return ('num', int(v))
        return (v.cimtype, int(v))
    if isinstance(v, CIMFloat):
        if key and o.untyped_keys:
            return ('num', fcanon(v))
        if v.cimtype == 'real32' and o.f32:
            return (v.cimtype, fcanon(_f32(float(v))))
        return (v.cimtype, fcanon(v))
    if isinstance(v, int):
        if key and o.untyped_keys:
            return ('num', int(v))
        return ('int', int(v))
    if isinstance(v, float):
        if key and o.untyped_keys:
            return ('num', fcanon(v))
        return ('float', fcanon(v))
    if isinstance(v, Char16):
        return ('string', str(v)) if key else ('char16', str(v))
    if isinstance(v, str):
        return ('string', str(v))
    if isinstance(v, bytes):
        return ('string', v.decode('utf-8'))
    if isinstance(v, CIMDateTime):
        return ('datetime', str(v))
    if isinstance(v, datetime):
        return ('datetime', str(CIMDateTime(v)))
    if isinstance(v, timedelta):
        return ('datetime', str(CIMDateTime(v)))
    return canon(v, o)


def _children(items, o):
    items = list(items)
    if o.sort:
        items.sort(key=lambda c: (c[1] or '').lower()
                   if isinstance(c[1], str) else '')
    return tuple(items)


def _flav(v, default, o):
    if v is None and o.defaults:
        return default
    return v


def canon(obj, o=EXACT):
    if obj is None:
        return None
    if isinstance(obj, CIMInstanceName):
        kbs = [(_n(k, o), vcanon(v, o, key=True))
               for k, v in obj.keybindings.items()]
        if o.sort:
            kbs.sort(key=lambda kv: (kv[0] or '').lower())
        return ('ipath', _n(obj.classname, o),
                _n(obj.host, o) if o.host else None,
                _n(obj.namespace, o), tuple(kbs))
    if isinstance(obj, CIMClassName):
        return ('cpath', _n(obj.classname, o),
                _n(obj.host, o) if o.host else None, _n(obj.namespace, o))
    if isinstance(obj, CIMQualifier):
        return ('qual', _n(obj.name, o), obj.type,
                vcanon(obj.value, o),
                _flav(obj.propagated, False, o),
                _flav(obj.overridable, True, o),
                _flav(obj.tosubclass, True, o),
                _flav(obj.toinstance, False, o),
                _flav(obj.translatable, False, o))
    if isinstance(obj, CIMQualifierDeclaration):
        scopes = obj.scopes
        if o.defaults:
            true = set(k.upper() for k, v in scopes.items() if v)
            if 'ANY' in true:
                true = set(ALL_SCOPES)
            sc = tuple(sorted(true))
        else:
            sc = tuple((k, v) for k, v in scopes.items())
        return ('qualdecl', _n(obj.name, o), obj.type,
                obj.is_array, obj.array_size, vcanon(obj.value, o), sc,
                _flav(obj.overridable, True, o),
                _flav(obj.tosubclass, True, o),
                _flav(obj.toinstance, False, o),
                _flav(obj.translatable, False, o))
    if isinstance(obj, CIMProperty):
        return ('prop', _n(obj.name, o), obj.type, obj.is_array,
                obj.array_size, _n(obj.reference_class, o),
                obj.embedded_object,
                None if 'class_origin' in o.ignore
                else _n(obj.class_origin, o),
                None if 'propagated' in o.ignore
                else _flav(obj.propagated, False, o),
                vcanon(obj.value, o),
                _children((canon(q, o) for q in obj.qualifiers.values()), o))
    if isinstance(obj, CIMParameter):
        return ('param', _n(obj.name, o), obj.type, obj.is_array,
                obj.array_size, _n(obj.reference_class, o),
                None if 'param_embedded_object' in o.ignore
                else obj.embedded_object, vcanon(obj.value, o),
                _children((canon(q, o) for q in obj.qualifiers.values()), o))
    if isinstance(obj, CIMMethod):
        return ('meth', _n(obj.name, o), obj.return_type,
                None if 'class_origin' in o.ignore
                else _n(obj.class_origin, o),
                None if 'propagated' in o.ignore
                else _flav(obj.propagated, False, o),
                _children((canon(p, o) for p in obj.parameters.values()), o),
                _children((canon(q, o) for q in obj.qualifiers.values()), o))
    if isinstance(obj, CIMInstance):
        return ('inst', _n(obj.classname, o), canon(obj.path, o),
                _children((canon(p, o) for p in obj.properties.values()), o),
                _children((canon(q, o) for q in obj.qualifiers.values()), o))
    if isinstance(obj, CIMClass):
        return ('class', _n(obj.classname, o), _n(obj.superclass, o),
                None if 'path' in o.ignore else canon(obj.path, o),
                _children((canon(p, o) for p in obj.properties.values()), o),
                _children((canon(m, o) for m in obj.methods.values()), o),
                _children((canon(q, o) for q in obj.qualifiers.values()), o))
    if isinstance(obj, (list, tuple)):
        return ('list', tuple(canon(x, o) for x in obj))
    return vcanon(obj, o)


def diff_path(a, b, path=''):
    "first difference between two canonical forms, as a readable string"
    if a == b:
        return None
    if isinstance(a, tuple) and isinstance(b, tuple):
        if len(a) != len(b):
            return '%s: length %d != %d (%r vs %r)' % (
                path, len(a), len(b), _short(a), _short(b))
        for i, (x, y) in enumerate(zip(a, b)):
            d = diff_path(x, y, '%s/%s' % (path, a[0] if i and isinstance(
                a[0], str) and i > 0 and False else i))
            if d:
                return d
    return '%s: %r != %r' % (path, _short(a), _short(b))


def _short(x, n=200):
    r = repr(x)
    return r if len(r) <= n else r[:n] + '...'
