"""
Coverage-guided byte-level fuzzing of the response path (C02, thorough tier
add-on): atheris/libFuzzer mutates (operation selector, response body bytes);
the oracle is the one of pbt/c02.py (documented result type or pywbem.Error).

Run as a script by the C02 sub-check 'atheris':
    python -m pbt.fuzz_c02 <corpus_dir> <artifact_prefix> -runs=N -seed=S ...
and imported by it for replaying crash artifacts through the normal oracle.
"""

import os
import sys

VERIF = os.path.dirname(os.path.dirname(os.path.abspath(__file__)))
REPO = os.environ.get('PYWBEM_REPO', '/repo')

# fixed, simple, valid calls: one per response-processing path
CALLS = [
    {'op': 'EnumerateInstances', 'args': {'ClassName': 'C'}},
    {'op': 'EnumerateInstanceNames', 'args': {'ClassName': 'C'}},
    {'op': 'GetInstance', 'args': {'InstanceName': {
        'k': 'ipath', 'classname': 'C', 'keys': [('k', 'string', 'v')],
        'namespace': None, 'host': None}}},
    {'op': 'CreateInstance', 'args': {'NewInstance': {
        'k': 'inst', 'classname': 'C', 'properties': [], 'qualifiers': [],
        'path': None}}},
    {'op': 'Associators', 'args': {'ObjectName': {
        'k': 'ipath', 'classname': 'C', 'keys': [('k', 'string', 'v')],
        'namespace': None, 'host': None}}},
    {'op': 'Associators', 'args': {'ObjectName': 'C'}},
    {'op': 'AssociatorNames', 'args': {'ObjectName': 'C'}},
    {'op': 'ReferenceNames', 'args': {'ObjectName': {
        'k': 'ipath', 'classname': 'C', 'keys': [('k', 'string', 'v')],
        'namespace': None, 'host': None}}},
    {'op': 'InvokeMethod', 'args': {'MethodName': 'M', 'ObjectName': 'C',
                                    'Params': [], 'kwparams': []}},
    {'op': 'ExecQuery', 'args': {'QueryLanguage': 'WQL', 'Query': 'x'}},
    {'op': 'OpenEnumerateInstances', 'args': {'ClassName': 'C'}},
    {'op': 'OpenEnumerateInstancePaths', 'args': {'ClassName': 'C'}},
    {'op': 'OpenQueryInstances', 'args': {'FilterQueryLanguage': 'WQL',
                                          'FilterQuery': 'x',
                                          'ReturnQueryResultClass': True}},
    {'op': 'PullInstancesWithPath', 'args': {'context': ('ctx', 'c', 'ns'),
                                             'MaxObjectCount': 1}},
    {'op': 'PullInstances', 'args': {'context': ('ctx', 'c', 'ns'),
                                     'MaxObjectCount': 1}},
    {'op': 'EnumerateClasses', 'args': {}},
    {'op': 'EnumerateClassNames', 'args': {}},
    {'op': 'GetClass', 'args': {'ClassName': 'C'}},
    {'op': 'EnumerateQualifiers', 'args': {}},
    {'op': 'GetQualifier', 'args': {'QualifierName': 'Q'}},
    {'op': 'DeleteInstance', 'args': {'InstanceName': {
        'k': 'ipath', 'classname': 'C', 'keys': [('k', 'string', 'v')],
        'namespace': None, 'host': None}}},
    {'op': 'ExportIndication', 'args': {'NewIndication': {
        'k': 'inst', 'classname': 'C', 'properties': [], 'qualifiers': [],
        'path': None}}},
]


DICTIONARY = [
    '<CIM', '<MESSAGE', '<SIMPLERSP>', '<IMETHODRESPONSE', '<METHODRESPONSE',
    '<IRETURNVALUE>', '<RETURNVALUE', '<ERROR', 'CODE="', 'DESCRIPTION="',
    '<INSTANCE', '<INSTANCENAME', '<INSTANCEPATH>', '<LOCALINSTANCEPATH>',
    '<NAMESPACEPATH>', '<LOCALNAMESPACEPATH>', '<NAMESPACE', '<HOST>',
    '<KEYBINDING', '<KEYVALUE', 'VALUETYPE="', '<VALUE>', '</VALUE>',
    '<VALUE.ARRAY>', '<VALUE.NULL/>', '<VALUE.REFERENCE>', '<VALUE.REFARRAY>',
    '<VALUE.NAMEDINSTANCE>', '<VALUE.INSTANCEWITHPATH>',
    '<VALUE.OBJECTWITHPATH>', '<VALUE.OBJECTWITHLOCALPATH>', '<VALUE.OBJECT>',
    '<CLASS', '<CLASSNAME', '<CLASSPATH>', '<LOCALCLASSPATH>', '<PROPERTY',
    '<PROPERTY.ARRAY', '<PROPERTY.REFERENCE', '<METHOD', '<PARAMETER',
    '<PARAMETER.ARRAY', '<PARAMETER.REFERENCE', '<PARAMETER.REFARRAY',
    '<QUALIFIER', '<QUALIFIER.DECLARATION', '<SCOPE', '<PARAMVALUE',
    'PARAMTYPE="', 'TYPE="', 'NAME="', 'ARRAYSIZE="', 'ISARRAY="',
    'EmbeddedObject="', 'EMBEDDEDOBJECT="', 'instance', 'object',
    'EnumerationContext', 'EndOfSequence', 'TRUE', 'FALSE', 'INF', '-INF',
    'NaN', 'uint8', 'sint64', 'real32', 'datetime', 'char16', 'reference',
    'string', 'boolean', '&#', '&lt;', '<![CDATA[', ']]>', '<!--', '<?xml',
    'encoding="', '<!DOCTYPE', '<!ENTITY',
    '20240229123015.000000+060', '00000001000000.000000:000',
]


def example_from_bytes(data):
    "fuzz input -> C02 example"
    sel = data[0] if data else 0
    return {'call': CALLS[sel % len(CALLS)],
            'conn': {'dns': None, 'pull': None, 'stats': bool(sel & 0x80)},
            'responses': [{'mode': 'raw', 'status': (200, 'OK'),
                           'headers': [], 'raw': bytes(data[1:])}]}


def seed_corpus(cdir):
    "valid responses (one per call) + recorded bodies as starting corpus"
    sys.path.insert(0, VERIF)
    from pbt import c02, responses as R
    from pbt.xmlserver import request_method_name
    os.makedirs(cdir, exist_ok=True)
    pool = {'insts': [{'k': 'inst', 'classname': 'C', 'properties': [
        {'k': 'prop', 'name': 'p', 'type': 'uint8', 'value': [1, None],
         'is_array': True, 'array_size': None, 'reference_class': None,
         'embedded_object': None, 'class_origin': None, 'propagated': None,
         'qualifiers': []}], 'qualifiers': [], 'path': {
             'k': 'ipath', 'classname': 'C', 'keys': [('k', 'uint8', 1)],
             'namespace': 'root/cimv2', 'host': 'h'}}],
            'classes': [{'k': 'class', 'classname': 'C', 'superclass': None,
                         'properties': [], 'methods': [], 'qualifiers': []}],
            'qdecls': [{'k': 'qualdecl', 'name': 'Q', 'type': 'string',
                        'value': None, 'is_array': False, 'array_size': None,
                        'scopes': None, 'overridable': None,
                        'tosubclass': None, 'toinstance': None,
                        'translatable': None}],
            'retval': ('uint32', False, 0), 'outs': [
                ('o', ('string', True, ['a', None]))],
            'eos': False, 'ctx': 'c'}
    n = 0
    for i, call in enumerate(CALLS):
        op = call['op']
        tag = 'METHODCALL' if op == 'InvokeMethod' else \
            'EXPMETHODCALL' if op == 'ExportIndication' else 'IMETHODCALL'
        name = 'M' if op == 'InvokeMethod' else op
        class_level = not isinstance(call['args'].get('ObjectName'), dict)
        body = R.valid_response(tag, name, pool, class_level).encode('utf-8')
        with open(os.path.join(cdir, 'valid_%02d' % i), 'wb') as fp:
            fp.write(bytes([i]) + body)
        n += 1
    for j, (meth, text) in enumerate(c02.yaml_bodies()[:120]):
        idx = [k for k, c in enumerate(CALLS) if c['op'] == meth]
        if not idx:
            continue
        with open(os.path.join(cdir, 'yaml_%03d' % j), 'wb') as fp:
            fp.write(bytes([idx[0]]) + text.encode('utf-8'))
        n += 1
    return n


def main():
    sys.path.insert(0, os.path.join(VERIF, '.deps'))
    sys.path.insert(0, VERIF)
    sys.path.insert(0, REPO)
    import atheris
    with atheris.instrument_imports(include=['pywbem']):
        import pywbem  # noqa: F401
        from pywbem import _tupleparse, _tupletree, _cim_operations  # noqa
    import warnings
    warnings.simplefilter('ignore')
    from pbt import c02
    from pbt import responses as R

    def test_one_input(data):
        if len(data) > 20000:
            return
        ex = example_from_bytes(data)
        outcome, val, adapter, bodies, conn = c02.run_case(ex)
        if outcome == 'leak':
            raise val
        if outcome == 'returned' and not R.result_type_ok(
                ex['call']['op'], ex['call'], val):
            raise AssertionError('result-type:' + ex['call']['op'])
    atheris.Setup(sys.argv, test_one_input)
    atheris.Fuzz()


if __name__ == '__main__':
    main()
