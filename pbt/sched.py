"""
Deterministic cooperative scheduler for schedule exploration (C16,
DESIGN.md 4.16).

The code under test runs in real Python threads, but every controlled thread
owns a lock and only the thread chosen by the scheduler runs; control returns
to the scheduler at every *yield point*.  Yield points are obtained without
touching pywbem: ``Shims.install(module)`` rebinds the module-level names
``queue``, ``threading``, ``sleep``, ``make_server``, ``CallbackThread`` and
``ServerThread`` of ``pywbem._listener`` for the duration of one case.

A *schedule* is a plain list of small ints.  At every decision point that has
more than one option the next int ``c`` selects ``options[c % len(options)]``
where the options are ordered: the thread that ran last (if it can continue),
the other runnable threads in creation order, then the threads blocked in a
timed wait (firing their timeout) in order of virtual deadline.  A schedule
that is used up is padded with zeros, i.e. the run is completed
non-preemptively and timeouts fire only when nothing else can run (a fair
completion).  ``c != 0`` therefore is "preempt / reorder / fire a timeout
early", and the run is a deterministic function of (scenario, schedule).

Blocking operations (Queue.get/put, Event.wait, sleep, Thread.join, the stub
server's select/shutdown/close) are modelled as ``block(predicate, timeout)``;
time is virtual.

The stub server starts one controlled handler thread per accepted connection
(socketserver.ThreadingMixIn); ``run_handler`` runs the handler class that was
given to ``make_server`` on a ``StubSocket``.  The sender (``client_request``)
continues as soon as the complete response has been written, the handler
thread goes on independently.
"""

import errno
import io
import collections
import threading as _real_threading
import queue as _real_queue
import _thread


class Abort(BaseException):
    """
    Raised inside controlled threads to unwind them at the end of a case.
    Not an Exception, so that ``except Exception`` handlers in the code under
    test do not swallow it.
    """


class SchedulerError(Exception):
    "The scheduler or a shim (harness code) is wrong"


class TState:
    "Scheduler-side state of one controlled thread"

    def __init__(self, sched, tid, name, role):
        self.sched = sched
        self.tid = tid
        self.name = name
        self.role = role            # 'main' | 'sender' | 'listener'
        self.lock = _thread.allocate_lock()
        self.lock.acquire()         # the thread waits until it is scheduled
        self.done = False
        self.pred = None            # blocked until pred() is true
        self.deadline = None        # virtual deadline of a timed wait
        self.timed_out = False
        self.label = 'new'
        self.flags = set()
        self.thread = None          # real threading.Thread
        self.crash = None           # harness exception inside the thread

    def __repr__(self):
        return 'T%d:%s@%s' % (self.tid, self.name, self.label)


class Scheduler:

    def __init__(self, schedule, max_steps=4000):
        self.schedule = list(schedule)
        self.pos = 0                # consumed entries of the schedule
        self.used = []              # effective choices (index into options)
        self.noptions = []          # number of options per consumed entry
        self.max_steps = max_steps
        self.lock = _thread.allocate_lock()
        self.lock.acquire()
        self.threads = []
        self.current = None
        self.now = 0.0
        self.steps = 0
        self.preemptions = []       # (thread name, label, flags) preempted
        self.early_timeouts = 0     # timeouts fired while something could run
        self.aborting = False
        self.outcome = None         # 'done' | 'deadlock' | 'steps'
        self.harness_crash = None
        self.trace = collections.deque(maxlen=60)

    # ---- thread side ----------------------------------------------------

    def me(self):
        st = getattr(_real_threading.current_thread(), '_c_state', None)
        if st is None or st.sched is not self:
            return None
        return st

    def _wake_scheduler(self):
        try:
            self.lock.release()
        except RuntimeError:
            # only possible while aborting (nobody waits for the lock)
            if not self.aborting:
                raise

    def _switch(self, st):
        self._wake_scheduler()
        st.lock.acquire()
        if self.aborting:
            raise Abort()

    def yield_point(self, label):
        "Scheduling point of the calling thread (no-op in other threads)"
        st = self.me()
        if st is None:
            return
        if self.aborting:
            raise Abort()
        st.label = label
        self._switch(st)

    def block(self, pred, timeout=None, label='block'):
        """
        Block the calling thread until pred() is true or (timeout not None)
        the scheduler fires the timeout.  Returns True if pred() was true,
        False on timeout.
        """
        st = self.me()
        if st is None:
            raise SchedulerError('blocking shim call %s from an '
                                 'uncontrolled thread' % label)
        if self.aborting:
            raise Abort()
        st.label = label
        st.pred = pred
        st.deadline = None if timeout is None else self.now + timeout
        st.timed_out = False
        self._switch(st)
        return not st.timed_out

    # ---- creation of threads ----------------------------------------------

    def new_state(self, name, role):
        st = TState(self, len(self.threads), name, role)
        self.threads.append(st)
        return st

    def spawn(self, fn, name, role):
        "Start a controlled plain thread running fn()"
        st = self.new_state(name, role)

        def boot():
            st.lock.acquire()
            try:
                if not self.aborting:
                    fn()
            except Abort:
                pass
            except BaseException as exc:  # pylint: disable=broad-except
                st.crash = exc
                self.harness_crash = exc
            finally:
                st.done = True
                st.label = 'done'
                self._wake_scheduler()

        th = _real_threading.Thread(target=boot, name='c16-' + name,
                                    daemon=True)
        th._c_state = st  # pylint: disable=protected-access
        st.thread = th
        th.start()
        return st

    # ---- scheduler side ---------------------------------------------------

    def _options(self):
        live = [t for t in self.threads if not t.done]
        runnable = []
        timed = []
        for t in live:
            if t.pred is None or t.pred():
                runnable.append(t)
            elif t.deadline is not None:
                timed.append(t)
        opts = []
        cur = self.current
        if cur is not None and cur in runnable:
            opts.append((cur, 'run'))
        for t in runnable:
            if t is not cur:
                opts.append((t, 'run'))
        timed.sort(key=lambda t: (t.deadline, t.tid))
        for t in timed:
            opts.append((t, 'timeout'))
        return opts, runnable

    def run(self, until):
        """
        Run until until() is true (evaluated between steps), a deadlock, or
        the step bound.  Sets and returns self.outcome.
        """
        while True:
            if self.harness_crash is not None:
                raise SchedulerError(
                    'exception in harness code of a controlled thread: %r' %
                    (self.harness_crash,)) from self.harness_crash
            if until():
                self.outcome = 'done'
                break
            opts, runnable = self._options()
            if not opts:
                self.outcome = 'deadlock'
                break
            if self.steps >= self.max_steps:
                self.outcome = 'steps'
                break
            if len(opts) == 1:
                k = 0
            else:
                c = self.schedule[self.pos] if self.pos < len(self.schedule) \
                    else 0
                self.pos += 1
                k = c % len(opts)
                self.used.append(k)
                self.noptions.append(len(opts))
            chosen, kind = opts[k]
            cur = self.current
            if cur is not None and cur is not chosen and cur in runnable:
                self.preemptions.append(
                    (cur.name, cur.label, tuple(sorted(cur.flags))))
            if kind == 'timeout':
                chosen.timed_out = True
                if runnable:
                    self.early_timeouts += 1
                if chosen.deadline > self.now:
                    self.now = chosen.deadline
            chosen.pred = None
            chosen.deadline = None
            self.current = chosen
            self.steps += 1
            self.trace.append((chosen.tid, chosen.name, chosen.label, kind))
            chosen.lock.release()
            self.lock.acquire()
        return self.outcome

    def effective_schedule(self):
        "The consumed choices without trailing zeros (canonical form)"
        used = list(self.used)
        while used and used[-1] == 0:
            used.pop()
        return used

    def shutdown(self):
        """
        Abort every controlled thread that is still alive and wait for the
        real threads to end.  Returns the names of threads that did not end.
        """
        self.aborting = True
        for t in self.threads:
            if t.lock.locked():
                try:
                    t.lock.release()
                except RuntimeError:
                    pass
        left = []
        for t in self.threads:
            if t.thread is not None:
                _real_threading.Thread.join(t.thread, 10)
                if t.thread.is_alive():
                    left.append(t.name)
        return left


# ---------------------------------------------------------------------------
# shims

class ShimQueue:
    """
    queue.Queue with the real algorithmic behaviour (FIFO, maxsize,
    Full/Empty, unfinished task count), each operation atomic, with a
    scheduling point before and after it.
    """

    def __init__(self, maxsize=0):
        self._s = _CURRENT[0]
        self.maxsize = maxsize
        self._items = collections.deque()
        self.unfinished_tasks = 0
        self.stats = self._s.qstats
        self.stats['queues'] += 1

    def _full(self):
        return 0 < self.maxsize <= len(self._items)

    def _push(self, item):
        self._items.append(item)

    def _pop(self):
        return self._items.popleft()

    def qsize(self):
        self._s.yield_point('q.qsize')
        n = len(self._items)
        self._s.yield_point('q.qsize:ret')
        return n

    def empty(self):
        self._s.yield_point('q.empty')
        r = not self._items
        self._s.yield_point('q.empty:ret')
        return r

    def full(self):
        self._s.yield_point('q.full')
        r = self._full()
        self._s.yield_point('q.full:ret')
        return r

    def put(self, item, block=True, timeout=None):
        s = self._s
        s.yield_point('q.put')
        if self._full():
            self.stats['put_on_full'] += 1
            if not block:
                s.yield_point('q.put:full')
                raise _real_queue.Full
            if timeout is not None and timeout < 0:
                raise ValueError("'timeout' must be a non-negative number")
            self.stats['put_blocked'] += 1
            ok = s.block(lambda: not self._full(), timeout, 'q.put:wait')
            if not ok:
                raise _real_queue.Full
        self._push(item)
        self.unfinished_tasks += 1
        st = s.me()
        if st is not None:
            st.flags.add('has-put')
        if len(self._items) > self.stats['max_len']:
            self.stats['max_len'] = len(self._items)
        s.yield_point('q.put:ret')

    def put_nowait(self, item):
        return self.put(item, block=False)

    def get(self, block=True, timeout=None):
        s = self._s
        s.yield_point('q.get')
        if not self._items:
            if not block:
                s.yield_point('q.get:empty')
                raise _real_queue.Empty
            if timeout is not None and timeout < 0:
                raise ValueError("'timeout' must be a non-negative number")
            ok = s.block(lambda: bool(self._items), timeout, 'q.get:wait')
            if not ok:
                raise _real_queue.Empty
        item = self._pop()
        st = s.me()
        if st is not None:
            st.flags.add('holding-item')
        s.yield_point('q.get:ret')
        return item

    def get_nowait(self):
        return self.get(block=False)

    def task_done(self):
        s = self._s
        s.yield_point('q.task_done')
        st = s.me()
        if st is not None:
            st.flags.discard('holding-item')
        if self.unfinished_tasks <= 0:
            raise ValueError('task_done() called too many times')
        self.unfinished_tasks -= 1
        s.yield_point('q.task_done:ret')

    def join(self):
        self._s.yield_point('q.join')
        self._s.block(lambda: self.unfinished_tasks == 0, None, 'q.join:wait')


class ShimLifoQueue(ShimQueue):
    "queue.LifoQueue counterpart"

    def _pop(self):
        return self._items.pop()


class ShimEvent:
    "threading.Event with scheduling points"

    def __init__(self):
        self._s = _CURRENT[0]
        self._flag = False

    def is_set(self):
        self._s.yield_point('ev.is_set')
        r = self._flag
        self._s.yield_point('ev.is_set:ret')
        return r

    isSet = is_set

    def set(self):
        self._s.yield_point('ev.set')
        self._flag = True
        self._s.yield_point('ev.set:ret')

    def clear(self):
        self._s.yield_point('ev.clear')
        self._flag = False
        self._s.yield_point('ev.clear:ret')

    def wait(self, timeout=None):
        self._s.yield_point('ev.wait')
        if not self._flag:
            self._s.block(lambda: self._flag, timeout, 'ev.wait:wait')
        return self._flag


class _ModuleShim:
    "Stands in for a module: given names first, the real module otherwise"

    def __init__(self, real, **names):
        self.__dict__['_real'] = real
        self.__dict__.update(names)

    def __getattr__(self, name):
        return getattr(self._real, name)


class Request:
    """
    One connection of a sender to the stub server.  handle(server, request)
    is what the server's handler thread does with the connection; whatever
    it writes to the connection (StubSocket) is collected in response, and
    responded becomes true with the last byte of a complete HTTP response.
    """

    def __init__(self, handle=None, data=b'', peer=('127.0.0.1', 50000)):
        self.state = 'queued'   # queued | accepted | dropped | done
        self.handle = handle
        self.data = data        # the bytes the sender transmits
        self.peer = peer
        self.response = b''     # the bytes the handler has written so far
        self.responded = False  # a complete HTTP response has been written
        self.error = None       # Exception that ended the handler
        self.thread = None      # TState of the handler thread
        self.writes = 0
        self.on_responded = None    # called in the handler thread, once

    @staticmethod
    def _response_complete(response):
        head, sep, body = response.partition(b'\r\n\r\n')
        if not sep:
            return False
        for line in head.split(b'\r\n')[1:]:
            name, _, value = line.partition(b':')
            if name.strip().lower() == b'content-length':
                try:
                    return len(body) >= int(value.strip())
                except ValueError:
                    return False
        # no Content-Length: the response ends when the connection is closed
        return False


class StubSocket:
    """
    The connection socket a request handler (socketserver.
    StreamRequestHandler) gets: the request bytes are all there (rfile never
    blocks), a write to the connection is an atomic operation with a
    scheduling point before and after it if it is the write that completes
    the HTTP response (header block plus Content-Length bytes; the earlier
    writes cannot be observed by any other thread).  That write is the point
    from which the sender has its answer - the handler thread is still in the
    middle of its code then.
    """

    def __init__(self, sched, req):
        self._s = sched
        self._req = req
        self.closed = False

    def makefile(self, mode='r', buffering=None, **_kw):
        if 'r' not in mode:
            raise SchedulerError('StubSocket.makefile(%r): only the read '
                                 'side is a file' % (mode,))
        return io.BytesIO(self._req.data)

    def sendall(self, data, flags=0):
        s = self._s
        req = self._req
        if self.closed:
            raise OSError(errno.EBADF, 'Bad file descriptor')
        # only the write that completes the response can be observed by
        # another thread (the sender): that one is a scheduling point
        first = not req.responded and \
            req._response_complete(req.response + bytes(data))
        if first:
            s.yield_point('sock.send')
        req.response += bytes(data)
        req.writes += 1
        if first:
            req.responded = True
            st = s.me()
            if st is not None:
                st.flags.add('responded')
            s.yield_point('sock.send:ret')
            if req.on_responded is not None:
                req.on_responded()

    def send(self, data, flags=0):
        self.sendall(data, flags)
        return len(data)

    def settimeout(self, timeout):
        pass

    def setsockopt(self, *args):
        pass

    def getpeername(self):
        return self._req.peer

    def fileno(self):
        return -1

    def shutdown(self, how):
        pass

    def close(self):
        self.closed = True


class StubServer:
    """
    Stands in for the ThreadedHTTPServer returned by make_server().  Follows
    socketserver semantics: serve_forever() polls with a timeout and accepts
    one pending connection per iteration, each accepted request is handled in
    its own thread; shutdown() asks the loop to end and waits for it;
    server_close() closes the listening socket (pending connections are
    dropped, the port is free) and joins the handler threads it tracks.  As
    in socketserver.ThreadingMixIn a handler thread is tracked only if
    block_on_close is true and the thread is not a daemon thread
    (daemon_threads false); both attributes, and allow_reuse_address, are
    read from the server class under test (server_attrs).  An untracked
    handler simply goes on running under the scheduler after server_close().
    """

    def __init__(self, sched, net, host, port, handler, server_attrs=None):
        self._s = sched
        self._net = net
        attrs = server_attrs or {}
        self.daemon_threads = bool(attrs.get('daemon_threads', False))
        self.block_on_close = bool(attrs.get('block_on_close', True))
        self.allow_reuse_address = bool(attrs.get('allow_reuse_address',
                                                  False))
        if port in net.bound:
            raise OSError(errno.EADDRINUSE, 'Address already in use')
        if port in net.time_wait and not self.allow_reuse_address:
            # connections the previous server closed are in TIME_WAIT; bind()
            # succeeds only with SO_REUSEADDR
            raise OSError(errno.EADDRINUSE, 'Address already in use')
        net.bound[port] = self
        net.servers.append(self)
        self.host = host
        self.port = port
        self.server_address = (host, port)
        self.handler = handler
        self.listener = None
        self.backlog = collections.deque()
        self.inflight = []      # every accepted request
        self.tracked = []       # those server_close() waits for (_threads)
        self.closed = False
        self._shutdown_request = False
        self._is_shut_down = False
        self.serving = False

    def serve_forever(self, poll_interval=0.5):
        s = self._s
        s.yield_point('srv.serve')
        self._is_shut_down = False
        self.serving = True
        try:
            while not self._shutdown_request:
                s.block(lambda: bool(self.backlog), poll_interval,
                        'srv.select')
                if self._shutdown_request:
                    break
                if self.backlog:
                    req = self.backlog.popleft()
                    req.state = 'accepted'
                    self.inflight.append(req)
                    self._net.time_wait.add(self.port)
                    # ThreadingMixIn.process_request / _Threads.append
                    if self.block_on_close and not self.daemon_threads:
                        self.tracked.append(req)
                    # ... / Thread(target=process_request_thread).start()
                    self._net.nhandlers += 1
                    req.thread = s.spawn(
                        lambda req=req: self._process_request_thread(req),
                        'RequestHandler%d' % self._net.nhandlers, 'handler')
                    s.yield_point('srv.accepted')
        finally:
            self._shutdown_request = False
            self._is_shut_down = True
            self.serving = False

    def _process_request_thread(self, req):
        """
        socketserver.ThreadingMixIn.process_request_thread: run the handler;
        an Exception it raises is reported by handle_error() (kept in
        req.error here) and the connection is closed in either case.
        """
        try:
            req.handle(self, req)
        except SchedulerError:
            raise
        except Exception as exc:  # pylint: disable=broad-except
            req.error = exc
        finally:
            req.state = 'done'

    def shutdown(self):
        s = self._s
        s.yield_point('srv.shutdown')
        self._shutdown_request = True
        s.block(lambda: self._is_shut_down, None, 'srv.shutdown:wait')

    def server_close(self):
        s = self._s
        s.yield_point('srv.close')
        self.closed = True
        if self._net.bound.get(self.port) is self:
            del self._net.bound[self.port]
        while self.backlog:
            self.backlog.popleft().state = 'dropped'
        s.block(lambda: all(r.state == 'done' for r in self.tracked), None,
                'srv.close:join')

    def handlers_running(self):
        "Number of accepted requests whose handler has not ended"
        return sum(1 for r in self.inflight if r.state != 'done')


class Net:
    "The stub network: which port is bound by which stub server"

    def __init__(self):
        self.bound = {}
        self.servers = []
        self.time_wait = set()  # ports that have served a connection
        self.nhandlers = 0      # handler threads started so far

    def handlers_running(self):
        return sum(srv.handlers_running() for srv in self.servers)


def client_request(sched, net, port, handle, data=b'',
                   peer=('127.0.0.1', 50000), prepare=None):
    """
    What one HTTP request of a sender amounts to: connect (fails if nothing
    listens), wait to be accepted (or dropped when the server closes); the
    server then runs handle(server, request) in a handler thread of its own
    (as socketserver.ThreadingMixIn does), and the sender waits until a
    complete response has been written to the connection or the connection
    was closed (handler ended).  The sender goes on from there while the
    handler thread may still be running.  Returns ('noconn', None) or
    ('handled', request).
    """
    sched.yield_point('cli.connect')
    srv = net.bound.get(port)
    if srv is None:
        return ('noconn', None)
    req = Request(handle, data, peer)
    if prepare is not None:
        prepare(req)
    srv.backlog.append(req)
    sched.block(lambda: req.state != 'queued', None, 'cli.wait-accept')
    if req.state == 'dropped':
        return ('noconn', None)
    sched.block(lambda: req.responded or req.state == 'done', None,
                'cli.wait-response')
    sched.yield_point('cli.response')
    return ('handled', req)


def run_handler(server, req):
    """
    What socketserver does with an accepted connection in the handler
    thread: instantiate the handler class given to make_server() - the
    constructor runs setup(), handle() (for http.server: parse the request,
    dispatch to do_POST() etc.) and finish().
    """
    sock = StubSocket(server._s, req)  # pylint: disable=protected-access
    try:
        server.handler(sock, req.peer, server)
    finally:
        sock.close()


_CURRENT = [None]


class Shims:
    """
    The replacement objects for one case.  ``with shims.installed(module):``
    rebinds the names in the module and restores them afterwards.
    """

    NAMES = ('queue', 'threading', 'sleep', 'make_server', 'CallbackThread',
             'ServerThread')

    def __init__(self, sched, module):
        self.sched = sched
        self.module = module
        self.net = Net()
        sched.qstats = collections.Counter()
        self.listener_threads = []
        s = sched
        shims = self

        class _Controlled:
            "Mixin: start/run/join of a pywbem thread under the scheduler"

            def start(self):
                s.yield_point('thread.start')
                st = s.new_state(self.name, 'listener')
                st.thread = self
                self._c_state = st
                self.daemon = True
                shims.listener_threads.append(st)
                _real_threading.Thread.start(self)
                s.yield_point('thread.start:ret')

            def run(self):
                st = self._c_state
                st.lock.acquire()
                try:
                    if not s.aborting:
                        st.label = 'thread.run'
                        super().run()
                except Abort:
                    pass
                finally:
                    st.done = True
                    st.label = 'done'
                    s._wake_scheduler()

            def join(self, timeout=None):
                st = self._c_state
                s.yield_point('thread.join')
                ok = s.block(lambda: st.done, timeout, 'thread.join:wait')
                if ok:
                    # the real thread ends right after st.done; this runs the
                    # join() of the pywbem thread classes (stored exception)
                    super().join()
                s.yield_point('thread.join:ret')

        class CallbackThread(_Controlled, module.CallbackThread):
            pass

        class ServerThread(_Controlled, module.ServerThread):
            pass

        def sleep(seconds):
            s.yield_point('sleep')
            s.block(lambda: False, seconds, 'sleep:wait')

        # the attributes of the real server class that decide what
        # socketserver does with handler threads / the listening socket
        srvcls = module.ThreadedHTTPServer
        self.server_attrs = dict(
            daemon_threads=getattr(srvcls, 'daemon_threads', False),
            block_on_close=getattr(srvcls, 'block_on_close', True),
            allow_reuse_address=getattr(srvcls, 'allow_reuse_address',
                                        False))

        def make_server(logger, host, port, handler):
            s.yield_point('make_server')
            return StubServer(s, shims.net, host, port, handler,
                              shims.server_attrs)

        self.repl = dict(
            queue=_ModuleShim(_real_queue, Queue=ShimQueue,
                              LifoQueue=ShimLifoQueue,
                              SimpleQueue=ShimQueue),
            threading=_ModuleShim(_real_threading, Event=ShimEvent),
            sleep=sleep,
            make_server=make_server,
            CallbackThread=CallbackThread,
            ServerThread=ServerThread)
        self.saved = None

    def install(self):
        if _CURRENT[0] is not None:
            raise SchedulerError('a scheduler is already installed')
        for n in self.NAMES:
            if not hasattr(self.module, n):
                raise SchedulerError('%s has no module-level name %r' %
                                     (self.module.__name__, n))
        self.saved = {n: getattr(self.module, n) for n in self.NAMES}
        _CURRENT[0] = self.sched
        for n in self.NAMES:
            setattr(self.module, n, self.repl[n])

    def uninstall(self):
        if self.saved is not None:
            for n, v in self.saved.items():
                setattr(self.module, n, v)
            self.saved = None
        _CURRENT[0] = None
