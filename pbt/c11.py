"""
C11 - A failed mock-repository operation changes nothing.  DESIGN.md 4.11.

Histories over a FakedWBEMConnection: the start state is a generated
repository (1-3 populated namespaces, optional Interop namespace with or
without the namespace provider, a class forest with subclasses, overrides,
binary/ternary associations, instances, single- and multi-namespace
association instances; with the namespace provider also namespaces and
CIM_Namespace instances that do not match each other: an instance left over
from a removed namespace, a namespace without instance, two instances for
one namespace); every step is one repository-changing call - either
meant to succeed (it then advances the state, so later steps start from a
reachable state) or carrying one injected reason for rejection.  Whenever a
call raises, the canonical dump of the whole repository must equal the dump
taken before the call.

All steps are plain data (names, recipes of classes / instances / qualifier
declarations, MOF is rendered from the recipes at apply time).
"""

import os
import shutil
import tempfile
import warnings

from hypothesis import strategies as st

import pywbem
import pywbem_mock
from pywbem import (CIMClass, CIMProperty, CIMMethod, CIMParameter,
                    CIMQualifier, CIMQualifierDeclaration, CIMInstance,
                    CIMInstanceName, CIMDateTime)
from pywbem._cim_types import CIMInt, CIMFloat

from .runner import Sub, HarnessError, short_repr
from . import repo as RP
from .normalize import canon, Opts, diff_path

PROPERTY = 'C11'

RULE = (
    "Three history machines over one generator. Start state = generated "
    "repository: 1-3 populated namespaces (each holding a dependency-closed "
    "subset of a base schema: subclass chain with Override, binary + ternary "
    "associations with subclass, embedded-instance class, methods; 0-3 "
    "instances per class), default namespace populated or empty, optional "
    "Interop namespace with/without CIMNamespaceProvider, 0-4 association "
    "instances within and across namespaces, created either with "
    "CreateInstance (copies in every referenced namespace) or with "
    "add_cimobjects (copies in some namespaces only); with the namespace "
    "provider 0-3 extra names where the pairing namespace <-> CIM_Namespace "
    "instance is deliberately uneven (instance left behind by "
    "remove_namespace() or stored with add_cimobjects() without namespace, "
    "namespace added with add_namespace() without instance, provider-"
    "created empty namespace, two instances with the same Name). Then 1..N "
    "steps, each "
    "ONE repository-changing call drawn while looking at the current "
    "repository, either meant to succeed (advances the state, so later "
    "steps start from reachable states) or carrying one injected rejection "
    "reason. history: CreateClass/ModifyClass/DeleteClass, SetQualifier/"
    "DeleteQualifier, Create/Modify/DeleteInstance (incl. associations "
    "across 2-3 namespaces where a namespace lacks the class / already "
    "holds / lacks the instance, namespace names in other lexical case, "
    "CIM_Namespace instances served by the namespace provider: Create"
    "Instance whose Name is new / an existing namespace with or without "
    "instance / a leftover instance without namespace (same instance, "
    "slashes, other lexical case, other values of the other keys, plus a "
    "second rejection reason), DeleteInstance of instances of empty / "
    "non-empty / Interop / non-existing namespaces, remove_namespace of "
    "provider-created namespaces, add_namespace of a name that only has "
    "an instance, add_cimobjects of a CIM_Namespace instance), "
    "add_namespace/remove_namespace, add_cimobjects(one object). "
    "mof_batches: compile_mof_string / compile_mof_file (one file, or a "
    "file of #pragma include's) / compile_schema_classes with 1-8 "
    "productions (qualifier declarations, classes, instances with aliases, "
    "#pragma namespace) and one invalid production at every position "
    "(syntax errors, missing superclass/reference class/class of instance, "
    "undeclared or ill-typed qualifier, class redefinition that ModifyClass "
    "rejects, type/array mismatch, unknown property, missing key, "
    "undefined alias, missing include file, bad namespace pragma). "
    "object_batches: add_cimobjects(list) likewise. Oracle: whenever the "
    "call raises, dump(repository) == dump before the call. Non-trivial = "
    "the call raised AND (batch of >= 2 elements whose planned invalid "
    "element is at position >= 2, or a single-object operation on a "
    "non-empty repository). Distinct = distinct (start state, step index, "
    "step).")

ASSUMPTIONS = [
    "the repository content compared is: set of namespaces (spelling "
    "included) and per namespace every class (as stored, i.e. resolved), "
    "instance (keyed by its path, case-insensitively) and qualifier "
    "declaration, in the exact canonical form of pbt/normalize.py; the "
    "order of objects inside a store is not compared",
    "in addition conn.default_namespace is compared (DESIGN 4.11); reported "
    "under its own signature, never mixed with content changes",
    "any exception type counts as 'the call raised' (the statement says "
    "'raises'); which exception is raised is not judged here (C10/C12)",
    "inputs are of the documented Python types; invalid elements are the "
    "server-side rejection reasons the statement quantifies over (unknown/"
    "duplicate/missing objects, type mismatches, MOF syntax errors, ...); "
    "namespace arguments may differ in lexical case or carry leading/"
    "trailing slashes (documented as equivalent)",
    "states are reached through the public API only (CreateClass, "
    "CreateInstance, add_cimobjects, compile_mof_string, add_namespace, "
    "remove_namespace, install_namespace_provider); this includes states in "
    "which the CIM_Namespace instances of the Interop namespace and the "
    "set of namespaces disagree: remove_namespace() and add_namespace() "
    "are documented to work on the CIM repository only and add_cimobjects() "
    "stores instances without calling providers, so such states are "
    "reachable with documented calls; the property quantifies over every "
    "reachable state",
    "the evidence classes nsprov:<call>:name-has:<relation>:<outcome> "
    "describe what existed under the namespace name before the call "
    "(namespace and/or CIM_Namespace instance, compared case-insensitively, "
    "slashes stripped); they are bookkeeping of the generator, the oracle "
    "does not use them",
    "user-defined providers are not part of the domain; the only registered "
    "provider is pywbem_mock's own CIMNamespaceProvider",
    "side state outside the repository (the class cache of the MOF "
    "connection, provider registry, statistics) is not compared",
]

# Mutations of pywbem_mock applied one at a time in a scratch worktree (on top
# of the three proposed C11 fixes), quick tier, seed 1 -> signature reported
SENSITIVITY = [
    "MainProvider.CreateClass stores the class before _resolve_class -> history/CreateClass:class-added (709 hits) and mof_batches/compile_mof_string:rejected-element-partially-applied:class-added",
    "InstanceWriteProvider.create_multi_namespace_instance adds each copy inside the existence-check loop -> history/CreateInstance:instance-added:association-across-namespaces (7 hits)",
    "create_multi_namespace_instance checks the class of each namespace only while writing -> history/CreateInstance:instance-added:association-across-namespaces (8 hits)",
    "InMemoryRepository.remove_namespace deletes before the emptiness check -> history/remove_namespace:namespace-removed (205 hits), history/DeleteInstance:namespace-removed:via-CIMNamespaceProvider",
    "MainProvider.DeleteQualifier deletes before the in-use check -> history/DeleteQualifier:qualifier-removed (132 hits)",
    "default ModifyInstance updates the stored instance before validating reference properties -> history/ModifyInstance:instance-changed:association-across-namespaces (8 hits)",
    "MainProvider.ModifyClass replaces the stored class before dependency check/_resolve_class -> history/ModifyClass:class-changed (122 hits)",
    "add_cimobjects(class) stores the class before resolving it -> object_batches/add_cimobjects:rejected-element-partially-applied:class-added",
    "#pragma namespace also sets the connection's default namespace -> mof_batches/compile_mof_string:default-namespace-changed (58 hits), compile_mof_file:default-namespace-changed",
    "CIMNamespaceProvider.DeleteInstance removes the CIM_Namespace instance before remove_namespace() -> history/DeleteInstance:instance-removed:via-CIMNamespaceProvider (50 hits)",
    "modify_multi_namespace_instance updates each copy inside the existence-check loop -> history/ModifyInstance:instance-changed:association-across-namespaces (2 hits; needs a link with copies in the first but not the last referenced namespace)",
    "seeded C11-4: CIMNamespaceProvider.CreateInstance runs its 'a CIM_Namespace instance with this Name exists' check after add_namespace() and outside the try/except that removes the namespace again (and BaseProvider._get_instances made effective) -> history/CreateInstance:namespace-added:via-CIMNamespaceProvider:raised-by-CIMError@_namespaceprovider (55 hits; needs a CIM_Namespace instance whose namespace does not exist: start states 'orphan-removed'/'orphan-added' or create-through-provider + remove_namespace() in the history)",
    "NOT observable: dispatcher ModifyInstance reporting a key change only after the provider call (the store then rejects the changed path with KeyError, nothing is written)",
]

BADNS = 'root/nope'
MISSING = 'TST_Missing'
DT_VALUES = ['20260925120000.000000+000', '00000003121500.000000:000']
SCALAR_TYPES = ['string', 'uint32', 'sint16', 'boolean', 'datetime',
                'uint64', 'uint8', 'real64']


# ---------------------------------------------------------------------------
# small draw helpers

def pick(draw, seq):
    seq = list(seq)
    return seq[draw(st.integers(0, len(seq) - 1))]


def chance(draw, pct):
    return draw(st.integers(0, 99)) < pct


def case_variant(name, mode):
    if mode == 1:
        return name.upper()
    if mode == 2:
        return name.lower()
    if mode == 3:
        return name.swapcase()
    return name


# ---------------------------------------------------------------------------
# recipes -> pywbem objects / MOF text
#
# class recipe:  {'name', 'super', 'assoc', 'quals': [(n, t, v)],
#                 'props': [{'name','type','array','key','ref','default',
#                            'quals': [(n, t, v)]}],
#                 'methods': [{'name','rtype','quals','params':[(n,t)]}]}
# instance recipe: {'cls', 'props': [(name, type, array, value)]}
#    value: plain python | ('ref', pathrecipe) | None
# path recipe: {'cls', 'ns', 'host', 'keys': [(name, type, value)]}
# qualifier declaration recipe: {'name','type','array','value','scopes',
#                                'flavors': (overridable,tosubclass,...)}

def _pyval(type_, v):
    if v is None:
        return None
    if isinstance(v, list):
        return [_pyval(type_, x) for x in v]
    if isinstance(v, tuple) and v and v[0] == 'ref':
        return path_obj(v[1])
    if type_ == 'datetime':
        return CIMDateTime(v)
    return pywbem.cimvalue(v, type_)


def path_obj(p):
    kbs = []
    for n, t, v in p['keys']:
        if t == 'reference':
            kbs.append((n, path_obj(v[1] if isinstance(v, tuple) else v)))
        else:
            kbs.append((n, _pyval(t, v)))
    return CIMInstanceName(p['cls'], keybindings=kbs, namespace=p['ns'],
                           host=p.get('host'))


def path_recipe(path):
    "CIMInstanceName -> path recipe"
    keys = []
    for n, v in path.keybindings.items():
        if isinstance(v, CIMInstanceName):
            keys.append((n, 'reference', ('ref', path_recipe(v))))
        elif isinstance(v, bool):
            keys.append((n, 'boolean', v))
        elif isinstance(v, CIMInt):
            keys.append((n, v.cimtype, int(v)))
        elif isinstance(v, CIMFloat):
            keys.append((n, v.cimtype, float(v)))
        elif isinstance(v, CIMDateTime):
            keys.append((n, 'datetime', str(v)))
        elif isinstance(v, int):
            keys.append((n, 'uint32', v))
        else:
            keys.append((n, 'string', str(v)))
    return {'cls': path.classname, 'ns': path.namespace, 'host': path.host,
            'keys': keys}


def _quals(qs):
    return [CIMQualifier(n, _pyval(t, v), type=t) for n, t, v in qs]


def class_obj(c):
    props = []
    for p in c['props']:
        quals = list(p.get('quals', []))
        if p.get('key'):
            quals = [('Key', 'boolean', True)] + quals
        emb = None
        for q in quals:
            if q[0].lower() == 'embeddedinstance':
                emb = 'instance'
        props.append(CIMProperty(
            p['name'], _pyval(p['type'], p.get('default')), type=p['type'],
            is_array=bool(p.get('array')), reference_class=p.get('ref'),
            embedded_object=emb, qualifiers=_quals(quals)))
    meths = []
    for m in c.get('methods', []):
        params = [CIMParameter(n, t, qualifiers=_quals(
            [('In', 'boolean', True)] + list(extra)))
            for n, t, extra in m['params']]
        meths.append(CIMMethod(m['name'], return_type=m['rtype'],
                               parameters=params,
                               qualifiers=_quals(m.get('quals', []))))
    quals = list(c.get('quals', []))
    if c.get('assoc'):
        quals = [('Association', 'boolean', True)] + quals
    return CIMClass(c['name'], properties=props, methods=meths,
                    superclass=c.get('super'), qualifiers=_quals(quals))


def inst_obj(i, path=None):
    props = []
    for n, t, arr, v in i['props']:
        props.append(CIMProperty(n, _pyval(t, v), type=t, is_array=arr))
    obj = CIMInstance(i['cls'], properties=props)
    if path is not None:
        obj.path = path_obj(path)
    return obj


def inst_path_recipe(i, ns):
    "path recipe of an instance recipe (needs i['keys'])"
    vals = {n.lower(): (t, v) for n, t, arr, v in i['props']}
    keys = []
    for k in i.get('keys', []):
        if k.lower() in vals:
            t, v = vals[k.lower()]
            keys.append((k, t, v))
    return {'cls': i['cls'], 'ns': ns, 'host': None, 'keys': keys}


def qdecl_obj(q):
    scopes = {s: True for s in q['scopes']}
    o, ts, tr = q.get('flavors', (None, None, None))
    return CIMQualifierDeclaration(
        q['name'], q['type'], value=_pyval(q['type'], q.get('value')),
        is_array=bool(q.get('array')), scopes=scopes, overridable=o,
        tosubclass=ts, translatable=tr)


# ---- MOF rendering ----

def mof_string(s):
    out = []
    for ch in s:
        if ch == '\\':
            out.append('\\\\')
        elif ch == '"':
            out.append('\\"')
        elif ch == '\n':
            out.append('\\n')
        else:
            out.append(ch)
    return '"' + ''.join(out) + '"'


def path_uri(p):
    "WBEM URI text of a path recipe (what the MOF compiler accepts)"
    kbs = []
    for n, t, v in p['keys']:
        if t == 'reference':
            kbs.append('%s="%s"' % (n, path_uri(v[1]).replace('\\', '\\\\')
                                    .replace('"', '\\"')))
        elif t in ('string', 'datetime', 'char16'):
            kbs.append('%s="%s"' % (n, str(v).replace('\\', '\\\\')
                                    .replace('"', '\\"')))
        elif t == 'boolean':
            kbs.append('%s=%s' % (n, 'TRUE' if v else 'FALSE'))
        else:
            kbs.append('%s=%s' % (n, v))
    head = ''
    if p.get('host'):
        head = '//' + p['host']
    return '%s/%s:%s.%s' % (head, p['ns'], p['cls'], ','.join(kbs))


def mof_scalar(t, v, wrong=False):
    if isinstance(v, tuple) and v and v[0] == 'alias':
        return v[1]
    if isinstance(v, tuple) and v and v[0] == 'ref':
        return mof_string(path_uri(v[1]))
    if t in ('string', 'datetime', 'char16'):
        return mof_string(str(v))
    if t == 'boolean':
        if isinstance(v, str):
            return mof_string(v)
        return 'true' if v else 'false'
    if isinstance(v, str):
        return mof_string(v)
    return repr(v)


def mof_value(t, v):
    if v is None:
        return 'NULL'
    if isinstance(v, list):
        return '{ ' + ', '.join(mof_scalar(t, x) for x in v) + ' }'
    return mof_scalar(t, v)


def mof_quals(qs):
    if not qs:
        return ''
    parts = []
    for n, t, v in qs:
        if t == 'boolean' and v is True:
            parts.append(n)
        elif isinstance(v, list):
            parts.append('%s %s' % (n, mof_value(t, v)))
        else:
            parts.append('%s(%s)' % (n, mof_value(t, v)))
    return '[' + ', '.join(parts) + '] '


def class_mof(c):
    quals = list(c.get('quals', []))
    if c.get('assoc'):
        quals = [('Association', 'boolean', True)] + quals
    lines = ['%sclass %s%s {' % (mof_quals(quals), c['name'],
                                  ' : ' + c['super'] if c.get('super')
                                  else '')]
    for p in c['props']:
        quals = list(p.get('quals', []))
        if p.get('key'):
            quals = [('Key', 'boolean', True)] + quals
        if p['type'] == 'reference':
            decl = '%s REF %s' % (p['ref'], p['name'])
        else:
            decl = '%s %s%s' % (p['type'], p['name'],
                                '[]' if p.get('array') else '')
        if p.get('default') is not None:
            decl += ' = ' + mof_value(p['type'], p['default'])
        lines.append('  %s%s;' % (mof_quals(quals), decl))
    for m in c.get('methods', []):
        params = ', '.join('%s%s %s' % (
            mof_quals([('In', 'boolean', True)] + list(extra)), t, n)
            for n, t, extra in m['params'])
        lines.append('  %s%s %s(%s);' % (mof_quals(m.get('quals', [])),
                                         m['rtype'], m['name'], params))
    lines.append('};')
    return '\n'.join(lines)


def inst_mof(i, alias=None):
    lines = ['instance of %s%s {' % (i['cls'],
                                     ' as ' + alias if alias else '')]
    for n, t, arr, v in i['props']:
        lines.append('  %s = %s;' % (n, mof_value(t, v)))
    lines.append('};')
    return '\n'.join(lines)


def qdecl_mof(q):
    t = q['type'] + ('[]' if q.get('array') else '')
    s = 'Qualifier %s : %s' % (q['name'], t)
    if q.get('value') is not None:
        s += ' = ' + mof_value(q['type'], q['value'])
    s += ', Scope(%s)' % ', '.join(x.lower() for x in q['scopes'])
    o, ts, tr = q.get('flavors', (None, None, None))
    fl = []
    if o is not None:
        fl.append('EnableOverride' if o else 'DisableOverride')
    if ts is not None:
        fl.append('ToSubclass' if ts else 'Restricted')
    if tr:
        fl.append('Translatable')
    if fl:
        s += ', Flavor(%s)' % ', '.join(fl)
    return s + ';'


# ---------------------------------------------------------------------------
# repository dump / diff

_KEYOPT = Opts(lower=True, sort=True, untyped_keys=True)


def dump(conn):
    """
    Canonical content of the whole repository: dict key -> canonical form.
    Keys: ('ns', name) / (nslower, 'class'|'qual', namelower) /
    (nslower, 'inst', canonical lower-cased path) / ('default_namespace',)
    """
    out = {}
    repo = conn.cimrepository
    for ns in repo.namespaces:
        out[('ns', ns)] = True
        nl = ns.lower()
        for c in repo.get_class_store(ns).iter_values(copy=False):
            out[(nl, 'class', c.classname.lower())] = canon(c)
        for q in repo.get_qualifier_store(ns).iter_values(copy=False):
            out[(nl, 'qual', q.name.lower())] = canon(q)
        for i in repo.get_instance_store(ns).iter_values(copy=False):
            out[(nl, 'inst', canon(i.path, _KEYOPT))] = canon(i)
    out[('default_namespace',)] = conn.default_namespace
    return out


def diff(before, after):
    "sorted list of (key, 'added'|'removed'|'changed')"
    out = []
    for k in before:
        if k not in after:
            out.append((k, 'removed'))
        elif before[k] != after[k]:
            out.append((k, 'changed'))
    for k in after:
        if k not in before:
            out.append((k, 'added'))
    out.sort(key=repr)
    return out


def kind_of(key):
    if key[0] == 'ns' and len(key) == 2:
        return 'namespace'
    if key == ('default_namespace',):
        return 'default_namespace'
    return {'class': 'class', 'qual': 'qualifier', 'inst': 'instance'}[key[1]]


def ns_spellings(c, out=None):
    "namespace names (as spelled) of all instance paths inside a canon form"
    if out is None:
        out = set()
    if isinstance(c, tuple):
        if len(c) == 5 and c[0] == 'ipath' and isinstance(c[3], str):
            out.add(c[3])
        for x in c:
            ns_spellings(x, out)
    return out


def _where(exc):
    "ExceptionType@module:function of the innermost pywbem frame"
    import traceback
    inner = None
    for fr in traceback.extract_tb(exc.__traceback__):
        fn = os.path.realpath(fr.filename)
        if (os.sep + 'pywbem' + os.sep in fn or
                os.sep + 'pywbem_mock' + os.sep in fn) and \
                os.sep + 'pbt' + os.sep not in fn:
            inner = fr
    if inner is None:
        return type(exc).__name__
    return '%s@%s:%s' % (type(exc).__name__,
                         os.path.basename(inner.filename)[:-3], inner.name)


def diff_text(d, before, after, limit=6):
    lines = []
    for key, what in d[:limit]:
        if kind_of(key) == 'instance':
            name = '%s: instance %s' % (key[0], short_repr(key[2], 300))
        else:
            name = repr(key)
        line = '%s %s' % (what, name)
        if what == 'changed':
            line += ' (' + str(diff_path(before[key], after[key])) + ')'
        lines.append(line)
    if len(d) > limit:
        lines.append('... %d differences in total' % len(d))
    return '\n'.join(lines)


# ---------------------------------------------------------------------------
# base schema and start state

def _p(name, type_, **kw):
    d = {'name': name, 'type': type_, 'array': False, 'key': False,
         'ref': None, 'default': None, 'quals': []}
    d.update(kw)
    return d


BASE = {
    'TST_P0': {'name': 'TST_P0', 'super': None, 'assoc': False,
               'quals': [('Description', 'string', 'plain class 0')],
               'props': [_p('Id', 'string', key=True),
                         _p('Num', 'uint32', default=3),
                         _p('Flag', 'boolean'),
                         _p('Tags', 'string', array=True,
                            quals=[('MaxLen', 'uint32', 20)])],
               'methods': [{'name': 'Reset', 'rtype': 'uint32', 'quals': [],
                            'params': [('Level', 'uint32', [])]}]},
    'TST_P0a': {'name': 'TST_P0a', 'super': 'TST_P0', 'assoc': False,
                'quals': [], 'props': [_p('Extra', 'string')],
                'methods': []},
    'TST_P0aa': {'name': 'TST_P0aa', 'super': 'TST_P0a', 'assoc': False,
                 'quals': [],
                 'props': [_p('Num', 'uint32', default=7,
                              quals=[('Override', 'string', 'Num')])],
                 'methods': []},
    'TST_P1': {'name': 'TST_P1', 'super': None, 'assoc': False, 'quals': [],
               'props': [_p('Id', 'string', key=True),
                         _p('Sub', 'uint32', key=True),
                         _p('Stamp', 'datetime')], 'methods': []},
    'TST_A0': {'name': 'TST_A0', 'super': None, 'assoc': True, 'quals': [],
               'props': [_p('Left', 'reference', key=True, ref='TST_P0'),
                         _p('Right', 'reference', key=True, ref='TST_P1'),
                         _p('Note', 'string')], 'methods': []},
    'TST_A0s': {'name': 'TST_A0s', 'super': 'TST_A0', 'assoc': True,
                'quals': [], 'props': [_p('Weight', 'uint32')],
                'methods': []},
    'TST_T0': {'name': 'TST_T0', 'super': None, 'assoc': True, 'quals': [],
               'props': [_p('First', 'reference', key=True, ref='TST_P0'),
                         _p('Second', 'reference', key=True, ref='TST_P0'),
                         _p('Third', 'reference', key=True, ref='TST_P1'),
                         _p('Note', 'string')], 'methods': []},
    'TST_E0': {'name': 'TST_E0', 'super': None, 'assoc': False, 'quals': [],
               'props': [_p('Id', 'string', key=True),
                         _p('Emb', 'string',
                            quals=[('EmbeddedInstance', 'string',
                                    'TST_P0')])], 'methods': []},
}
# population levels of a namespace (each level is closed under dependencies)
LEVELS = [
    [],
    ['TST_P0', 'TST_P1'],
    ['TST_P0', 'TST_P0a', 'TST_P0aa', 'TST_P1'],
    ['TST_P0', 'TST_P0a', 'TST_P1', 'TST_A0'],
    ['TST_P0', 'TST_P0a', 'TST_P0aa', 'TST_P1', 'TST_A0', 'TST_A0s',
     'TST_T0', 'TST_E0'],
]
NS_POOL = ['root/cimv2', 'root/b', 'root/c']
NS_CLASS = {
    'name': 'CIM_Namespace', 'super': None, 'assoc': False, 'quals': [],
    'props': [_p('SystemCreationClassName', 'string', key=True),
              _p('SystemName', 'string', key=True),
              _p('ObjectManagerCreationClassName', 'string', key=True),
              _p('ObjectManagerName', 'string', key=True),
              _p('CreationClassName', 'string', key=True),
              _p('Name', 'string', key=True),
              _p('Note', 'string')], 'methods': []}
NS_KEYS = [('SystemCreationClassName', 'CIM_ComputerSystem'),
           ('SystemName', 'MockSystem_WBEMServerTest'),
           ('ObjectManagerCreationClassName', 'CIM_ObjectManager'),
           ('ObjectManagerName', 'FakeObjectManager'),
           ('CreationClassName', 'CIM_Namespace')]


# what the start state may hold besides the namespaces every one of which got
# its CIM_Namespace instance when the namespace provider was installed
NSREG_KINDS = [
    # namespace created through the provider (CreateInstance of
    # CIM_Namespace), then removed with remove_namespace(): its CIM_Namespace
    # instance stays in the Interop namespace
    'orphan-removed', 'orphan-removed',
    # CIM_Namespace instance stored with add_cimobjects(), no such namespace
    'orphan-added',
    # empty namespace created through the provider (namespace + instance)
    'registered',
    # namespace added with add_namespace(): no CIM_Namespace instance
    'unregistered',
    # namespace created through the provider plus a second CIM_Namespace
    # instance of the same Name (other SystemName) stored with
    # add_cimobjects()
    'twice',
]


def ns_inst_recipe(name, **other):
    "instance recipe of CIM_Namespace with Name = name"
    props = [(n, 'string', False, other.get(n, v)) for n, v in NS_KEYS]
    props.append(('Name', 'string', False, name))
    return {'cls': 'CIM_Namespace', 'props': props,
            'keys': [n for n, v in NS_KEYS] + ['Name']}


def _base_is_sub(cn, anc):
    while cn:
        if cn == anc:
            return True
        cn = BASE[cn]['super']
    return False


def g_init(draw):
    """
    start state recipe:
      {'nss': [(ns, level, [(cls, [instance ids])...])],
       'dns': default namespace, 'interop': None|name, 'nsprov': bool,
       'nsreg': [(kind, namespace name)...] namespaces / CIM_Namespace
                instances set up after the namespace provider was
                installed (kinds: see NSREG_KINDS),
       'links': [(assoc class, creation ns idx, [(ns idx, cls, id)...],
                  None (CreateInstance: copies in all referenced
                  namespaces) | [ns idx...] (add_cimobjects into these))]}
    """
    n = pick(draw, [1, 2, 2, 3, 3, 3])
    nss = []
    for k in range(n):
        level = pick(draw, [0, 1, 2, 3, 3, 4, 4, 4])
        if k == 0 and level == 0:
            level = 4
        insts = []
        for cn in LEVELS[level]:
            c = BASE[cn]
            if c['assoc'] or cn == 'TST_E0':
                continue
            ids = ['x', 'y', 'z'][:pick(draw, [0, 1, 2, 2, 3])]
            insts.append((cn, ids))
        nss.append((NS_POOL[k], level, insts))
    interop = pick(draw, [None, None, 'interop', 'interop', 'root/interop'])
    nsprov = interop is not None and chance(draw, 70)
    dns = pick(draw, [x[0] for x in nss] + ['root/cimv2', 'root/empty',
                                            'root/empty'])
    links = []
    for _ in range(pick(draw, [0, 1, 2, 3, 4])):
        avail = [a for a in ['TST_A0', 'TST_A0', 'TST_A0s', 'TST_T0']
                 if any(a in LEVELS[lv] for ns, lv, insts in nss)]
        if not avail:
            break
        ac = pick(draw, avail)
        okns = [k for k, (ns, lv, insts) in enumerate(nss)
                if ac in LEVELS[lv]]
        ends = []
        for p in BASE['TST_A0' if ac == 'TST_A0s' else ac]['props']:
            if p['type'] != 'reference':
                continue
            cands = [(k, cn, i) for k, (ns, lv, insts) in enumerate(nss)
                     for cn, ids in insts for i in ids
                     if k in okns and _base_is_sub(cn, p['ref'])]
            if not cands:
                ends = None
                break
            used = set(e[0] for e in ends)
            fresh = [c for c in cands if c[0] not in used]
            ends.append(pick(draw, fresh if fresh and chance(draw, 60)
                             else cands))
        if not ends:
            continue
        # all namespaces involved must hold the association class
        involved = sorted(set(e[0] for e in ends))
        if any(ac not in LEVELS[nss[k][1]] for k in involved):
            continue
        copies = None
        if len(nss) > 1 and chance(draw, 35):
            # stored with add_cimobjects() in some namespaces only
            extra = [k for k in okns if k not in involved]
            if extra and len(involved) > 1 and chance(draw, 60):
                # a copy where the call will be made and in the namespace
                # of the first end, none in the namespace of the last end
                copies = [pick(draw, extra), ends[0][0]]
            else:
                allns = sorted(set(involved) | {pick(draw, okns)})
                copies = [k for k in allns if chance(draw, 50)] or \
                    [allns[0]]
        links.append((ac, pick(draw, involved), ends, copies))
    nsreg = []
    if nsprov:
        for k in range(pick(draw, [0, 0, 1, 1, 2, 2, 3])):
            nsreg.append((pick(draw, NSREG_KINDS), 'root/o%d' % k))
    return {'nss': nss, 'dns': dns, 'interop': interop, 'nsprov': nsprov,
            'links': links, 'nsreg': nsreg}


def base_inst(cn, id_):
    "instance recipe of a base class with key Id = id_"
    props = [('Id', 'string', False, id_)]
    keys = ['Id']
    if cn == 'TST_P1':
        props.append(('Sub', 'uint32', False, 1))
        keys.append('Sub')
    else:
        props.append(('Num', 'uint32', False, 5))
    return {'cls': cn, 'props': props, 'keys': keys}


def link_inst(init, link):
    ac, nsk, ends = link[:3]
    names = [p['name'] for p in BASE['TST_A0' if ac == 'TST_A0s' else ac]
             ['props'] if p['type'] == 'reference']
    props = []
    for name, (k, cn, id_) in zip(names, ends):
        ns = init['nss'][k][0]
        props.append((name, 'reference', False,
                      ('ref', inst_path_recipe(base_inst(cn, id_), ns))))
    props.append(('Note', 'string', False, 'link'))
    return {'cls': ac, 'props': props, 'keys': names}


_QDECLS = None


def base_qdecls():
    global _QDECLS
    if _QDECLS is None:
        c = pywbem_mock.FakedWBEMConnection(default_namespace='root/cimv2')
        c.compile_mof_string(RP.QUALIFIER_MOF)
        _QDECLS = c.EnumerateQualifiers()
    return _QDECLS


def materialize(init):
    conn = pywbem_mock.FakedWBEMConnection(default_namespace=init['dns'])
    qd = base_qdecls()
    for ns, level, insts in init['nss']:
        if ns not in conn.namespaces:
            conn.add_namespace(ns)
        conn.add_cimobjects([q.copy() for q in qd], namespace=ns)
        for cn in LEVELS[level]:
            conn.CreateClass(class_obj(BASE[cn]), namespace=ns)
        for cn, ids in insts:
            for id_ in ids:
                conn.CreateInstance(inst_obj(base_inst(cn, id_)),
                                    namespace=ns)
    if init['interop']:
        io = init['interop']
        conn.add_namespace(io)
        conn.add_cimobjects([q.copy() for q in qd], namespace=io)
        if init['nsprov']:
            conn.CreateClass(class_obj(NS_CLASS), namespace=io)
            conn.install_namespace_provider(io)
            for kind, name in init.get('nsreg', []):
                i = ns_inst_recipe(name)
                if kind in ('orphan-removed', 'registered', 'twice'):
                    conn.CreateInstance(inst_obj(i), namespace=io)
                if kind == 'orphan-removed':
                    conn.remove_namespace(name)
                elif kind == 'orphan-added':
                    conn.add_cimobjects(
                        inst_obj(i, path=inst_path_recipe(i, None)),
                        namespace=io)
                elif kind == 'unregistered':
                    conn.add_namespace(name)
                elif kind == 'twice':
                    # not through the provider: whether the provider accepts
                    # a second instance for an existing namespace is not
                    # the business of the start state
                    i = ns_inst_recipe(name, SystemName='OtherSystem')
                    conn.add_cimobjects(
                        inst_obj(i, path=inst_path_recipe(i, None)),
                        namespace=io)
    created = set()
    for link in init['links']:
        i = link_inst(init, link)
        key = repr(i['props'][:-1]) + link[0]
        if key in created:
            continue
        created.add(key)
        if link[3] is None:
            conn.CreateInstance(inst_obj(i),
                                namespace=init['nss'][link[1]][0])
        else:
            for k in link[3]:
                conn.add_cimobjects(
                    inst_obj(i, path=inst_path_recipe(i, None)),
                    namespace=init['nss'][k][0])
    return conn


# ---------------------------------------------------------------------------
# view of the current repository (for the step generator only)

def cls_info(c):
    "CIMClass (resolved, as stored) -> plain description"
    props = []
    for p in c.properties.values():
        k = p.qualifiers.get('Key')
        emb = None
        if 'EmbeddedInstance' in p.qualifiers:
            emb = 'instance'
        elif 'EmbeddedObject' in p.qualifiers:
            emb = 'object'
        props.append({'name': p.name, 'type': p.type,
                      'array': bool(p.is_array),
                      'key': bool(k is not None and k.value),
                      'ref': p.reference_class, 'emb': emb})
    a = c.qualifiers.get('Association')
    return {'name': c.classname, 'super': c.superclass,
            'assoc': bool(a is not None and a.value), 'props': props}


def info_from_recipe(c, superinfo=None):
    "class recipe (+ info of its superclass) -> plain description"
    props = []
    own = set()
    for p in c['props']:
        own.add(p['name'].lower())
        emb = None
        for q in p.get('quals', []):
            if q[0].lower() == 'embeddedinstance':
                emb = 'instance'
        props.append({'name': p['name'], 'type': p['type'],
                      'array': bool(p.get('array')),
                      'key': bool(p.get('key')), 'ref': p.get('ref'),
                      'emb': emb})
    if superinfo:
        inherited = [dict(p) for p in superinfo['props']
                     if p['name'].lower() not in own]
        # an overriding property keeps the key-ness of the overridden one
        for p in props:
            for sp in superinfo['props']:
                if sp['name'].lower() == p['name'].lower() and sp['key']:
                    p['key'] = True
        props = inherited + props
    return {'name': c['name'], 'super': c.get('super'),
            'assoc': bool(c.get('assoc')) or
            bool(superinfo and superinfo['assoc']), 'props': props}


class View:
    "names and shapes of what the repository holds right now"

    def __init__(self, conn):
        repo = conn.cimrepository
        self.nss = list(repo.namespaces)
        self.interop = conn.find_interop_namespace()
        self.dns = conn.default_namespace
        self.classes = {}
        self.paths = {}
        self.quals = {}
        for ns in self.nss:
            cs = {}
            for c in repo.get_class_store(ns).iter_values(copy=False):
                cs[c.classname] = cls_info(c)
            self.classes[ns] = dict(sorted(cs.items()))
            ps = [i.path for i in
                  repo.get_instance_store(ns).iter_values(copy=False)]
            ps.sort(key=lambda p: repr(canon(p, _KEYOPT)))
            self.paths[ns] = ps
            self.quals[ns] = sorted(
                q.name for q in
                repo.get_qualifier_store(ns).iter_values(copy=False))
        self.provider_classes = {}
        reg = conn._provider_registry  # pylint: disable=protected-access
        for ns in self.nss:
            for cn in self.classes[ns]:
                if reg.get_registered_provider(ns, 'instance-write', cn):
                    self.provider_classes[(ns.lower(), cn.lower())] = True

        # CIM_Namespace instances of the Interop namespace versus the
        # namespaces that exist
        self.nsprov = bool(self.interop and self.provider_classes.get(
            (self.interop.lower(), 'cim_namespace')))
        self.ns_insts = []
        if self.interop:
            for p in self.paths.get(self.interop, []):
                name = p.keybindings.get('Name')
                if p.classname.lower() == 'cim_namespace' and \
                        isinstance(name, str):
                    self.ns_insts.append((name, p))
        low = [n.lower() for n in self.nss]
        self.orphans = [(n, p) for n, p in self.ns_insts
                        if n.strip('/').lower() not in low]
        named = set(n.strip('/').lower() for n, p in self.ns_insts)
        self.unregistered = [n for n in self.nss if n.lower() not in named]

    def ns_relation(self, name):
        """
        how a namespace name relates to the repository: does the namespace
        exist, does a CIM_Namespace instance with that Name exist (both
        compared case-insensitively)
        """
        n = name.strip('/').lower()
        has_ns = n in [x.lower() for x in self.nss]
        has_inst = any(x.strip('/').lower() == n for x, p in self.ns_insts)
        return {(True, True): 'namespace-and-instance',
                (True, False): 'namespace-without-instance',
                (False, True): 'instance-without-namespace',
                (False, False): 'neither'}[(has_ns, has_inst)]

    def is_empty_ns(self, ns):
        return not (self.classes[ns] or self.paths[ns] or self.quals[ns])

    def empty(self):
        return not any(self.classes[ns] or self.paths[ns] or self.quals[ns]
                       for ns in self.nss)

    def is_sub(self, ns, cn, anc):
        seen = 0
        while cn and seen < 50:
            if cn.lower() == anc.lower():
                return True
            info = self._get(ns, cn)
            cn = info['super'] if info else None
            seen += 1
        return False

    def _get(self, ns, cn):
        for n, info in self.classes.get(ns, {}).items():
            if n.lower() == cn.lower():
                return info
        return None

    def children(self, ns, cn):
        return [n for n, i in self.classes[ns].items()
                if i['super'] and i['super'].lower() == cn.lower()]

    def paths_of(self, ns, cn, deep=True):
        return [p for p in self.paths[ns]
                if (self.is_sub(ns, p.classname, cn) if deep
                    else p.classname.lower() == cn.lower())]


# ---------------------------------------------------------------------------
# step generation (reads the current repository through a View)

_STR_POOL = ['a', 'b', 'x y', 'Q"1', 'back\\slash', '']


class Gen:
    """
    Draws concrete steps.  `m` is the machine (for the fresh-name counter),
    `v` the View of the current repository.
    """

    def __init__(self, draw, m, v):
        self.draw = draw
        self.m = m
        self.v = v

    # ---- basics ----

    def fresh(self):
        self.m.gen_n += 1
        return self.m.gen_n

    def pick(self, seq):
        return pick(self.draw, seq)

    def chance(self, pct):
        return chance(self.draw, pct)

    def ns_spelling(self, ns):
        k = self.draw(st.integers(0, 11))
        if k == 0:
            return ns.upper()
        if k == 1:
            return '/' + ns + '/'
        if k == 2:
            return ns.swapcase()
        return ns

    def populated(self):
        "namespaces that hold the base qualifier declarations"
        return [ns for ns in self.v.nss if 'Key' in self.v.quals[ns]]

    def some_ns(self, prefer_populated=True):
        pop = self.populated()
        if prefer_populated and pop and self.chance(90):
            return self.pick(pop)
        return self.pick(self.v.nss)

    def scalar(self, t, fresh=False):
        if t == 'string':
            if fresh:
                return 'k%d' % self.fresh()
            return self.pick(_STR_POOL)
        if t == 'boolean':
            return self.draw(st.booleans())
        if t == 'datetime':
            return self.pick(DT_VALUES)
        if t == 'char16':
            return 'c'
        if t in ('real32', 'real64'):
            return self.pick([0.0, 1.5, -2.25, 1e10])
        if t.startswith('uint'):
            if fresh:
                return self.fresh() % 200
            return self.pick([0, 1, 7, 200])
        if t.startswith('sint'):
            return self.pick([0, -1, 7, -100])
        return None

    def value(self, t, array, fresh=False):
        if array:
            return [self.scalar(t) for _ in range(self.pick([0, 1, 2]))]
        return self.scalar(t, fresh)

    def other_type(self, t):
        return 'string' if t != 'string' else 'uint32'

    # ---- classes ----

    def lookup(self, ns, cn, overlay=None):
        if overlay:
            for n, info in overlay.get(ns, {}).items():
                if n.lower() == cn.lower():
                    return info
        return self.v._get(ns, cn)  # pylint: disable=protected-access

    def class_names(self, ns, overlay=None, assoc=None):
        names = {}
        for n, i in self.v.classes.get(ns, {}).items():
            names[n] = i
        if overlay:
            for n, i in overlay.get(ns, {}).items():
                names[n] = i
        return [n for n, i in sorted(names.items())
                if n != 'CIM_Namespace' and
                (assoc is None or i['assoc'] == assoc)]

    def new_props(self, tag, n):
        props = []
        for k in range(n):
            t = self.pick(SCALAR_TYPES)
            arr = self.chance(20)
            dflt = self.value(t, arr) if self.chance(30) else None
            quals = []
            if t == 'string' and self.chance(30):
                quals.append(('MaxLen', 'uint32', 32))
            if self.chance(15):
                quals.append(('Description', 'string', 'prop %d' % k))
            props.append(_p('%s_%d' % (tag, k), t, array=arr, default=dflt,
                            quals=quals))
        return props

    def new_class(self, ns, overlay=None, shape=None):
        n = self.fresh()
        name = 'TST_N%d' % n
        plain = self.class_names(ns, overlay, assoc=False)
        assocs = self.class_names(ns, overlay, assoc=True)
        shapes = ['root', 'root']
        if plain:
            shapes += ['sub', 'sub', 'assoc']
        if assocs:
            shapes += ['assocsub']
        shape = shape if shape in shapes else self.pick(shapes)
        c = {'name': name, 'super': None, 'assoc': False, 'quals': [],
             'props': [], 'methods': []}
        if self.chance(40):
            c['quals'].append(('Description', 'string', 'class %d' % n))
        tag = 'N%d' % n
        if shape == 'root':
            c['props'].append(_p('Id', 'string', key=True))
            if self.chance(25):
                c['props'].append(_p('Key2', self.pick(['uint32', 'boolean',
                                                        'string']),
                                     key=True))
            c['props'] += self.new_props(tag, self.pick([0, 1, 2, 3]))
            if self.chance(25):
                c['methods'].append(
                    {'name': 'Do%d' % n, 'rtype': 'uint32', 'quals': [],
                     'params': [('Arg', self.pick(SCALAR_TYPES), [])]})
        elif shape == 'sub':
            sup = self.pick(plain)
            c['super'] = sup
            c['props'] += self.new_props(tag, self.pick([0, 1, 2]))
            info = self.lookup(ns, sup, overlay)
            cands = [p for p in info['props']
                     if not p['key'] and p['type'] != 'reference' and
                     not p['emb']]
            if cands and self.chance(35):
                p = self.pick(cands)
                c['props'].append(_p(
                    p['name'], p['type'], array=p['array'],
                    default=self.value(p['type'], p['array']),
                    quals=[('Override', 'string', p['name'])]))
        elif shape == 'assoc':
            c['assoc'] = True
            roles = ['Ante', 'Dep', 'Third'][:self.pick([2, 2, 2, 3])]
            for r in roles:
                c['props'].append(_p(r, 'reference', key=True,
                                     ref=self.pick(plain)))
            c['props'] += self.new_props(tag, self.pick([0, 1]))
        else:
            c['assoc'] = True     # Association restated on the subclass
            c['super'] = self.pick(assocs)
            c['props'] += self.new_props(tag, self.pick([0, 1, 2]))
        return c

    CLASS_FAULTS = ['exists', 'exists-case', 'nosuper', 'noref',
                    'undeclared-qual', 'undeclared-qual-prop',
                    'undeclared-qual-param', 'qual-scope', 'qual-type',
                    'override-missing', 'override-type', 'embedded-missing',
                    'ref-in-plain-class', 'dup-inherited-prop',
                    'assoc-from-plain']

    def break_class(self, c, fault, ns, overlay=None):
        "apply one rejection reason to a class recipe; returns label or None"
        existing = self.class_names(ns, overlay)
        if fault in ('exists', 'exists-case'):
            if not existing:
                return None
            c['name'] = self.pick(existing)
            if fault == 'exists-case':
                c['name'] = c['name'].swapcase()
        elif fault == 'nosuper':
            c['super'] = MISSING
        elif fault == 'noref':
            c['assoc'] = True
            c['props'].append(_p('BadEnd', 'reference', key=True,
                                 ref=MISSING))
        elif fault == 'undeclared-qual':
            c['quals'].append(('Bogus', 'boolean', True))
        elif fault == 'undeclared-qual-prop':
            c['props'].append(_p('Pq', 'string',
                                 quals=[('Bogus', 'string', 'v')]))
        elif fault == 'undeclared-qual-param':
            c['methods'].append({'name': 'Mq', 'rtype': 'uint32',
                                 'quals': [],
                                 'params': [('A', 'uint32',
                                             [('Bogus', 'boolean', True)])]})
        elif fault == 'qual-scope':
            c['quals'].append(('Key', 'boolean', True))
        elif fault == 'qual-type':
            c['quals'] = [q for q in c['quals'] if q[0] != 'Description']
            c['quals'].append(('Description', 'uint32', 5))
        elif fault == 'override-missing':
            if not c['super']:
                return None
            c['props'].append(_p('Ov', 'string',
                                 quals=[('Override', 'string', 'Nope')]))
        elif fault == 'override-type':
            info = self.lookup(ns, c['super'], overlay) if c['super'] \
                else None
            cands = [p for p in (info['props'] if info else [])
                     if p['type'] not in ('reference',) and not p['emb']]
            if not cands:
                return None
            p = self.pick(cands)
            c['props'] = [x for x in c['props']
                          if x['name'].lower() != p['name'].lower()]
            c['props'].append(_p(p['name'], self.other_type(p['type']),
                                 quals=[('Override', 'string', p['name'])]))
        elif fault == 'embedded-missing':
            c['props'].append(_p('Em', 'string',
                                 quals=[('EmbeddedInstance', 'string',
                                         MISSING)]))
        elif fault == 'ref-in-plain-class':
            plain = self.class_names(ns, overlay, assoc=False)
            if c['assoc'] or not plain:
                return None
            c['props'].append(_p('Stray', 'reference',
                                 ref=self.pick(plain)))
        elif fault == 'dup-inherited-prop':
            info = self.lookup(ns, c['super'], overlay) if c['super'] \
                else None
            cands = [p for p in (info['props'] if info else [])
                     if p['type'] != 'reference' and not p['emb']]
            if not cands:
                return None
            p = self.pick(cands)
            c['props'] = [x for x in c['props']
                          if x['name'].lower() != p['name'].lower()]
            c['props'].append(_p(p['name'], p['type'], array=p['array']))
        elif fault == 'assoc-from-plain':
            if not c['super'] or c['assoc']:
                return None
            c['assoc'] = True
        else:
            raise HarnessError('unknown class fault ' + fault)
        return fault

    # ---- instances ----

    def ref_target(self, ns, refcls, same_ns_pct=65, lacking=None):
        """
        path of an existing instance of refcls (or subclass), or None;
        lacking: prefer namespaces that do not hold that class
        """
        order = [ns] if self.chance(same_ns_pct) else []
        others = [n for n in self.v.nss if n != ns]
        if lacking:
            order = [n for n in others
                     if self.v._get(n, lacking) is None]  # noqa pylint: disable=W0212
            others = [n for n in others if n not in order]
        while others:
            o = self.pick(others)
            others.remove(o)
            order.append(o)
        if ns not in order:
            order.append(ns)
        for n in order:
            if self.v._get(n, refcls) is None:  # pylint: disable=W0212
                continue
            ps = [p for p in self.v.paths_of(n, refcls)
                  if not any(isinstance(x, CIMInstanceName)
                             for x in p.keybindings.values())]
            if ps:
                return self.pick(ps)
        return None

    def new_inst(self, ns, info, alias_of=None, lacking=None, spread=False):
        """
        instance recipe for class `info`; None if a reference end cannot be
        chosen.  alias_of: {classname lower: [alias...]} available aliases
        """
        props = []
        nrefs = len([p for p in info['props'] if p['type'] == 'reference'])
        lack_at = self.draw(st.integers(0, nrefs - 1)) \
            if lacking and nrefs else -1
        refno = -1
        for p in info['props']:
            if p['type'] == 'reference':
                refno += 1
                if alias_of:
                    al = [a for cn, a in alias_of
                          if self.is_sub_any(ns, cn, p['ref'])]
                    if al and self.chance(60):
                        props.append((p['name'], 'reference', False,
                                      ('alias', self.pick(al))))
                        continue
                tgt = self.ref_target(
                    ns, p['ref'],
                    lacking=lacking if refno == lack_at else None,
                    same_ns_pct=10 if spread else 65)
                if tgt is None:
                    return None
                r = path_recipe(tgt)
                if r['ns'] is None:
                    r['ns'] = ns
                props.append((p['name'], 'reference', False, ('ref', r)))
            elif p['emb']:
                continue
            elif p['key']:
                props.append((p['name'], p['type'], p['array'],
                              self.value(p['type'], p['array'], fresh=True)))
            elif self.chance(60):
                v = None if self.chance(10) else \
                    self.value(p['type'], p['array'])
                props.append((p['name'], p['type'], p['array'], v))
        return {'cls': info['name'], 'props': props,
                'keys': [p['name'] for p in info['props'] if p['key']]}

    def is_sub_any(self, ns, cn, anc):
        return self.v.is_sub(ns, cn, anc) or cn.lower() == anc.lower()

    def inst_from_path(self, ns, path):
        "instance recipe reproducing the key values of an existing instance"
        info = self.v._get(ns, path.classname)  # pylint: disable=W0212
        pr = path_recipe(path)
        types = {p['name'].lower(): p for p in (info['props'] if info
                                                else [])}
        props = []
        for n, t, val in pr['keys']:
            p = types.get(n.lower())
            if p and isinstance(val, int) and not isinstance(val, bool) \
                    and p['type'][1:4] == 'int':
                t = p['type']     # untyped number in a stored path
            if t == 'reference' and isinstance(val, tuple) and \
                    val[1]['ns'] is None:
                val[1]['ns'] = ns
            props.append((n, t, False, val))
        return {'cls': path.classname, 'props': props,
                'keys': [k[0] for k in pr['keys']]}

    INST_FAULTS = ['exists', 'noclass', 'unknown-prop', 'type-mismatch',
                   'array-mismatch', 'missing-key', 'ref-missing-endpoint',
                   'ref-host', 'ref-badns', 'ref-ns-case']

    def break_inst(self, i, fault, ns):
        refs = [k for k, p in enumerate(i['props'])
                if p[1] == 'reference' and isinstance(p[3], tuple) and
                p[3][0] == 'ref']
        if fault == 'exists':
            ps = [p for p in self.v.paths.get(ns, [])
                  if p.classname.lower() == i['cls'].lower()]
            if not ps:
                return None
            new = self.inst_from_path(ns, self.pick(ps))
            have = set(p[0].lower() for p in new['props'])
            i['props'] = new['props'] + [p for p in i['props']
                                         if p[0].lower() not in have]
        elif fault == 'noclass':
            i['cls'] = MISSING
        elif fault == 'unknown-prop':
            i['props'].append(('Bogus', 'string', False, 'x'))
        elif fault == 'type-mismatch':
            cands = [k for k, p in enumerate(i['props'])
                     if p[1] != 'reference' and not p[2]]
            if not cands:
                return None
            k = self.pick(cands)
            n, t, arr, v = i['props'][k]
            t2 = self.other_type(t)
            i['props'][k] = (n, t2, arr, 'word' if t2 == 'string' else 5)
        elif fault == 'array-mismatch':
            cands = [k for k, p in enumerate(i['props'])
                     if p[1] != 'reference' and p[0] not in i['keys']]
            if not cands:
                return None
            k = self.pick(cands)
            n, t, arr, v = i['props'][k]
            i['props'][k] = (n, t, not arr,
                             self.value(t, not arr) if arr else
                             [self.scalar(t)])
        elif fault == 'missing-key':
            if not i['keys']:
                return None
            k = self.pick(i['keys'])
            i['props'] = [p for p in i['props'] if p[0] != k]
        elif fault == 'ref-missing-endpoint':
            if not refs:
                return None
            k = self.pick(refs)
            n, t, arr, v = i['props'][k]
            r = dict(v[1])
            r['keys'] = [(kn, kt, 'nonexistent' if kt == 'string' else kv)
                         for kn, kt, kv in r['keys']]
            if r == v[1]:
                return None
            i['props'][k] = (n, t, arr, ('ref', r))
        elif fault in ('ref-host', 'ref-badns', 'ref-ns-case'):
            if not refs:
                return None
            k = self.pick(refs)
            n, t, arr, v = i['props'][k]
            r = dict(v[1])
            if fault == 'ref-host':
                r['host'] = 'otherhost'
            elif fault == 'ref-badns':
                r['ns'] = BADNS
            else:
                r['ns'] = self.pick([r['ns'].upper(), r['ns'].swapcase(),
                                     r['ns'].title()])
                if r['ns'] == v[1]['ns']:
                    return None
            i['props'][k] = (n, t, arr, ('ref', r))
        else:
            raise HarnessError('unknown instance fault ' + fault)
        return fault

    # ---- qualifier declarations ----

    def new_qdecl(self, ns, redefine_pct=25):
        mine = [q for q in self.v.quals.get(ns, []) if q.startswith('TstQ')]
        if mine and self.chance(redefine_pct):
            name = self.pick(mine)
        else:
            name = 'TstQ%d' % self.fresh()
        t = self.pick(['string', 'boolean', 'uint32'])
        arr = t == 'string' and self.chance(20)
        return {'name': name, 'type': t, 'array': arr,
                'value': self.value(t, arr) if self.chance(50) else None,
                'scopes': self.pick([['ANY'], ['CLASS', 'PROPERTY'],
                                     ['PROPERTY', 'METHOD', 'PARAMETER']]),
                'flavors': self.pick([(None, None, None), (True, True, None),
                                      (False, True, None),
                                      (True, False, True)])}

    # ---- single-object steps ----

    def known_recipe(self, name):
        if name in BASE:
            return BASE[name]
        return self.m.known.get(name.lower())

    def remember(self, c):
        self.m.known[c['name'].lower()] = c

    def g_CreateClass(self):
        ns = self.some_ns()
        c = self.new_class(ns)
        fault = None
        if self.chance(65):
            f = self.pick(self.CLASS_FAULTS + ['badns'])
            if f == 'badns':
                fault = f
                ns = BADNS
            else:
                if f in ('override-missing', 'override-type',
                         'dup-inherited-prop', 'assoc-from-plain') and \
                        self.class_names(ns, assoc=False):
                    c = self.new_class(ns, shape='sub')
                fault = self.break_class(c, f, ns)
        if fault is None:
            self.remember(c)
        return {'op': 'CreateClass', 'ns': self.ns_spelling(ns), 'cls': c,
                'fault': fault}

    def g_ModifyClass(self):
        ns = self.some_ns()
        names = self.class_names(ns)
        if not names:
            return self.g_CreateClass()
        leafs = [n for n in names if not self.v.children(ns, n)]
        free = [n for n in leafs if not self.v.paths_of(ns, n, deep=False)
                and self.known_recipe(n)]
        fault = None
        f = self.pick([None, None, 'notfound', 'has-children',
                       'has-instances', 'super-mismatch', 'nosuper', 'noref',
                       'undeclared-qual', 'qual-type', 'badns',
                       'override-missing'])
        name = self.pick(free) if free else self.pick(names)
        if f == 'has-children':
            cands = [n for n in names if self.v.children(ns, n)]
            if cands:
                name, fault = self.pick(cands), f
        elif f == 'has-instances':
            cands = [n for n in names
                     if self.v.paths_of(ns, n, deep=False)]
            if cands:
                name, fault = self.pick(cands), f
        base = self.known_recipe(name)
        if base is None:
            info = self.lookup(ns, name)
            base = {'name': name, 'super': info['super'],
                    'assoc': info['assoc'], 'quals': [], 'props': [],
                    'methods': []}
        c = {'name': name, 'super': base['super'], 'assoc': base['assoc'],
             'quals': list(base['quals']),
             'props': [dict(p) for p in base['props']],
             'methods': list(base.get('methods', []))}
        n = self.fresh()
        c['props'] += self.new_props('M%d' % n, self.pick([0, 1, 2]))
        if self.chance(40):
            c['quals'] = [q for q in c['quals'] if q[0] != 'Description'] + \
                [('Description', 'string', 'modified %d' % n)]
        if f == 'notfound':
            c['name'], fault = 'TST_Nx%d' % n, f
        elif f == 'super-mismatch':
            others = [x for x in self.class_names(ns, assoc=c['assoc'])
                      if x.lower() not in (name.lower(),
                                           (c['super'] or '').lower())]
            c['super'] = None if c['super'] and self.chance(50) else \
                (self.pick(others) if others else MISSING)
            fault = f
        elif f == 'badns':
            ns, fault = BADNS, f
        elif f in ('nosuper', 'noref', 'undeclared-qual', 'qual-type',
                   'override-missing'):
            fault = self.break_class(c, f, ns)
        if fault is None and name in free:
            self.remember(c)
        return {'op': 'ModifyClass', 'ns': self.ns_spelling(ns), 'cls': c,
                'fault': fault}

    def g_DeleteClass(self):
        ns = self.some_ns()
        names = list(self.v.classes.get(ns, {}))
        f = self.pick([None, None, None, 'notfound', 'badns',
                       'provider-class', 'provider-class', 'lone-link',
                       'lone-link'])
        fault = None
        if f == 'lone-link':
            lone = self.lone_links()
            if lone:
                n, p = self.pick(lone)
                return {'op': 'DeleteClass', 'ns': n, 'name': p.classname,
                        'fault': f}
            f = None
        if f == 'provider-class' and self.v.interop and \
                'CIM_Namespace' in self.v.classes[self.v.interop]:
            return {'op': 'DeleteClass', 'ns': self.v.interop,
                    'name': 'CIM_Namespace', 'fault': f}
        if f == 'badns':
            ns, fault = BADNS, f
        if f == 'notfound' or not names:
            name, fault = 'TST_Nx%d' % self.fresh(), 'notfound'
        else:
            plain = [n for n in names if n != 'CIM_Namespace'] or names
            name = case_variant(self.pick(plain),
                                self.pick([0, 0, 0, 1, 3]))
        return {'op': 'DeleteClass', 'ns': self.ns_spelling(ns),
                'name': name, 'fault': fault}

    def g_SetQualifier(self):
        ns = self.some_ns(prefer_populated=False)
        q = self.new_qdecl(ns)
        fault = None
        if self.chance(30):
            ns, fault = BADNS, 'badns'
        return {'op': 'SetQualifier', 'ns': self.ns_spelling(ns), 'q': q,
                'fault': fault}

    def g_DeleteQualifier(self):
        ns = self.some_ns(prefer_populated=False)
        f = self.pick([None, None, 'notfound', 'in-use', 'in-use', 'badns'])
        having = [n for n in self.v.nss
                  if any(q.startswith('TstQ') for q in self.v.quals[n])]
        if f is None and having:
            ns = self.pick(having)
        quals = self.v.quals.get(ns, [])
        mine = [q for q in quals if q.startswith('TstQ')]
        fault = f
        if f is None and mine:
            name = case_variant(self.pick(mine), self.pick([0, 0, 1]))
        elif f == 'in-use' and 'Key' in quals:
            name = self.pick(['Key', 'Description', 'Association',
                              'Override', 'MaxLen', 'In'])
        elif f == 'badns':
            ns, name = BADNS, 'Key'
        else:
            name, fault = 'TstQx%d' % self.fresh(), 'notfound'
        return {'op': 'DeleteQualifier', 'ns': self.ns_spelling(ns),
                'name': name, 'fault': fault}

    def ns_inst(self, name):
        return ns_inst_recipe(name)

    def has_nsprov(self):
        v = self.v
        return bool(v.interop and 'CIM_Namespace' in v.classes[v.interop])

    def other_spelling(self, name):
        "same namespace name in another lexical case"
        return self.pick([name.upper(), name.swapcase(), name.title()])

    def g_nsprov_create(self):
        """
        CreateInstance of CIM_Namespace (creates a namespace when served by
        the namespace provider).  'nsrel' records how the Name relates to the
        repository before the call (View.ns_relation).
        """
        v = self.v
        io = v.interop
        f = self.pick([None, None, 'nsprov-missing-key', 'nsprov-missing-key',
                       'nsprov-exists', 'nsprov-ccn-mismatch',
                       'nsprov-second-interop', 'nsprov-no-name',
                       'nsprov-unknown-prop', 'nsprov-not-interop'])
        if v.orphans and self.chance(45):
            f = self.pick(['nsprov-orphan-instance', 'nsprov-orphan-instance',
                           'nsprov-orphan-instance', 'nsprov-orphan-name',
                           'nsprov-orphan-name', 'nsprov-orphan-broken'])
        elif v.unregistered and self.chance(12):
            f = 'nsprov-unregistered'
        i = self.ns_inst('root/n%d' % self.fresh())
        ns = io
        fault = f

        def set_prop(i, pname, value):
            i['props'] = [(n, t, a, value if n == pname else x)
                          for n, t, a, x in i['props']]

        if f == 'nsprov-missing-key':
            k = self.pick([n for n, v in NS_KEYS
                           if n != 'CreationClassName'])
            i['props'] = [p for p in i['props'] if p[0] != k]
        elif f == 'nsprov-exists':
            i = self.ns_inst(self.pick(self.v.nss))
        elif f == 'nsprov-ccn-mismatch':
            i['props'] = [(n, t, a, 'CIM_Other' if n == 'CreationClassName'
                           else v) for n, t, a, v in i['props']]
        elif f == 'nsprov-second-interop':
            i = self.ns_inst(self.pick(['root/PG_InterOp', 'interop',
                                        'root/interop']))
        elif f == 'nsprov-no-name':
            i['props'] = [p for p in i['props'] if p[0] != 'Name']
        elif f == 'nsprov-unknown-prop':
            i['props'].append(('Bogus', 'string', False, 'x'))
        elif f == 'nsprov-not-interop':
            pop = [n for n in self.v.nss if n != io and
                   'CIM_Namespace' in self.v.classes[n]]
            if not pop:
                fault = None
            else:
                ns = self.pick(pop)
        elif f == 'nsprov-orphan-instance':
            # the very CIM_Namespace instance that is left over from a
            # namespace that does not exist (any more): the namespace would
            # be new, the instance is not
            name, p = self.pick(v.orphans)
            i = self.inst_from_path(io, p)
            if self.chance(25):
                # leading/trailing slashes are stripped by the provider
                set_prop(i, 'Name', '/' + name.strip('/') + '/')
        elif f == 'nsprov-orphan-name':
            # Name of such a leftover instance, but a different instance:
            # other lexical case of the Name or other values of the other
            # keys (meant to succeed: namespace and instance are new)
            name, p = self.pick(v.orphans)
            i = self.inst_from_path(io, p)
            if self.chance(50):
                set_prop(i, 'Name', self.other_spelling(name))
            else:
                set_prop(i, self.pick(['SystemName', 'ObjectManagerName']),
                         'Other%d' % self.fresh())
            fault = None
        elif f == 'nsprov-orphan-broken':
            # Name of a leftover instance and another reason for rejection
            name, p = self.pick(v.orphans)
            i = self.inst_from_path(io, p)
            set_prop(i, 'SystemName', 'Other%d' % self.fresh())
            if self.chance(50):
                i['props'].append(('Bogus', 'string', False, 'x'))
            else:
                i['props'] = [x for x in i['props']
                              if x[0] != 'ObjectManagerName']
        elif f == 'nsprov-unregistered':
            # existing namespace that has no CIM_Namespace instance yet
            # (meant to succeed: only the instance is new)
            i = self.ns_inst(self.pick(v.unregistered))
            fault = None
        names = [x[3] for x in i['props'] if x[0] == 'Name']
        return {'op': 'CreateInstance', 'ns': ns, 'inst': i, 'fault': fault,
                'nsrel': v.ns_relation(names[0]) if names else 'no-name'}

    def g_nsprov_delete(self):
        """
        DeleteInstance of a CIM_Namespace instance (removes the namespace
        when served by the namespace provider)
        """
        v = self.v
        cands = v.ns_insts
        if v.orphans and self.chance(50):
            cands = v.orphans
        if not cands:
            return self.g_DeleteInstance()
        name, p = self.pick(cands)
        pr = path_recipe(p)
        if pr['ns'] is None:
            pr['ns'] = v.interop
        rel = v.ns_relation(name)
        real = [n for n in v.nss if n.lower() == name.strip('/').lower()]
        if rel == 'instance-without-namespace':
            fault = 'nsprov-orphan'
        elif real and real[0] == v.interop:
            fault = 'nsprov-interop'
        elif real and not v.is_empty_ns(real[0]):
            fault = 'nsprov-nonempty'
        else:
            fault = None
        return {'op': 'DeleteInstance', 'path': pr, 'fault': fault,
                'nsrel': rel}

    def g_add_ns_instance(self):
        """
        add_cimobjects() of one CIM_Namespace instance into the Interop
        namespace (bypasses the namespace provider: no namespace is created)
        """
        v = self.v
        io = v.interop
        k = self.pick(['new', 'new', 'exists', 'unregistered', 'second'])
        label = None
        i = self.ns_inst('root/n%d' % self.fresh())
        if k == 'exists' and v.ns_insts:
            name, p = self.pick(v.ns_insts)
            i = self.inst_from_path(io, p)
            label = 'inst-exists'
        elif k == 'unregistered' and v.unregistered:
            i = self.ns_inst(self.pick(v.unregistered))
        elif k == 'second' and v.ns_insts:
            name, p = self.pick(v.ns_insts)
            i = self.inst_from_path(io, p)
            i['props'] = [(n, t, a, 'Other%d' % self.fresh()
                           if n == 'SystemName' else x)
                          for n, t, a, x in i['props']]
        names = [x[3] for x in i['props'] if x[0] == 'Name']
        return {'op': 'add_cimobjects', 'ns': io, 'items': [('inst', i, None)],
                'k': 0 if label else None, 'aslist': False, 'fault': label,
                'nsrel': v.ns_relation(names[0])}

    def g_nsprov(self):
        """
        one call that touches the pairing 'namespace <-> CIM_Namespace
        instance in the Interop namespace' kept by the namespace provider
        """
        if not self.has_nsprov():
            return self.g_CreateInstance()
        k = self.pick(['create'] * 5 + ['delete'] * 2 +
                      ['remove', 'add_instance', 'add_namespace'])
        if k == 'create':
            return self.g_nsprov_create()
        if k == 'delete':
            return self.g_nsprov_delete()
        if k == 'remove':
            return self.g_remove_namespace(registered=True)
        if k == 'add_instance':
            return self.g_add_ns_instance()
        return self.g_add_namespace(orphan=True)

    def g_CreateInstance(self):
        v = self.v
        if self.has_nsprov() and self.chance(20):
            return self.g_nsprov_create()
        withcls = [n for n in self.v.nss if self.class_names(n)]
        ns = self.pick(withcls) if withcls and self.chance(95) \
            else self.some_ns()
        names = self.class_names(ns)
        if not names:
            return {'op': 'CreateInstance', 'ns': ns,
                    'inst': {'cls': MISSING, 'keys': ['Id'],
                             'props': [('Id', 'string', False, 'a')]},
                    'fault': 'noclass'}
        assocs = self.class_names(ns, assoc=True)
        cn = self.pick(assocs) if assocs and self.chance(45) else \
            self.pick(names)
        info = self.lookup(ns, cn)
        i = self.new_inst(ns, info)
        if i is None:
            cn = self.pick(self.class_names(ns, assoc=False) or names)
            info = self.lookup(ns, cn)
            i = self.new_inst(ns, info)
            if i is None:
                return self.g_SetQualifier()
        fault = None
        if self.chance(60):
            f = self.pick(self.INST_FAULTS + ['badns', 'multins-exists',
                                              'multins-exists',
                                              'multins-exists',
                                              'multins-class-missing',
                                              'multins-class-missing',
                                              'ref-ns-case', 'ref-ns-case'])
            if f == 'badns':
                ns, fault = BADNS, f
            elif f == 'multins-class-missing':
                if assocs:
                    cn2 = self.pick(assocs)
                    i2 = self.new_inst(ns, self.lookup(ns, cn2),
                                       lacking=cn2, spread=True)
                    if i2 is not None:
                        i, fault = i2, f
            elif f == 'multins-exists':
                cands = []
                for n in v.nss:
                    for p in v.paths[n]:
                        others = set(
                            x.namespace for x in p.keybindings.values()
                            if isinstance(x, CIMInstanceName) and
                            x.namespace and
                            x.namespace.lower() != n.lower())
                        for o in sorted(others | ({n} if others else
                                                  set())):
                            if o in v.nss:
                                cands.append((n, p, o))
                if cands:
                    n, p, o = self.pick(cands)
                    i = self.inst_from_path(n, p)
                    ns, fault = o, f
            else:
                fault = self.break_inst(i, f, ns)
        return {'op': 'CreateInstance', 'ns': self.ns_spelling(ns),
                'inst': i, 'fault': fault}

    def lone_links(self):
        """
        (ns, path) of association instances of which a copy is missing in a
        namespace named by one of their references
        """
        out = []
        for n in self.v.nss:
            for p in self.v.paths[n]:
                for x in p.keybindings.values():
                    if not isinstance(x, CIMInstanceName) or \
                            not x.namespace or \
                            x.namespace.lower() == n.lower():
                        continue
                    o = [m for m in self.v.nss
                         if m.lower() == x.namespace.lower()]
                    q = p.copy()
                    q.namespace = o[0] if o else x.namespace
                    if not o or q not in self.v.paths[o[0]]:
                        out.append((n, p))
                        break
        return out

    def partial_links(self):
        """
        lone links (ns, path) of which, seen from ns, one referenced
        namespace holds a copy and a later referenced one does not
        """
        out = []
        for n, p in self.lone_links():
            state = []
            for x in p.keybindings.values():
                if isinstance(x, CIMInstanceName) and x.namespace and \
                        x.namespace.lower() != n.lower():
                    o = [m for m in self.v.nss
                         if m.lower() == x.namespace.lower()]
                    q = p.copy()
                    q.namespace = o[0] if o else x.namespace
                    state.append(bool(o) and q in self.v.paths[o[0]])
            if True in state and False in state[state.index(True):]:
                out.append((n, p))
        return out

    def all_paths(self):
        return [(ns, p) for ns in self.v.nss for p in self.v.paths[ns]]

    def g_ModifyInstance(self):
        allp = self.all_paths()
        if not allp:
            return self.g_CreateInstance()
        ns, path = self.pick(allp)
        links = [(n, p) for n, p in allp
                 if any(isinstance(x, CIMInstanceName)
                        for x in p.keybindings.values())]
        if links and self.chance(30):
            ns, path = self.pick(links)
        lone = self.lone_links() if self.chance(25) else []
        if lone:
            ns, path = self.pick(self.partial_links() or lone)
        info = self.lookup(ns, path.classname)
        i = self.inst_from_path(ns, path)
        pr = path_recipe(path)
        if pr['ns'] is None:
            pr['ns'] = ns
        if not self.chance(50):
            i['props'] = []       # keys are optional in ModifiedInstance
        nonkeys = [p for p in (info['props'] if info else [])
                   if not p['key'] and not p['emb']
                   and p['type'] != 'reference']
        for p in nonkeys:
            if self.chance(60):
                i['props'].append((p['name'], p['type'], p['array'],
                                   self.value(p['type'], p['array'])))
        plist = None
        if self.chance(30):
            plist = [p[0] for p in i['props'] if self.chance(60)]
        f = self.pick([None, None, 'notfound', 'key-change', 'unknown-prop',
                       'type-mismatch', 'plist-unknown', 'classname-mismatch',
                       'noclass', 'badns', 'ref-none', 'ref-none',
                       'array-mismatch'])
        if lone:
            f = None      # the missing copy is the reason for rejection
        fault = None
        if f == 'notfound':
            pr['keys'] = [(n, t, 'nonexistent' if t == 'string' else v)
                          for n, t, v in pr['keys']]
            i['props'] = [p for p in i['props'] if p[0] not in i['keys']]
            fault = f
        elif f == 'key-change':
            ks = [k for k, p in enumerate(i['props'])
                  if p[0] in i['keys'] and p[1] == 'string']
            if not ks and info:
                for p in info['props']:
                    if p['key'] and p['type'] == 'string':
                        i['props'].append((p['name'], 'string', False,
                                           'changed'))
                        fault = f
                        break
            elif ks:
                k = self.pick(ks)
                n, t, a, val = i['props'][k]
                i['props'][k] = (n, t, a, 'changed')
                fault = f
        elif f in ('unknown-prop', 'type-mismatch', 'array-mismatch'):
            fault = self.break_inst(i, f, ns)
        elif f == 'plist-unknown':
            plist = (plist or []) + ['Bogus']
            fault = f
        elif f == 'classname-mismatch':
            i['cls'], fault = 'TST_P1' if i['cls'] != 'TST_P1' else 'TST_P0', f
        elif f == 'noclass':
            i['cls'] = pr['cls'] = MISSING
            fault = f
        elif f == 'badns':
            pr['ns'], fault = BADNS, f
        elif f == 'ref-none':
            refs = [p for p in (info['props'] if info else [])
                    if p['type'] == 'reference']
            if refs:
                p = self.pick(refs)
                i['props'] = [x for x in i['props'] if x[0] != p['name']]
                i['props'].append((p['name'], 'reference', False, None))
                fault = f
        if fault is None and lone:
            fault = 'lone-link'
        if fault is None and self.chance(10):
            pr['ns'] = self.ns_spelling(pr['ns'])
        return {'op': 'ModifyInstance', 'inst': i, 'path': pr,
                'plist': plist, 'fault': fault}

    def g_DeleteInstance(self):
        allp = self.all_paths()
        f = self.pick([None, None, None, 'notfound', 'noclass', 'badns',
                       'provider-refuses', 'lone-link'])
        if not allp:
            return {'op': 'DeleteInstance', 'fault': 'notfound',
                    'path': {'cls': 'TST_P0', 'ns': self.pick(self.v.nss),
                             'host': None,
                             'keys': [('Id', 'string', 'none')]}}
        ns, path = self.pick(allp)
        if f == 'lone-link':
            lone = self.lone_links()
            if lone:
                ns, path = self.pick(self.partial_links() or lone)
            else:
                f = None
        if f == 'provider-refuses':
            cands = [(n, p) for n, p in allp
                     if p.classname.lower() == 'cim_namespace']
            if cands:
                ns, path = self.pick(cands)
        pr = path_recipe(path)
        if pr['ns'] is None:
            pr['ns'] = ns
        fault = None
        if f == 'notfound':
            pr['keys'] = [(n, t, 'nonexistent' if t == 'string' else v)
                          for n, t, v in pr['keys']]
            fault = f
        elif f == 'noclass':
            pr['cls'], fault = MISSING, f
        elif f == 'badns':
            pr['ns'], fault = BADNS, f
        elif f == 'provider-refuses':
            fault = f if path.classname.lower() == 'cim_namespace' else None
        elif f == 'lone-link':
            fault = f
        if fault is None and self.chance(10):
            pr['ns'] = self.ns_spelling(pr['ns'])
        return {'op': 'DeleteInstance', 'path': pr, 'fault': fault}

    def g_add_namespace(self, orphan=False):
        f = self.pick([None, None, 'exists', 'exists-case',
                       'second-interop', 'exists-slashes'])
        if not self.v.nss:
            f = None
        name = 'root/e%d' % self.fresh()
        if self.v.orphans and self.chance(60 if orphan else 10):
            # namespace that does not exist but has a CIM_Namespace instance
            f = None
            name = self.pick(self.v.orphans)[0].strip('/')
            if self.chance(25):
                name = self.other_spelling(name)
        elif f == 'exists':
            name = self.pick(self.v.nss)
        elif f == 'exists-case':
            name = self.pick(self.v.nss).swapcase()
        elif f == 'exists-slashes':
            name = '/' + self.pick(self.v.nss) + '/'
        elif f == 'second-interop':
            name = self.pick(['interop', 'root/interop', 'root/PG_InterOp'])
            if not self.v.interop:
                f = None
        elif self.chance(20):
            name = '/' + name + '/'
        return {'op': 'add_namespace', 'name': name, 'fault': f,
                'nsrel': self.v.ns_relation(name) if self.has_nsprov()
                else None}

    def g_remove_namespace(self, registered=False):
        v = self.v
        empty = [ns for ns in v.nss
                 if not v.classes[ns] and not v.paths[ns] and not v.quals[ns]
                 and ns != v.interop]
        full = [ns for ns in v.nss if ns not in empty and ns != v.interop]
        f = self.pick([None, 'notfound', 'nonempty', 'nonempty', 'interop'])
        if registered:
            # an empty namespace that has a CIM_Namespace instance (which
            # remove_namespace() leaves behind)
            f = self.pick([None, None, None, 'notfound'])
            empty = [ns for ns in empty if ns not in v.unregistered] or empty
        if f == 'nonempty' and full:
            name = self.pick(full)
        elif f == 'interop' and v.interop:
            name = v.interop
        elif f is None and empty:
            name = self.pick(empty)
        elif v.orphans and self.chance(50):
            # a namespace that only exists as CIM_Namespace instance
            name, f = self.pick(v.orphans)[0].strip('/'), 'notfound'
        else:
            name, f = BADNS, 'notfound'
        return {'op': 'remove_namespace', 'name': self.ns_spelling(name),
                'fault': f, 'nsrel': v.ns_relation(name)
                if self.has_nsprov() else None}

    # ---- batches ----

    RAW_FAULTS = [
        ('syntax-class', 'class TST_Broken { string ; };'),
        ('syntax-garbage', 'this is not MOF @@ ;'),
        ('syntax-unterminated', 'class TST_Broken2 { string A;'),
        ('syntax-instance', 'instance of TST_P0 { Id = ; };'),
        ('include-missing-file', '#pragma include ("no_such_file.mof")'),
        ('pragma-namespace-uri',
         '#pragma namespace ("http://host/root/cimv2")'),
        ('qualifier-bad-value',
         'Qualifier TstBadQ : uint32 = "abc", Scope(any);'),
        ('instance-of-missing-class',
         'instance of TST_Missing { Id = "a"; };'),
    ]

    def bad_item(self, cur, overlay, mode, aliases):
        "one invalid batch element: (item, label) or None"
        kinds = ['class', 'class', 'inst', 'inst', 'inst']
        if mode == 'mof':
            kinds += ['raw', 'raw', 'pragma-badns']
        else:
            kinds += ['qual-exists', 'inst-nopath']
        kind = self.pick(kinds)
        if kind == 'raw':
            label, text = self.pick(self.RAW_FAULTS)
            return ('raw', text, label), label
        if kind == 'pragma-badns':
            return ('pragma_ns', BADNS), 'pragma-namespace-missing'
        if kind == 'qual-exists':
            qs = self.v.quals.get(cur, [])
            if not qs:
                return None
            q = self.new_qdecl(cur)
            q['name'] = self.pick(qs)
            return ('qual', q), 'qual-exists'
        names = self.class_names(cur, overlay)
        if kind == 'class' or not names:
            fl = ['nosuper', 'undeclared-qual', 'undeclared-qual-prop',
                  'undeclared-qual-param', 'qual-type', 'qual-scope',
                  'exists-with-instances', 'exists-with-children',
                  'exists', 'ref-in-plain-class', 'dup-inherited-prop',
                  'override-type', 'assoc-from-plain']
            if mode == 'mof' or self.chance(15):
                # not checked by add_cimobjects()
                fl += ['noref', 'override-missing', 'embedded-missing']
            f = self.pick(fl)
            if f in ('exists-with-instances', 'exists-with-children'):
                cands = [n for n in self.class_names(cur)
                         if (self.v.paths_of(cur, n, deep=False)
                             if f == 'exists-with-instances'
                             else self.v.children(cur, n)) and
                         self.known_recipe(n)]
                if not cands:
                    return None
                base = self.known_recipe(self.pick(cands))
                c = dict(base)
                c['props'] = [dict(p) for p in base['props']] + \
                    self.new_props('R%d' % self.fresh(), 1)
                return ('class', c), 'class-' + f
            shape = 'sub' if f in ('override-missing', 'override-type',
                                   'dup-inherited-prop',
                                   'assoc-from-plain') else None
            c = self.new_class(cur, overlay, shape=shape)
            lab = self.break_class(c, f, cur, overlay)
            if lab is None:
                return None
            return ('class', c), 'class-' + lab
        cn = self.pick(names)
        info = self.lookup(cur, cn, overlay)
        i = self.new_inst(cur, info)
        if i is None:
            return None
        if kind == 'inst-nopath':
            return ('inst-nopath', i), 'inst-nopath'
        fl = ['exists']
        if mode == 'mof' or self.chance(15):
            # add_cimobjects() does not validate instances against classes
            fl += ['noclass', 'unknown-prop', 'type-mismatch',
                   'missing-key', 'array-mismatch', 'ref-missing-endpoint']
        if mode == 'mof':
            fl += ['undefined-alias', 'dup-prop']
        f = self.pick(fl)
        if f == 'undefined-alias':
            refs = [k for k, p in enumerate(i['props'])
                    if p[1] == 'reference']
            if not refs:
                return None
            k = self.pick(refs)
            n, t, a, v = i['props'][k]
            i['props'][k] = (n, t, a, ('alias', '$undefined'))
            return ('inst', i, None), 'inst-undefined-alias'
        if f == 'dup-prop':
            if not i['props']:
                return None
            i['props'].append(i['props'][0])
            return ('inst', i, None), 'inst-dup-prop'
        if f == 'type-mismatch' and mode == 'mof':
            cands = [k for k, p in enumerate(i['props'])
                     if p[1] not in ('reference', 'string', 'datetime',
                                     'char16') and not p[2]]
            if not cands:
                return None
            k = self.pick(cands)
            n, t, a, v = i['props'][k]
            i['props'][k] = (n, t, a, 'notanumber')
            return ('inst', i, None), 'inst-type-mismatch'
        lab = self.break_inst(i, f, cur)
        if lab is None:
            return None
        return ('inst', i, None), 'inst-' + lab

    def g_items(self, ns, n, mode, pragma_ok=True, only_classes=False):
        """
        n elements meant to be valid in sequence.  Returns (items, state)
        where state = (current namespace, overlay, aliases) after them.
        """
        items = []
        cur = ns
        overlay = {}
        aliases = []
        pop = self.populated()
        for _ in range(n):
            kinds = ['class', 'class', 'inst', 'inst', 'inst', 'qual']
            if mode == 'mof' and pragma_ok and len(pop) > 1:
                kinds.append('pragma')
            kind = 'class' if only_classes else self.pick(kinds)
            if kind == 'pragma':
                cur = self.pick([x for x in pop if x != cur])
                items.append(('pragma_ns', cur))
                continue
            if kind == 'qual':
                items.append(('qual', self.new_qdecl(cur, redefine_pct=(
                    25 if mode == 'mof' else 0))))
                continue
            names = self.class_names(cur, overlay)
            if kind == 'inst' and names:
                own = list(overlay.get(cur, {}))
                cn = self.pick(own) if own and self.chance(60) else \
                    self.pick(names)
                info = self.lookup(cur, cn, overlay)
                i = self.new_inst(cur, info,
                                  alias_of=aliases if mode == 'mof' else None)
                if i is not None:
                    alias = None
                    if mode == 'mof' and not info['assoc'] and \
                            self.chance(40):
                        alias = '$a%d' % self.fresh()
                        aliases.append((cn, alias))
                    items.append(('inst', i, alias))
                    continue
            c = self.new_class(cur, overlay)
            sup = self.lookup(cur, c['super'], overlay) if c['super'] \
                else None
            overlay.setdefault(cur, {})[c['name']] = \
                info_from_recipe(c, sup)
            self.remember(c)
            items.append(('class', c))
        return items, (cur, overlay, aliases)

    def g_batch(self, mode, via=None):
        ns = self.some_ns()
        if 'Key' not in self.v.quals.get(ns, []):
            ns = (self.populated() or [ns])[0]
        total = self.pick([1, 2, 2, 3, 3, 4, 5, 6])
        k = None
        label = None
        if self.chance(85):
            k = self.draw(st.integers(0, total - 1))
        only_classes = via == 'schema'
        head, state = self.g_items(ns, k if k is not None else total, mode,
                                   pragma_ok=via in (None, 'string', 'file'),
                                   only_classes=only_classes)
        items = list(head)
        if k is not None:
            bad = None
            for _ in range(3):
                if only_classes:
                    c = self.new_class(state[0], state[1])
                    f = self.pick(['nosuper', 'noref', 'undeclared-qual',
                                   'qual-type', 'embedded-missing',
                                   'syntax'])
                    if f == 'syntax':
                        bad = (('rawclass', c['name'],
                                'class %s { string ; };' % c['name']),
                               'syntax-class')
                    else:
                        lab = self.break_class(c, f, state[0], state[1])
                        bad = (('class', c), 'class-' + lab) if lab else None
                else:
                    bad = self.bad_item(state[0], state[1], mode, state[2])
                if bad:
                    break
            if bad is None:
                k = None
            else:
                item, label = bad
                k = len(items)      # pragmas may have shifted the index
                items.append(item)
                # elements after the failing one (never reached)
                tail, _ = self.g_items(
                    state[0], self.pick([0, 0, 1, 2]), mode,
                    pragma_ok=False, only_classes=only_classes)
                items += tail
        if mode == 'obj':
            aslist = len(items) != 1 or self.chance(50)
            return {'op': 'add_cimobjects', 'ns': self.ns_spelling(ns),
                    'items': items, 'k': k, 'aslist': aslist,
                    'fault': label}
        if via is None:
            via = self.pick(['string', 'string', 'string', 'file',
                             'include'])
        order = None
        if via == 'schema':
            order = list(range(len(items)))
            if self.chance(50):
                order.reverse()
        return {'op': 'compile', 'via': via, 'ns': ns, 'items': items,
                'k': k, 'order': order, 'fault': label}

    def g_compile(self):
        return self.g_batch('mof')

    def g_compile_schema(self):
        return self.g_batch('mof', via='schema')

    def g_add_cimobjects(self):
        step = self.g_batch('obj')
        step['aslist'] = True
        return step

    def g_add_lone_link(self):
        """
        add_cimobjects() of one association instance whose ends are in other
        namespaces: it is stored in the target namespace only (no copies in
        the namespaces of the ends, unlike CreateInstance)
        """
        lone = self.lone_links() if self.chance(50) else []
        if lone:
            # one more copy of a link that lacks copies
            n, p = self.pick(lone)
            missing = []
            for x in p.keybindings.values():
                if isinstance(x, CIMInstanceName) and x.namespace:
                    for m in self.v.nss:
                        q = p.copy()
                        q.namespace = m
                        if m.lower() == x.namespace.lower() and \
                                q not in self.v.paths[m] and m not in missing:
                            missing.append(m)
            if missing:
                i = self.inst_from_path(n, p)
                return {'op': 'add_cimobjects', 'ns': self.pick(missing),
                        'items': [('inst', i, None)], 'k': None,
                        'aslist': False, 'fault': None}
        cands = [(ns, cn) for ns in self.v.nss
                 for cn in self.class_names(ns, assoc=True)]
        if not cands or len(self.v.nss) < 2:
            return self.g_add_one_object()
        ns, cn = self.pick(cands)
        info = self.lookup(ns, cn)
        props = []
        for p in info['props']:
            if p['type'] == 'reference':
                tgt = self.ref_target(ns, p['ref'], same_ns_pct=15)
                if tgt is None:
                    return self.g_add_one_object()
                r = path_recipe(tgt)
                props.append((p['name'], 'reference', False, ('ref', r)))
        i = {'cls': cn, 'props': props,
             'keys': [p['name'] for p in info['props'] if p['key']]}
        return {'op': 'add_cimobjects', 'ns': ns, 'items': [('inst', i, None)],
                'k': None, 'aslist': False, 'fault': None}

    def g_add_one_object(self):
        "add_cimobjects() with a single object (not a list)"
        ns = self.some_ns()
        if 'Key' not in self.v.quals.get(ns, []):
            ns = (self.populated() or [ns])[0]
        item, label = None, None
        if self.chance(55):
            bad = self.bad_item(ns, {}, 'obj', [])
            if bad:
                item, label = bad
        if item is None:
            items, _ = self.g_items(ns, 1, 'obj')
            item = items[0]
        return {'op': 'add_cimobjects', 'ns': self.ns_spelling(ns),
                'items': [item], 'k': 0 if label else None,
                'aslist': False, 'fault': label}


# ---------------------------------------------------------------------------
# executing a step

COMPILE_API = {'string': 'compile_mof_string', 'file': 'compile_mof_file',
               'include': 'compile_mof_file',
               'schema': 'compile_schema_classes'}


def render_items(items):
    "[(index, text)] MOF text per element"
    out = []
    for idx, it in enumerate(items):
        if it[0] == 'qual':
            out.append((idx, qdecl_mof(it[1])))
        elif it[0] == 'class':
            out.append((idx, class_mof(it[1])))
        elif it[0] == 'inst':
            out.append((idx, inst_mof(it[1], it[2])))
        elif it[0] == 'pragma_ns':
            out.append((idx, '#pragma namespace ("%s")' % it[1]))
        elif it[0] == 'raw':
            out.append((idx, it[1]))
        elif it[0] == 'rawclass':
            out.append((idx, it[2]))
        else:
            raise HarnessError('bad item %r' % (it,))
    return out


def _inst_ident(i):
    "(classname lower, canonical keybindings) or (classname lower, None)"
    for n, t, a, v in i['props']:
        if isinstance(v, tuple) and v and v[0] == 'alias' and \
                n in i.get('keys', []):
            return (i['cls'].lower(), None)
    try:
        p = path_obj(inst_path_recipe(i, None))
    except (ValueError, TypeError):
        return (i['cls'].lower(), None)
    c = canon(p, _KEYOPT)
    return (c[1], c[4])


def touches(items, ns):
    """
    per element: list of matchers ('ns', nslower) / (nslower, kind, name) /
    ('inst', classlower, kbs|None)
    """
    out = []
    cur = ns.strip('/').lower()
    for it in items:
        if it[0] == 'pragma_ns':
            cur = it[1].strip('/').lower()
            out.append([('ns', cur)])
        elif it[0] == 'qual':
            out.append([(cur, 'qual', it[1]['name'].lower())])
        elif it[0] == 'class':
            out.append([(cur, 'class', it[1]['name'].lower())])
        elif it[0] == 'rawclass':
            out.append([(cur, 'class', it[1].lower())])
        elif it[0] in ('inst', 'inst-nopath'):
            out.append([('inst',) + _inst_ident(it[1])])
        else:
            out.append([])
    return out


def _matches(key, matcher):
    if matcher[0] == 'ns' and len(matcher) == 2:
        return key[0] == 'ns' and len(key) == 2 and \
            key[1].lower() == matcher[1]
    if matcher[0] == 'inst':
        if len(key) != 3 or key[1] != 'inst':
            return False
        c = key[2]
        return c[1] == matcher[1] and \
            (matcher[2] is None or c[4] == matcher[2])
    return key == matcher


class Machine:
    PROFILE = ['CreateClass'] * 4 + ['ModifyClass'] * 3 + \
        ['DeleteClass'] * 2 + ['SetQualifier', 'DeleteQualifier'] * 1 + \
        ['DeleteQualifier'] + ['CreateInstance'] * 8 + \
        ['ModifyInstance'] * 3 + ['DeleteInstance'] * 4 + \
        ['add_namespace'] * 2 + ['remove_namespace'] * 2 + \
        ['add_cimobjects'] * 3 + ['compile'] * 2 + ['compile_schema'] + \
        ['nsprov'] * 4

    def __init__(self, ctx):
        self.ctx = ctx
        self.conn = None
        self.tmp = None
        self.gen_n = 0
        self.known = {}
        self.index = 0
        self.init_fp = None
        self.events = set()

    # ---- protocol ----

    def init_strategy(self):
        @st.composite
        def strat(draw):
            return g_init(draw)
        return strat()

    def setup(self, init):
        try:
            with warnings.catch_warnings():
                warnings.simplefilter('ignore')
                self.conn = materialize(init)
        except pywbem.Error as exc:
            raise HarnessError('start state rejected: %r' % (exc,)) from exc
        self.snap = dump(self.conn)
        if self.ctx is not None and init.get('nsprov'):
            v = View(self.conn)
            self.ctx.event('start-state:namespace-provider')
            self.ctx.event('start-state:CIM_Namespace-instances-without-'
                           'namespace=%d' % len(v.orphans))
            self.ctx.event('start-state:namespaces-without-CIM_Namespace-'
                           'instance=%d' % len(v.unregistered))
        self.init = init
        self.trace = []
        self.init_fp = repr(init)
        self.tmp = None

    def step_strategy(self):
        m = self

        @st.composite
        def strat(draw):
            g = Gen(draw, m, View(m.conn))
            kind = pick(draw, m.PROFILE)
            if not g.v.nss:
                kind = 'add_namespace'
            return getattr(g, 'g_' + kind)()
        return strat()

    def teardown(self):
        if self.tmp:
            shutil.rmtree(self.tmp, ignore_errors=True)
            self.tmp = None

    def finish(self):
        pass

    # ---- running one step ----

    def _tmpdir(self):
        if self.tmp is None:
            self.tmp = os.path.realpath(tempfile.mkdtemp(prefix='c11-'))
        d = os.path.join(self.tmp, 's%d' % self.index)
        os.makedirs(d, exist_ok=True)
        return d

    def _call(self, step):
        "returns a zero-argument callable performing the step"
        conn = self.conn
        op = step['op']
        if op == 'CreateClass':
            obj = class_obj(step['cls'])
            return lambda: conn.CreateClass(obj, namespace=step['ns'])
        if op == 'ModifyClass':
            obj = class_obj(step['cls'])
            return lambda: conn.ModifyClass(obj, namespace=step['ns'])
        if op == 'DeleteClass':
            return lambda: conn.DeleteClass(step['name'],
                                            namespace=step['ns'])
        if op == 'SetQualifier':
            obj = qdecl_obj(step['q'])
            return lambda: conn.SetQualifier(obj, namespace=step['ns'])
        if op == 'DeleteQualifier':
            return lambda: conn.DeleteQualifier(step['name'],
                                                namespace=step['ns'])
        if op == 'CreateInstance':
            obj = inst_obj(step['inst'])
            return lambda: conn.CreateInstance(obj, namespace=step['ns'])
        if op == 'ModifyInstance':
            obj = inst_obj(step['inst'], path=step['path'])
            return lambda: conn.ModifyInstance(obj,
                                               PropertyList=step['plist'])
        if op == 'DeleteInstance':
            path = path_obj(step['path'])
            return lambda: conn.DeleteInstance(path)
        if op == 'add_namespace':
            return lambda: conn.add_namespace(step['name'])
        if op == 'remove_namespace':
            return lambda: conn.remove_namespace(step['name'])
        if op == 'add_cimobjects':
            objs = []
            for it in step['items']:
                if it[0] == 'qual':
                    objs.append(qdecl_obj(it[1]))
                elif it[0] == 'class':
                    objs.append(class_obj(it[1]))
                elif it[0] == 'inst':
                    objs.append(inst_obj(
                        it[1], path=inst_path_recipe(it[1], None)))
                elif it[0] == 'inst-nopath':
                    objs.append(inst_obj(it[1]))
                else:
                    raise HarnessError('bad object item %r' % (it,))
            arg = objs if step['aslist'] else objs[0]
            return lambda: conn.add_cimobjects(arg, namespace=step['ns'])
        if op == 'compile':
            return self._compile_call(step)
        raise HarnessError('unknown op %r' % (op,))

    def _compile_call(self, step):
        conn = self.conn
        via = step['via']
        parts = render_items(step['items'])
        text = '\n'.join(t for _, t in parts) + '\n'
        self.mof_text = text
        if via == 'string':
            return lambda: conn.compile_mof_string(text,
                                                   namespace=step['ns'])
        d = self._tmpdir()
        if via == 'file':
            fn = os.path.join(d, 'batch.mof')
            with open(fn, 'w', encoding='utf-8') as fp:
                fp.write(text)
            return lambda: conn.compile_mof_file(fn, namespace=step['ns'])
        if via == 'include':
            main = []
            for idx, t in parts:
                if t.startswith('#pragma'):
                    main.append(t)
                    continue
                with open(os.path.join(d, 'part%d.mof' % idx), 'w',
                          encoding='utf-8') as fp:
                    fp.write(t + '\n')
                main.append('#pragma include ("part%d.mof")' % idx)
            fn = os.path.join(d, 'main.mof')
            with open(fn, 'w', encoding='utf-8') as fp:
                fp.write('\n'.join(main) + '\n')
            self.mof_text = '\n'.join(main) + '\n---- parts ----\n' + text
            return lambda: conn.compile_mof_file(fn, namespace=step['ns'])
        if via == 'schema':
            os.makedirs(os.path.join(d, 'classes'), exist_ok=True)
            names = []
            for idx, t in parts:
                it = step['items'][idx]
                name = it[1]['name'] if it[0] == 'class' else it[1]
                names.append(name)
                with open(os.path.join(d, 'classes', name + '.mof'), 'w',
                          encoding='utf-8') as fp:
                    fp.write(t + '\n')
            order = step.get('order') or list(range(len(names)))
            pragma = os.path.join(d, 'schema.mof')
            with open(pragma, 'w', encoding='utf-8') as fp:
                for idx in order:
                    fp.write('#pragma include ("classes/%s.mof")\n' %
                             names[idx])
            return lambda: conn.compile_schema_classes(
                list(names), pragma, namespace=step['ns'])
        raise HarnessError('unknown via %r' % (via,))

    def _exec(self, step):
        "run the step; returns the exception it raised or None"
        self.mof_text = ''
        call = self._call(step)
        exc = None
        with warnings.catch_warnings():
            warnings.simplefilter('ignore')
            try:
                call()
            except Exception as e:  # pylint: disable=broad-except
                # the property is about *any* raising call
                exc = e
        self.trace.append(step)
        self.index += 1
        return exc

    def _actual_failing(self, step):
        """
        Index of the element at which the batch really fails: the state
        before the step is rebuilt (start state + recorded steps) and
        growing prefixes of the batch are run on it.  None if no prefix
        fails (not reproducible).
        """
        trace = list(self.trace[:-1])
        for j in range(1, len(step['items']) + 1):
            twin = type(self)(None)
            twin.setup(self.init)
            try:
                for s in trace:
                    twin._exec(s)
                sub = dict(step)
                sub['items'] = step['items'][:j]
                if twin._exec(sub) is not None:
                    return j - 1
            finally:
                twin.teardown()
        return None

    # ---- classification of a violation ----

    def _traits(self, step):
        op = step['op']
        traits = []
        if op in ('CreateInstance', 'ModifyInstance', 'DeleteInstance'):
            if op == 'DeleteInstance':
                cls = step['path']['cls']
                tns = step['path']['ns']
                refs = [v[1] for n, t, v in step['path']['keys']
                        if t == 'reference']
            else:
                cls = step['inst']['cls']
                tns = step['ns'] if op == 'CreateInstance' \
                    else step['path']['ns']
                refs = [v[1] for n, t, a, v in step['inst']['props']
                        if t == 'reference' and isinstance(v, tuple)
                        and v[0] == 'ref']
                if op == 'ModifyInstance':
                    refs += [v[1] for n, t, v in step['path']['keys']
                             if t == 'reference']
            tns = (tns or '').strip('/')
            reg = self.conn._provider_registry  # pylint: disable=W0212
            try:
                prov = reg.get_registered_provider(tns, 'instance-write',
                                                   cls)
            except Exception:  # pylint: disable=broad-except
                prov = None
            if prov is not None:
                traits.append('via-' + type(prov).__name__)
            spell = set((r['ns'] or tns).strip('/') for r in refs) | {tns}
            if len(set(x.lower() for x in spell)) < len(spell):
                traits.append('namespace-spellings-differ-in-case-only')
            elif len(spell) > 1:
                traits.append('association-across-namespaces')
        return traits

    def _violation(self, step, d, before, after, exc):
        ctx = self.ctx
        op = step['op']
        detail = 'step %d: %s\nraised: %s: %s\nrepository changed:\n%s' % (
            self.index - 1, short_repr(step, 1500), type(exc).__name__,
            str(exc)[:300], diff_text(d, before, after))
        if op == 'compile':
            detail += '\nMOF:\n' + self.mof_text[:1500]
        dn = [x for x in d if x[0] == ('default_namespace',)]
        d = [x for x in d if x[0] != ('default_namespace',)]
        api = COMPILE_API[step['via']] if op == 'compile' else op
        if dn:
            ctx.fail('%s:default-namespace-changed' % api, detail)
        if not d:
            return

        nschg = set(k[1].lower() for k, w in d if kind_of(k) == 'namespace')

        def summary(entries):
            return '+'.join(sorted(set(
                '%s-%s' % (kind_of(k), w) for k, w in entries
                if kind_of(k) == 'namespace' or k[0] not in nschg)))
        batch = op == 'compile' or (op == 'add_cimobjects' and
                                    step['aslist'])
        if not batch:
            if op == 'add_cimobjects':
                api = 'add_cimobjects(single-object)'
            sig = '%s:%s' % (api, summary(d))
            traits = self._traits(step)
            if op == 'CreateInstance' and \
                    'via-CIMNamespaceProvider' in traits:
                # which side refused: a check of the namespace provider
                # itself or the default provider it delegates to
                traits.append('raised-by-' + _where(exc).split(':')[0])
            if op == 'DeleteClass':
                traits.insert(0, 'interrupted-by-' + _where(exc))
                nsl = step['ns'].strip('/').lower()
                for key, val in before.items():
                    if len(key) == 3 and key[1] == 'inst' and \
                            key[0] == nsl:
                        spell = ns_spellings(val)
                        if len(set(x.lower() for x in spell)) < len(spell):
                            traits.append('namespace-spellings-differ-'
                                          'in-case-only')
                            break
            for t in traits:
                sig += ':' + t
            ctx.fail(sig, detail)
            return
        k = step['k']
        tch = touches(step['items'], step['ns'])
        if op == 'compile' and step['via'] == 'schema':
            # dependency resolution through the search path compiles the
            # listed class files in any order (and the failing file may be
            # one that was already compiled as a dependency), so every
            # change that belongs to a listed class counts as "earlier"
            k = None
        def group(k):
            groups = {'prefix': [], 'self': [], 'after': [], 'other': []}
            for key, what in d:
                where = 'other'
                for idx, ms in enumerate(tch):
                    if any(_matches(key, m) for m in ms):
                        if k is None or idx < k:
                            where = 'prefix'
                        elif idx == k:
                            where = 'self'
                        else:
                            where = 'after'
                        break
                groups[where].append((key, what))
            return groups
        groups = group(k)
        if groups['self'] or groups['after']:
            # make sure the planned element is the one that failed
            k2 = self._actual_failing(step)
            if k2 is not None and k2 != k:
                detail += '\n(the batch really fails at element %d)' % k2
                groups = group(k2)
        if op == 'compile' and groups['other']:
            # A class element aimed at namespace X (namespace argument or
            # namespace pragma) whose class already exists is handed to
            # ModifyClass by the MOF compiler.  Root cause of its own: the
            # modification is applied to the class of that name in the
            # connection's DEFAULT namespace (the compiler passes the
            # namespace positionally, _MockMOFWBEMConnection.ModifyClass
            # only reads the keyword).  Kept apart from changes nobody can
            # account for.
            dflt = (before.get(('default_namespace',)) or '') \
                .strip('/').lower()
            aimed = set(m[2] for ms in tch for m in ms
                        if len(m) == 3 and m[0] != 'inst' and
                        m[1] == 'class' and m[0] != dflt)
            misdirected = [
                (key, what) for key, what in groups['other']
                if what == 'changed' and len(key) == 3 and
                key[1] == 'class' and key[0] == dflt and key[2] in aimed]
            if misdirected:
                groups['other'] = [x for x in groups['other']
                                   if x not in misdirected]
                ctx.fail('%s:class-redefinition-applied-in-default-'
                         'namespace' % api, detail)
        if groups['other']:
            ctx.fail('%s:unattributed-change:%s' %
                     (api, summary(groups['other'])), detail)
        if groups['after']:
            ctx.fail('%s:element-behind-the-rejected-one-applied:%s' %
                     (api, summary(groups['after'])), detail)
        if groups['self']:
            ctx.fail('%s:rejected-element-partially-applied:%s' %
                     (api, summary(groups['self'])), detail)
        if groups['prefix']:
            ctx.fail('%s:earlier-elements-kept' % api, detail)

    def apply(self, step):
        ctx = self.ctx
        before = self.snap
        was_empty = len(before) <= 1 + sum(1 for k in before
                                           if k[0] == 'ns' and len(k) == 2)
        index = self.index
        exc = self._exec(step)
        after = dump(self.conn)
        op = step['op']
        name = COMPILE_API[step['via']] if op == 'compile' else op
        fault = step.get('fault')
        classes = []
        nontrivial = False
        if exc is None:
            classes.append('%s:%s' % (name, 'injection-did-not-bite'
                                      if fault else 'succeeded'))
            if fault:
                classes.append('nobite:%s:%s' % (name, fault))
        else:
            classes.append('%s:%s' % (name, 'rejected' if fault else
                                      'valid-intent-rejected'))
            classes.append('rejected:%s:%s' % (name, fault or 'unplanned'))
            classes.append('exc:' + type(exc).__name__)
            if op in ('compile', 'add_cimobjects') and \
                    len(step['items']) >= 2:
                k = step['k']
                classes.append('batch-fail-position:%s' % (
                    'unplanned' if k is None else min(k + 1, 5)))
                nontrivial = k is not None and k >= 1
            elif op in ('compile', 'add_cimobjects'):
                nontrivial = not was_empty
            else:
                nontrivial = not was_empty
            if op in ('CreateInstance', 'ModifyInstance', 'DeleteInstance'):
                for t in self._traits(step):
                    classes.append('rejected-trait:' + t)
            d = diff(before, after)
            if d:
                self._violation(step, d, before, after, exc)
        if step.get('nsrel'):
            # calls on the pairing namespace <-> CIM_Namespace instance:
            # what existed under that name before the call
            classes.append('nsprov:%s:name-has:%s:%s' % (
                name, step['nsrel'], 'succeeded' if exc is None else
                'raised'))
        ctx.case(key=('step', self.init_fp, index, step),
                 nontrivial=nontrivial, classes=classes)
        self.snap = after
        return True


class SingleMachine(Machine):
    "single-object operations only (add_cimobjects with one object)"
    PROFILE = ['CreateClass'] * 4 + ['ModifyClass'] * 3 + \
        ['DeleteClass'] * 2 + ['SetQualifier', 'DeleteQualifier'] * 1 + \
        ['DeleteQualifier'] + ['CreateInstance'] * 8 + \
        ['ModifyInstance'] * 3 + ['DeleteInstance'] * 4 + \
        ['add_namespace'] * 2 + ['remove_namespace'] * 2 + \
        ['add_one_object'] * 3 + ['add_lone_link'] * 3 + ['nsprov'] * 4


class MofMachine(Machine):
    "compile_mof_string / compile_mof_file / compile_schema_classes only"
    PROFILE = ['compile'] * 5 + ['compile_schema']


class ObjMachine(Machine):
    "add_cimobjects(list) only"
    PROFILE = ['add_cimobjects']


SUBCHECKS = [
    Sub('history', machine=SingleMachine, quick=(16, 50),
        thorough=(16, 1500), steps=(25, 50), case_timeout=120),
    Sub('mof_batches', machine=MofMachine, quick=(16, 25),
        thorough=(16, 750), steps=(6, 12), case_timeout=120),
    Sub('object_batches', machine=ObjMachine, quick=(16, 40),
        thorough=(16, 1200), steps=(8, 16), case_timeout=120),
]
