"""
CIM-XML "server side" used by C02, C03, C04, C19 (DESIGN.md 2.1, 4.2-4.4):

* ScriptedAdapter: a requests transport adapter mounted on
  ``conn.session``; no sockets.  ``responder(req) -> Resp`` decides the
  answer; all requests are recorded.
* simple responders (CIM error response; canned bytes)
* the DTD oracle (lxml + DSP0203 2.3.1 from the repository's tests)
"""

import io
import os

import urllib3
from requests.adapters import HTTPAdapter
from lxml import etree

import pywbem

from .runner import REPO

DTD_FILE = os.path.join(REPO, 'tests', 'dtd', 'DSP0203_2.3.1.dtd')
_DTD = None


def dtd():
    global _DTD
    if _DTD is None:
        with open(DTD_FILE, 'rb') as fp:
            _DTD = etree.DTD(fp)
    return _DTD


class Req:
    "one captured HTTP request"
    def __init__(self, prepared):
        self.method = prepared.method
        self.url = prepared.url
        self.headers = dict(prepared.headers)
        body = prepared.body
        if isinstance(body, str):
            body = body.encode('utf-8')
        self.body = body or b''


class Resp:
    def __init__(self, body=b'', status=200, reason='OK', headers=None,
                 exc=None):
        self.body = body
        self.status = status
        self.reason = reason
        self.headers = headers if headers is not None else \
            {'Content-Type': 'application/xml; charset="utf-8"'}
        self.exc = exc


class ScriptedAdapter(HTTPAdapter):
    """
    Transport adapter answering from `responder` (callable Req -> Resp).
    """

    def __init__(self, responder):
        super().__init__()
        self.responder = responder
        self.requests = []

    def send(self, request, stream=False, timeout=None, verify=True,
             cert=None, proxies=None):
        # pylint: disable=arguments-differ,unused-argument
        req = Req(request)
        self.requests.append(req)
        resp = self.responder(req)
        if resp.exc is not None:
            raise resp.exc
        raw = urllib3.response.HTTPResponse(
            body=io.BytesIO(resp.body), headers=resp.headers,
            status=resp.status, reason=resp.reason, version=11,
            preload_content=False)
        return self.build_response(request, raw)


def connect(responder, url='http://srv', **kw):
    "WBEMConnection whose traffic goes to `responder`"
    conn = pywbem.WBEMConnection(url, **kw)
    adapter = ScriptedAdapter(responder)
    conn.session.mount('http://', adapter)
    conn.session.mount('https://', adapter)
    return conn, adapter


def request_method_name(body):
    "NAME of the (I)METHODCALL/EXPMETHODCALL and its element name"
    try:
        root = etree.fromstring(body)
    except etree.XMLSyntaxError:
        return None, None
    for tag in ('IMETHODCALL', 'METHODCALL', 'EXPMETHODCALL'):
        el = root.find('.//' + tag)
        if el is not None:
            return tag, el.get('NAME')
    return None, None


def error_response(tag, name, code=1, desc='scripted failure'):
    rtag = {'IMETHODCALL': 'IMETHODRESPONSE', 'METHODCALL': 'METHODRESPONSE',
            'EXPMETHODCALL': 'EXPMETHODRESPONSE'}[tag]
    outer = 'SIMPLEEXPRSP' if tag == 'EXPMETHODCALL' else 'SIMPLERSP'
    from xml.sax.saxutils import quoteattr
    return ('<?xml version="1.0" encoding="utf-8" ?>\n<CIM CIMVERSION="2.0" '
            'DTDVERSION="2.0"><MESSAGE ID="1001" PROTOCOLVERSION="1.0">'
            '<%s><%s NAME=%s><ERROR CODE="%d" DESCRIPTION=%s/></%s></%s>'
            '</MESSAGE></CIM>' % (outer, rtag, quoteattr(name or 'x'), code,
                                  quoteattr(desc), rtag, outer)
            ).encode('utf-8')


def cim_error_responder(code=1):
    "answers every request with a CIM error of the given code"
    def responder(req):
        tag, name = request_method_name(req.body)
        if tag is None:
            return Resp(b'', status=400, reason='Bad Request',
                        headers={'CIMError': 'request-not-well-formed'})
        return Resp(error_response(tag, name, code))
    return responder


# ---------------------------------------------------------------------------
# well-formedness / DTD validity oracle (C03; also used by C17 for listener
# responses)

def validate_cimxml(body):
    """
    Returns None if `body` (bytes) is a well-formed XML 1.0 document that is
    valid against DSP0203 2.3.1, else (signature, detail).
    """
    try:
        text = body.decode('utf-8')
    except UnicodeDecodeError as exc:
        return ('not-utf8', str(exc))
    # 1. expat (the parser most servers are built on)
    import xml.parsers.expat
    p = xml.parsers.expat.ParserCreate()
    try:
        p.Parse(body, True)
    except xml.parsers.expat.ExpatError as exc:
        return ('ill-formed-expat', '%s in %r' % (exc, text[:300]))
    # 2. lxml (libxml2): checks XML 1.0 Char production strictly
    try:
        root = etree.fromstring(
            body, etree.XMLParser(resolve_entities=False, huge_tree=False))
    except etree.XMLSyntaxError as exc:
        return ('ill-formed-libxml2', '%s in %r' % (exc, text[:300]))
    # 3. DTD
    d = dtd()
    if not d.validate(root):
        err = d.error_log.filter_from_errors()
        first = err[0] if len(err) else None
        msg = first.message if first is not None else 'invalid'
        import re
        key = re.sub(r'[^A-Za-z.]+', '_', msg)[:60]
        return ('dtd-invalid:' + key, '%s\n%s' % (msg, text[:1500]))
    return None
