"""
C06 - CIM data types hold only representable values and print/parse
losslessly.  DESIGN.md 4.6.
"""

import math
import re
import struct
import itertools
from datetime import datetime, timedelta

from hypothesis import strategies as st

import pywbem
from pywbem import (CIMDateTime, MinutesFromUTC, CIMInstanceName,
                    CIMClassName, CIMInstance, CIMClass, CIMProperty,
                    CIMParameter, CIMQualifier, CIMQualifierDeclaration,
                    Char16, cimvalue)
from pywbem._cim_types import atomic_to_cim_xml
from pywbem._tupleparse import TupleParser

from .runner import Sub
from . import strategies as S

PROPERTY = 'C06'
RULE = (
    "int_exhaustive: every v in [min-300, max+300] of the 8- and 16-bit "
    "integer types x 14 constructor forms (positional, keyword x, str, "
    "bases 2/8/10/16/36), enumerated completely; int_random: same forms for "
    "32/64-bit types over boundaries +-2 and random values; cimvalue: "
    "(value, type) pairs with values of every Python/CIM kind x 15 types "
    "through cimvalue(), constructors and .value setters of CIMProperty/"
    "CIMParameter/CIMQualifier/CIMQualifierDeclaration; datetime: "
    "timestamps (all offsets -999..+999 enumerated x sampled instants), "
    "intervals 0..99999999 days, DSP0004 strings with every asterisk "
    "pattern pywbem accepts; reals: float32-representable values for real32 "
    "and all doubles for real64/float through atomic_to_cim_xml and the "
    "tuple parser.  Non-trivial = boundary or out-of-range integer; "
    "(value, type) pair whose Python type differs from the target class; "
    "datetime with asterisks or |offset| > 720 or interval; real needing "
    "more than 6 significant digits or special.  Distinct = distinct "
    "generated input.")
ASSUMPTIONS = [
    "pywbem.config.ENFORCE_INTEGER_RANGE is left at its default (True)",
    "CIMDateTime domain: timedelta 0..99999999 days, tz offsets that are "
    "whole minutes within +-999 (DSP0004 cannot express anything else)",
    "for type 'string' an embedded CIMInstance/CIMClass is a legal value "
    "(embedded objects); Char16 counts as str",
    "NaN is compared with math.isnan, the sign of zero with copysign",
]

# ---------------------------------------------------------------------------
# 1. integers

_DIGITS = '0123456789abcdefghijklmnopqrstuvwxyz'


def _in_base(v, b):
    if v == 0:
        return '0'
    n = abs(v)
    out = []
    while n:
        n, r = divmod(n, b)
        out.append(_DIGITS[r])
    return ('-' if v < 0 else '') + ''.join(reversed(out))


FORMS = ['pos', 'kw', 'str', 'kwstr', 'float'] + \
    ['base%d' % b for b in (2, 8, 10, 16, 36)] + \
    ['kwbase%d' % b for b in (2, 16)] + ['pfx16', 'pfx0']


def _construct(T, v, form):
    if form == 'pos':
        return T(v)
    if form == 'kw':
        return T(x=v)
    if form == 'str':
        return T(str(v))
    if form == 'kwstr':
        return T(x=' %d ' % v)
    if form == 'float':
        return T(float(v))
    if form.startswith('base'):
        b = int(form[4:])
        return T(_in_base(v, b), b)
    if form.startswith('kwbase'):
        b = int(form[6:])
        return T(x=_in_base(v, b), base=b)
    if form == 'pfx16':
        return T(('-' if v < 0 else '') + '0x%X' % abs(v), 16)
    if form == 'pfx0':
        return T(('-' if v < 0 else '') + '0b' + bin(abs(v))[2:], 0)
    raise ValueError(form)


def _check_int(ctx, tname, v, form):
    T = S.INT_TYPES[tname]
    lo, hi = S.INT_RANGE[tname]
    inrange = lo <= v <= hi
    if form == 'float' and abs(v) >= 2 ** 53:
        return
    try:
        r = _construct(T, v, form)
    except ValueError:
        if inrange:
            ctx.fail('int-range:in-range-value-rejected',
                     '%s form=%s v=%d raised ValueError' % (tname, form, v),
                     (tname, v, form))
        return
    if type(r) is not T:
        ctx.fail('int-range:wrong-class', '%r' % (type(r),), (tname, v, form))
    elif not (lo <= int(r) <= hi):
        ctx.fail('int-range:out-of-range-object',
                 '%s holds %d (form %s)' % (tname, int(r), form),
                 (tname, v, form))
    elif int(r) != v:
        ctx.fail('int-range:wrong-value',
                 '%s(%d) form %s holds %d' % (tname, v, form, int(r)),
                 (tname, v, form))
    elif str(r) != str(v):
        ctx.fail('int-range:str', '%r' % str(r), (tname, v, form))


def int_exhaustive(ctx, shard, nshards):
    work = []
    for tname in ('uint8', 'sint8', 'uint16', 'sint16'):
        lo, hi = S.INT_RANGE[tname]
        work.append((tname, lo - 300, hi + 300))
    n = 0
    for tname, a, b in work:
        lo, hi = S.INT_RANGE[tname]
        for v in range(a, b + 1):
            if v % nshards != shard:
                continue
            for form in FORMS:
                n += 1
                ctx.current = (tname, v, form)
                _check_int(ctx, tname, v, form)
                nontriv = (v - lo in (-2, -1, 0, 1, 2) or
                           v - hi in (-2, -1, 0, 1, 2) or v < lo or v > hi)
                ctx.case(nontrivial=nontriv,
                         classes=('int:' + ('inrange' if lo <= v <= hi
                                            else 'outofrange'),))


def int_replay(ctx, ex):
    ctx.current = ex
    _check_int(ctx, *ex)
    ctx.case(nontrivial=True)


def int_random_strategy():
    def vals(tname):
        lo, hi = S.INT_RANGE[tname]
        near = [lo + d for d in range(-3, 4)] + [hi + d for d in range(-3, 4)]
        return st.one_of(st.sampled_from(near), st.integers(lo, hi),
                         st.integers(lo - 2 ** 70, hi + 2 ** 70))
    return st.sampled_from(['uint32', 'sint32', 'uint64', 'sint64']).flatmap(
        lambda t: st.tuples(st.just(t), vals(t), st.sampled_from(FORMS)))


def int_random_oracle(ctx, ex):
    tname, v, form = ex
    lo, hi = S.INT_RANGE[tname]
    _check_int(ctx, tname, v, form)
    ctx.case(nontrivial=(abs(v - lo) <= 3 or abs(v - hi) <= 3 or
                         v < lo or v > hi),
             classes=('int:' + ('inrange' if lo <= v <= hi
                                else 'outofrange'),))


# ---------------------------------------------------------------------------
# 2. cimvalue / typed setters

def _vrec():
    "Value recipes of every kind: ('kind', payload)"
    scal = st.one_of(
        st.tuples(st.just('bool'), st.booleans()),
        st.tuples(st.just('int'), st.one_of(
            st.sampled_from([0, 1, -1, 42, 255, 256, -129, 2 ** 64, 2 ** 63]),
            st.integers(-2 ** 65, 2 ** 65))),
        st.tuples(st.just('float'), st.one_of(
            st.sampled_from([0.0, 1.5, -1.5, math.inf, -math.inf, math.nan,
                             1e300, 255.0, 3.7]),
            st.floats())),
        st.tuples(st.just('str'), st.one_of(
            st.sampled_from(['', 'abc', '42', ' 42 ', '-1', '1.5', '1e3',
                             'inf', 'nan', 'TRUE', 'false', '0x10', '1_0',
                             '20180911124613.128000+000',
                             '00000001000000.000000:000',
                             '//h/root:C.k=1', 'C.k="a"', '/:C.k=1', 'a',
                             '256', '99999999999999999999', '１２'] ),
            S.cim_string(12))),
        st.tuples(st.just('bytes'), st.one_of(
            st.sampled_from([b'', b'abc', b'42', b'\xc3\xa4', b'\xff\xfe',
                             b'\xc3', b'1.5',
                             b'20180911124613.128000+000']),
            st.binary(max_size=6))),
        st.tuples(st.just('datetime'), S.timestamp()),
        st.tuples(st.just('naive'), S.timestamp(offsets=False)),
        st.tuples(st.just('timedelta'), S.interval()),
        st.tuples(st.just('cimdt'), S.datetime_scalar()),
        st.sampled_from(sorted(S.INT_TYPES)).flatmap(
            lambda t: st.tuples(st.just('cim:' + t), S.cim_int(t))),
        st.sampled_from(sorted(S.REAL_TYPES)).flatmap(
            lambda t: st.tuples(st.just('cim:' + t), S.cim_real(t))),
        st.tuples(st.just('char16'), S.char16()),
        st.tuples(st.just('ipath'), S.instance_path(depth=0)),
        st.tuples(st.just('cpath'), S.class_path()),
        st.tuples(st.just('inst'), st.just(None)),
        st.tuples(st.just('class'), st.just(None)),
        st.tuples(st.just('object'), st.sampled_from(['obj', 'dict', 'set',
                                                      'tuple', 'complex'])),
    )
    return st.one_of(
        scal, scal,
        st.just(('none', None)),
        st.lists(st.one_of(scal, st.just(('none', None))),
                 max_size=3).map(lambda l: ('list', l)))


def _vbuild(rec):
    k, p = rec
    if k == 'none':
        return None
    if k in ('bool', 'int', 'float', 'str', 'bytes'):
        return p
    if k == 'datetime':
        return S.build_datetime(p).datetime
    if k == 'naive':
        return S.build_datetime(p).datetime.replace(tzinfo=None)
    if k == 'timedelta':
        return S.build_datetime(p).timedelta
    if k == 'cimdt':
        return S.build_datetime(p)
    if k.startswith('cim:'):
        t = k[4:]
        return (S.INT_TYPES.get(t) or S.REAL_TYPES[t])(p)
    if k == 'char16':
        return Char16(p)
    if k in ('ipath', 'cpath'):
        return S.build(p)
    if k == 'inst':
        return CIMInstance('C', properties={'p': 'v'})
    if k == 'class':
        return CIMClass('C')
    if k == 'object':
        return {'obj': object(), 'dict': {'a': 1}, 'set': {1},
                'tuple': (1, 2), 'complex': 1j}[p]
    if k == 'list':
        return [_vbuild(x) for x in p]
    raise ValueError(k)


def _class_ok(type_, r, embedded_ok):
    "Is r an object of exactly the class documented for CIM type type_?"
    if r is None:
        return True
    if type_ == 'boolean':
        return type(r) is bool
    if type_ == 'string':
        if isinstance(r, str):
            return True
        return embedded_ok and isinstance(r, (CIMInstance, CIMClass))
    if type_ == 'char16':
        return isinstance(r, str)
    if type_ == 'datetime':
        return type(r) is CIMDateTime
    if type_ == 'reference':
        return type(r) in (CIMInstanceName, CIMClassName)
    if type_ in S.INT_TYPES:
        T = S.INT_TYPES[type_]
        return type(r) is T and T.minvalue <= int(r) <= T.maxvalue
    if type_ in S.REAL_TYPES:
        return type(r) is S.REAL_TYPES[type_]
    return False


CHANNELS = ['cimvalue', 'prop_init', 'prop_set', 'param_init', 'param_set',
            'qual_init', 'qual_set', 'qdecl_init', 'qdecl_set']


def _store(channel, value, type_):
    "Offer `value` for CIM type `type_` through a channel; return stored"
    is_arr = isinstance(value, list)
    if channel == 'cimvalue':
        return cimvalue(value, type_)
    if channel == 'prop_init':
        return CIMProperty('p', value, type=type_, is_array=is_arr).value
    if channel == 'prop_set':
        o = CIMProperty('p', None, type=type_, is_array=is_arr)
        o.value = value
        return o.value
    if channel == 'param_init':
        return CIMParameter('p', type_, value=value, is_array=is_arr).value
    if channel == 'param_set':
        o = CIMParameter('p', type_, is_array=is_arr)
        o.value = value
        return o.value
    if channel == 'qual_init':
        return CIMQualifier('q', value, type=type_).value
    if channel == 'qual_set':
        o = CIMQualifier('q', None, type=type_)
        o.value = value
        return o.value
    if channel == 'qdecl_init':
        return CIMQualifierDeclaration('q', type_, value=value,
                                       is_array=is_arr).value
    if channel == 'qdecl_set':
        o = CIMQualifierDeclaration('q', type_, is_array=is_arr)
        o.value = value
        return o.value
    raise ValueError(channel)


def cimvalue_strategy():
    return st.tuples(_vrec(), st.sampled_from(S.ALL_TYPES),
                     st.sampled_from(CHANNELS))


def _kind_matches(kind, type_):
    "value kind is already the natural Python/CIM kind of the type"
    return (kind == 'cim:' + type_ or
            (kind, type_) in (('bool', 'boolean'), ('str', 'string'),
                              ('char16', 'char16'), ('cimdt', 'datetime'),
                              ('ipath', 'reference'), ('cpath', 'reference')))


def cimvalue_oracle(ctx, ex):
    rec, type_, channel = ex
    value = _vbuild(rec)
    kind = rec[0]
    try:
        r = _store(channel, value, type_)
    except (TypeError, ValueError):
        ctx.case(nontrivial=not _kind_matches(kind, type_),
                 classes=('cimvalue:rejected', 'cimvalue:kind:' + kind))
        return
    except Exception as exc:  # pylint: disable=broad-except
        ctx.fail('typed-store:raises-' + type(exc).__name__,
                 '%s(%r, %r) raised %r' % (channel, value, type_, exc))
        ctx.case(nontrivial=True)
        return
    embedded_ok = True   # see ASSUMPTIONS
    items = r if isinstance(r, list) else [r]
    if isinstance(value, list) != isinstance(r, list) and r is not None:
        ctx.fail('typed-store:array-shape', '%r -> %r' % (value, r))
    for item in items:
        if not _class_ok(type_, item, embedded_ok):
            grp = ('int' if type_ in S.INT_TYPES else
                   'real' if type_ in S.REAL_TYPES else
                   'string' if type_ in ('string', 'char16') else type_)
            if grp == 'string' and isinstance(item, (bytes, str)):
                grp = 'string-from-text'
            elif grp == 'string':
                # the object offered was not text at all and is kept as is
                grp = 'string-from-nontext' if any(
                    item is v for v in (value if isinstance(value, list)
                                        else [value])) else 'string-other'
            ctx.fail('typed-store:wrong-class-stored-for-%s' % grp,
                     '%s: value %r for type %r is stored as %r' %
                     (channel, value, type_, item))
            break
    ctx.case(nontrivial=not _kind_matches(kind, type_),
             classes=('cimvalue:accepted', 'cimvalue:kind:' + kind))


# ---------------------------------------------------------------------------
# 3. CIMDateTime

DT_RE = re.compile(
    r'^(?:[0-9*]{14}\.[0-9*]{6}[+-][0-9]{3}|[0-9*]{14}\.[0-9*]{6}:000)$')


def _check_dt(ctx, x, how, ex):
    s = str(x)
    if len(s) != 25 or not DT_RE.match(s):
        ctx.fail('datetime:str-not-dsp0004',
                 '%s: str() = %r' % (how, s), ex)
        return
    try:
        y = CIMDateTime(s)
    except Exception as exc:  # pylint: disable=broad-except
        ctx.fail('datetime:str-not-reparsable',
                 '%s: CIMDateTime(%r) raised %r' % (how, s, exc), ex)
        return
    if not (y == x) or (y != x):
        ctx.fail('datetime:roundtrip-not-equal',
                 '%s: %r -> %r -> %r' % (how, x, s, y), ex)
    elif y.is_interval != x.is_interval:
        ctx.fail('datetime:roundtrip-kind', repr((x, y)), ex)
    elif y.minutes_from_utc != x.minutes_from_utc:
        ctx.fail('datetime:roundtrip-offset',
                 '%r: %d -> %d' % (s, x.minutes_from_utc,
                                   y.minutes_from_utc), ex)
    elif y.precision != x.precision:
        ctx.fail('datetime:roundtrip-precision',
                 '%r: %r -> %r' % (s, x.precision, y.precision), ex)
    elif str(y) != s:
        ctx.fail('datetime:str-not-stable', '%r -> %r' % (s, str(y)), ex)
    elif hash(y) != hash(x):
        ctx.fail('datetime:hash', repr((x, y)), ex)


def datetime_strategy():
    return st.one_of(
        st.tuples(st.just('obj'), S.timestamp()),
        st.tuples(st.just('obj'), S.interval()),
        st.tuples(st.just('naive'), S.timestamp(offsets=False)),
        st.tuples(st.just('str'), S.datetime_scalar()),
        st.tuples(st.just('copy'), S.datetime_scalar()),
    )


def datetime_oracle(ctx, ex):
    how, rec = ex
    if how == 'naive':
        x = CIMDateTime(S.build_datetime(rec).datetime.replace(tzinfo=None))
    elif how == 'str':
        x = CIMDateTime(S.dtstr_from(rec, None)) if rec[0] != 'dtstr' \
            else CIMDateTime(rec[1])
        # what was parsed must be what was written
        src = S.dtstr_from(rec, None) if rec[0] != 'dtstr' else rec[1]
        if str(x) != src:
            ctx.fail('datetime:parse-print',
                     'CIMDateTime(%r) prints as %r' % (src, str(x)))
    elif how == 'copy':
        x = CIMDateTime(S.build_datetime(rec))
    else:
        x = S.build_datetime(rec)
    _check_dt(ctx, x, how, ex)
    if rec[0] == 'ts' and how == 'obj':
        if x.minutes_from_utc != rec[8]:
            ctx.fail('datetime:offset-property',
                     'offset %d reads back as %d' % (rec[8],
                                                     x.minutes_from_utc))
        s = str(x)
        want = '%04d%02d%02d%02d%02d%02d.%06d%s%03d' % (
            rec[1:8] + ('+' if rec[8] >= 0 else '-', abs(rec[8])))
        if s != want:
            ctx.fail('datetime:str-value', '%r != %r' % (s, want))
    if rec[0] == 'iv' and how == 'obj':
        want = S.dtstr_from(rec, None)
        if str(x) != want:
            ctx.fail('datetime:str-value', '%r != %r' % (str(x), want))
    nontriv = (rec[0] in ('dtstr', 'iv') or
               (rec[0] == 'ts' and abs(rec[8]) > 720))
    ctx.case(nontrivial=nontriv,
             classes=('dt:' + how, 'dt:' + rec[0]))


def datetime_offsets(ctx, shard, nshards):
    "all offsets -999..+999 x a few instants x all precisions"
    instants = [(1, 1, 1, 0, 0, 0, 0), (9999, 12, 31, 23, 59, 59, 999999),
                (2024, 2, 29, 12, 30, 15, 128000), (2000, 1, 1, 0, 0, 0, 1),
                (1970, 1, 1, 0, 0, 0, 0), (2023, 3, 26, 2, 30, 0, 500000)]
    for off in range(-999, 1000):
        if off % nshards != shard:
            continue
        for inst in instants:
            rec = ('ts',) + inst + (off,)
            ex = ('obj', rec)
            ctx.current = ex
            x = S.build_datetime(rec)
            _check_dt(ctx, x, 'obj', ex)
            if x.minutes_from_utc != off:
                ctx.fail('datetime:offset-property',
                         'offset %d reads back as %d' %
                         (off, x.minutes_from_utc), ex)
            ctx.case(nontrivial=abs(off) > 720)
            for p in S.TS_PRECISIONS:
                s = S.dtstr_from(rec, p)
                ex2 = ('str', ('dtstr', s))
                ctx.current = ex2
                x2 = CIMDateTime(s)
                if str(x2) != s:
                    ctx.fail('datetime:parse-print',
                             'CIMDateTime(%r) prints as %r' % (s, str(x2)),
                             ex2)
                _check_dt(ctx, x2, 'str', ex2)
                ctx.case(nontrivial=True)


def datetime_offsets_replay(ctx, ex):
    datetime_oracle(ctx, ex)


# ---------------------------------------------------------------------------
# 4. reals on the wire

REAL_RE = re.compile(r'^[+-]?[0-9]+\.[0-9]+(?:[eE][+-]?[0-9]+)?$')


def reals_strategy():
    return st.one_of(
        st.tuples(st.just('real32'), S.cim_real('real32')),
        st.tuples(st.just('real64'), S.cim_real('real64')),
        st.tuples(st.just('float'), S.cim_real('real64')),
    )


def _bits(f, width):
    return struct.pack('>f' if width == 32 else '>d', f)


def reals_oracle(ctx, ex):
    tname, f = ex
    if tname == 'float':
        obj = float(f)
        ptype = 'real64'
    else:
        obj = S.REAL_TYPES[tname](f)
        ptype = tname
    s = atomic_to_cim_xml(obj)
    if math.isnan(f):
        ok = s == 'NaN'
    elif math.isinf(f):
        ok = s == ('INF' if f > 0 else '-INF')
    else:
        ok = bool(REAL_RE.match(s))
    if not ok:
        ctx.fail('real:spelling', '%r written as %r' % (obj, s))
    else:
        r = TupleParser().unpack_single_value(s, ptype)
        if type(r) is not S.REAL_TYPES[ptype]:
            ctx.fail('real:class', repr(type(r)))
        elif math.isnan(f):
            if not math.isnan(r):
                ctx.fail('real:nan', repr(r))
        elif (S._to_f32(float(r)) if tname == 'real32' else float(r)) != f \
                or math.copysign(1, r) != math.copysign(1, f):
            ctx.fail('real:value-changed-' + tname,
                     '%r written as %r parsed as %r' % (f, s, float(r)))
        # untyped parse (keybinding form) gives the same float
        r2 = TupleParser().unpack_single_value(s, None)
        if not math.isnan(f) and float(r2) != f and tname != 'real32':
            ctx.fail('real:untyped-value-changed',
                     '%r written as %r parsed as %r' % (f, s, r2))
    special = math.isnan(f) or math.isinf(f)
    nontriv = special or ('%.6G' % f != '%.17G' % f and float('%.6G' % f)
                          != f)
    ctx.case(nontrivial=nontriv,
             classes=('real:' + tname,
                      'real:special' if special else 'real:finite'))


SUBCHECKS = [
    Sub('int_exhaustive', enumerate=int_exhaustive, quick=(16, 0),
        thorough=(16, 0)),
    Sub('int_random', strategy=int_random_strategy, oracle=int_random_oracle,
        quick=(4, 3000), thorough=(16, 40000)),
    Sub('cimvalue', strategy=cimvalue_strategy, oracle=cimvalue_oracle,
        quick=(16, 1500), thorough=(16, 40000)),
    Sub('datetime', strategy=datetime_strategy, oracle=datetime_oracle,
        quick=(8, 2000), thorough=(16, 40000)),
    Sub('datetime_offsets', enumerate=datetime_offsets, quick=(8, 0),
        thorough=(16, 0)),
    Sub('reals', strategy=reals_strategy, oracle=reals_oracle,
        quick=(8, 4000), thorough=(16, 100000)),
]
SUBCHECKS[0].replay = int_replay
SUBCHECKS[4].replay = datetime_offsets_replay
