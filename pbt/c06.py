"""
C06 - CIM data types hold only representable values and print/parse
losslessly.  DESIGN.md 4.6.

Sub-checks int_*, cimvalue, datetime*, reals build a fresh object per example
and call each API once (the int_random, datetime and reals oracles
additionally ask the same object / a used parser a second time:
`*:repeated-call-differs`).  typed_seq is the sequence check: typed values
are given to EXISTING typed elements of one object through every documented
route (value setter, type setter + value setter, CIMInstance.update_existing
with a dict / tuples / kwargs / NocaseDict / CIMInstanceName / CIMInstance /
another instance of the state / itself, CIMInstance.update, __setitem__, the
properties setter, copy()), several times in a row, and after every step the
state is compared with (1) the property statement itself (every element holds
None or objects of exactly the class of its CIM type, integers in range),
(2) a model advanced with freshly built equal values through a fresh
cimvalue(v, type) / CIMProperty(name, v) call, (3) no list object being the
value of two elements or of an element and the source object of the step.
Signatures: typed-seq:<route>:<what>, one per route and kind of deviation.
"""

import math
import re
import struct
import itertools
import functools
from datetime import datetime, timedelta

from hypothesis import strategies as st

import pywbem
from pywbem import (CIMDateTime, MinutesFromUTC, CIMInstanceName,
                    CIMClassName, CIMInstance, CIMClass, CIMProperty,
                    CIMParameter, CIMQualifier, CIMQualifierDeclaration,
                    Char16, cimvalue)
from pywbem._cim_types import atomic_to_cim_xml
from pywbem._tupleparse import TupleParser

from .runner import Sub
from . import strategies as S

PROPERTY = 'C06'
RULE = (
    "int_exhaustive: every v in [min-300, max+300] of the 8- and 16-bit "
    "integer types x 14 constructor forms (positional, keyword x, str, "
    "bases 2/8/10/16/36), enumerated completely; int_random: same forms for "
    "32/64-bit types over boundaries +-2 and random values; cimvalue: "
    "(value, type) pairs with values of every Python/CIM kind x 15 types "
    "through cimvalue(), constructors and .value setters of CIMProperty/"
    "CIMParameter/CIMQualifier/CIMQualifierDeclaration; datetime: "
    "timestamps (all offsets -999..+999 enumerated x sampled instants), "
    "intervals 0..99999999 days, DSP0004 strings with every asterisk "
    "pattern pywbem accepts; reals: float32-representable values for real32 "
    "and all doubles for real64/float through atomic_to_cim_xml and the "
    "tuple parser.  Non-trivial = boundary or out-of-range integer; "
    "(value, type) pair whose Python type differs from the target class; "
    "datetime with asterisks or |offset| > 720 or interval; real needing "
    "more than 6 significant digits or special.  typed_seq: two "
    "CIMInstance objects with 1-4 typed properties each (4 names, 15 types, "
    "scalar/array, other types under the same name in the two instances) "
    "and two standalone CIMProperty/CIMParameter/CIMQualifier/"
    "CIMQualifierDeclaration objects, 2-8 steps over the routes of the module "
    "docstring with values aimed at the declared type of the target "
    "(plain int/float/str in and out of range, other CIM integer/real "
    "types, datetime/timedelta/strings, wrong kinds, None, lists with None "
    "items, shape mismatches); non-trivial = a history with an accepted "
    "update_existing or with two different routes; classes seq:step:<route> "
    "count executed steps, seq:upx-value-needs-conversion:* the items of "
    "update_existing whose value was not yet an object of the target type. "
    "Distinct = distinct generated input.")
ASSUMPTIONS = [
    "pywbem.config.ENFORCE_INTEGER_RANGE is left at its default (True)",
    "CIMDateTime domain: timedelta 0..99999999 days, tz offsets that are "
    "whole minutes within +-999 (DSP0004 cannot express anything else)",
    "for type 'string' an embedded CIMInstance/CIMClass is a legal value "
    "(embedded objects); Char16 counts as str",
    "NaN is compared with math.isnan, the sign of zero with copysign",
    "typed_seq: the value setters do not compare the shape of the value "
    "with is_array (a scalar can be given to an array element and vice "
    "versa), only the constructors do; the check accepts that (the stored "
    "items must still be of the CIM type) and calls copy() only on "
    "elements whose value has the declared shape, holds no embedded "
    "object and whose embedded_object attribute is not set (it is inferred "
    "by the constructor and not maintained by the value/type setters)",
    "typed_seq: the type attribute is only changed together with a new "
    "value (type setter followed by value setter; the old type is put back "
    "if the value is rejected) - pywbem documents no re-conversion of the "
    "present value when type is set",
    "typed_seq: for string/char16 elements a non-text object that is kept "
    "unchanged is the known finding of sub-check cimvalue and only counted "
    "(seq:known-nontext-held-for-string); it must still be what a fresh "
    "cimvalue() returns",
    "typed_seq: CIMInstance.copy() shares its CIMProperty objects with the "
    "original (documented) and is not a step; update(self) and "
    "properties = self are not modelled",
]
SENSITIVITY = [
    "CIMInstance.update_existing() assigns prop._value directly when the "
    "source is a CIMInstance/CIMInstanceName (seeded change 6) -> typed_seq/"
    "typed-seq:update_existing(inst|path|state):holds-wrong-class-for-"
    "<int|real|datetime|boolean|reference>, :accepts-what-fresh-conversion-"
    "rejects, :differs-from-fresh-conversion, :array-value-shared-between-"
    "objects (hundreds of hits per quick run)",
    "seeded changes 1-5 (interval str() via total_seconds, '.0' appended "
    "after the exponent, cimvalue() array shortcut, minutes_from_utc "
    "wrap-around, CIMInt keyword form skipping the range check) -> "
    "datetime*/datetime:*, reals/real:spelling, cimvalue/typed-store:*, "
    "int_*/int-range:out-of-range-object (see seeded/C06)",
]

# ---------------------------------------------------------------------------
# 1. integers

_DIGITS = '0123456789abcdefghijklmnopqrstuvwxyz'


def _in_base(v, b):
    if v == 0:
        return '0'
    n = abs(v)
    out = []
    while n:
        n, r = divmod(n, b)
        out.append(_DIGITS[r])
    return ('-' if v < 0 else '') + ''.join(reversed(out))


FORMS = ['pos', 'kw', 'str', 'kwstr', 'float'] + \
    ['base%d' % b for b in (2, 8, 10, 16, 36)] + \
    ['kwbase%d' % b for b in (2, 16)] + ['pfx16', 'pfx0']


def _construct(T, v, form):
    if form == 'pos':
        return T(v)
    if form == 'kw':
        return T(x=v)
    if form == 'str':
        return T(str(v))
    if form == 'kwstr':
        return T(x=' %d ' % v)
    if form == 'float':
        return T(float(v))
    if form.startswith('base'):
        b = int(form[4:])
        return T(_in_base(v, b), b)
    if form.startswith('kwbase'):
        b = int(form[6:])
        return T(x=_in_base(v, b), base=b)
    if form == 'pfx16':
        return T(('-' if v < 0 else '') + '0x%X' % abs(v), 16)
    if form == 'pfx0':
        return T(('-' if v < 0 else '') + '0b' + bin(abs(v))[2:], 0)
    raise ValueError(form)


def _check_int(ctx, tname, v, form):
    T = S.INT_TYPES[tname]
    lo, hi = S.INT_RANGE[tname]
    inrange = lo <= v <= hi
    if form == 'float' and abs(v) >= 2 ** 53:
        return
    try:
        r = _construct(T, v, form)
    except ValueError:
        if inrange:
            ctx.fail('int-range:in-range-value-rejected',
                     '%s form=%s v=%d raised ValueError' % (tname, form, v),
                     (tname, v, form))
        return
    if type(r) is not T:
        ctx.fail('int-range:wrong-class', '%r' % (type(r),), (tname, v, form))
    elif not (lo <= int(r) <= hi):
        ctx.fail('int-range:out-of-range-object',
                 '%s holds %d (form %s)' % (tname, int(r), form),
                 (tname, v, form))
    elif int(r) != v:
        ctx.fail('int-range:wrong-value',
                 '%s(%d) form %s holds %d' % (tname, v, form, int(r)),
                 (tname, v, form))
    elif str(r) != str(v):
        ctx.fail('int-range:str', '%r' % str(r), (tname, v, form))


def int_exhaustive(ctx, shard, nshards):
    work = []
    for tname in ('uint8', 'sint8', 'uint16', 'sint16'):
        lo, hi = S.INT_RANGE[tname]
        work.append((tname, lo - 300, hi + 300))
    n = 0
    for tname, a, b in work:
        lo, hi = S.INT_RANGE[tname]
        for v in range(a, b + 1):
            if v % nshards != shard:
                continue
            for form in FORMS:
                n += 1
                ctx.current = (tname, v, form)
                _check_int(ctx, tname, v, form)
                nontriv = (v - lo in (-2, -1, 0, 1, 2) or
                           v - hi in (-2, -1, 0, 1, 2) or v < lo or v > hi)
                ctx.case(nontrivial=nontriv,
                         classes=('int:' + ('inrange' if lo <= v <= hi
                                            else 'outofrange'),))


def int_replay(ctx, ex):
    ctx.current = ex
    _check_int(ctx, *ex)
    ctx.case(nontrivial=True)


def int_random_strategy():
    def vals(tname):
        lo, hi = S.INT_RANGE[tname]
        near = [lo + d for d in range(-3, 4)] + [hi + d for d in range(-3, 4)]
        return st.one_of(st.sampled_from(near), st.integers(lo, hi),
                         st.integers(lo - 2 ** 70, hi + 2 ** 70))
    return st.sampled_from(['uint32', 'sint32', 'uint64', 'sint64']).flatmap(
        lambda t: st.tuples(st.just(t), vals(t), st.sampled_from(FORMS)))


def int_random_oracle(ctx, ex):
    tname, v, form = ex
    lo, hi = S.INT_RANGE[tname]
    _check_int(ctx, tname, v, form)
    # the same call a second time gives the same object or rejection
    if not (form == 'float' and abs(v) >= 2 ** 53):
        res = []
        for _ in range(2):
            try:
                r = _construct(S.INT_TYPES[tname], v, form)
                res.append((type(r), int(r)))
            except ValueError:
                res.append(None)
        if res[0] != res[1]:
            ctx.fail('int-range:repeated-call-differs',
                     '%s form=%s v=%d: %r then %r' % (tname, form, v, res[0],
                                                      res[1]))
    ctx.case(nontrivial=(abs(v - lo) <= 3 or abs(v - hi) <= 3 or
                         v < lo or v > hi),
             classes=('int:' + ('inrange' if lo <= v <= hi
                                else 'outofrange'),))


# ---------------------------------------------------------------------------
# 2. cimvalue / typed setters

def _vrec():
    "Value recipes of every kind: ('kind', payload)"
    scal = st.one_of(
        st.tuples(st.just('bool'), st.booleans()),
        st.tuples(st.just('int'), st.one_of(
            st.sampled_from([0, 1, -1, 42, 255, 256, -129, 2 ** 64, 2 ** 63]),
            st.integers(-2 ** 65, 2 ** 65))),
        st.tuples(st.just('float'), st.one_of(
            st.sampled_from([0.0, 1.5, -1.5, math.inf, -math.inf, math.nan,
                             1e300, 255.0, 3.7]),
            st.floats())),
        st.tuples(st.just('str'), st.one_of(
            st.sampled_from(['', 'abc', '42', ' 42 ', '-1', '1.5', '1e3',
                             'inf', 'nan', 'TRUE', 'false', '0x10', '1_0',
                             '20180911124613.128000+000',
                             '00000001000000.000000:000',
                             '//h/root:C.k=1', 'C.k="a"', '/:C.k=1', 'a',
                             '256', '99999999999999999999', '１２'] ),
            S.cim_string(12))),
        st.tuples(st.just('bytes'), st.one_of(
            st.sampled_from([b'', b'abc', b'42', b'\xc3\xa4', b'\xff\xfe',
                             b'\xc3', b'1.5',
                             b'20180911124613.128000+000']),
            st.binary(max_size=6))),
        st.tuples(st.just('datetime'), S.timestamp()),
        st.tuples(st.just('naive'), S.timestamp(offsets=False)),
        st.tuples(st.just('timedelta'), S.interval()),
        st.tuples(st.just('cimdt'), S.datetime_scalar()),
        st.sampled_from(sorted(S.INT_TYPES)).flatmap(
            lambda t: st.tuples(st.just('cim:' + t), S.cim_int(t))),
        st.sampled_from(sorted(S.REAL_TYPES)).flatmap(
            lambda t: st.tuples(st.just('cim:' + t), S.cim_real(t))),
        st.tuples(st.just('char16'), S.char16()),
        st.tuples(st.just('ipath'), S.instance_path(depth=0)),
        st.tuples(st.just('cpath'), S.class_path()),
        st.tuples(st.just('inst'), st.just(None)),
        st.tuples(st.just('class'), st.just(None)),
        st.tuples(st.just('object'), st.sampled_from(['obj', 'dict', 'set',
                                                      'tuple', 'complex'])),
    )
    return st.one_of(
        scal, scal,
        st.just(('none', None)),
        st.lists(st.one_of(scal, st.just(('none', None))),
                 max_size=3).map(lambda l: ('list', l)))


def _vbuild(rec):
    k, p = rec
    if k == 'none':
        return None
    if k in ('bool', 'int', 'float', 'str', 'bytes'):
        return p
    if k == 'datetime':
        return S.build_datetime(p).datetime
    if k == 'naive':
        return S.build_datetime(p).datetime.replace(tzinfo=None)
    if k == 'timedelta':
        return S.build_datetime(p).timedelta
    if k == 'cimdt':
        return S.build_datetime(p)
    if k.startswith('cim:'):
        t = k[4:]
        return (S.INT_TYPES.get(t) or S.REAL_TYPES[t])(p)
    if k == 'char16':
        return Char16(p)
    if k in ('ipath', 'cpath'):
        return S.build(p)
    if k == 'inst':
        return CIMInstance('C', properties={'p': 'v'})
    if k == 'class':
        return CIMClass('C')
    if k == 'object':
        return {'obj': object(), 'dict': {'a': 1}, 'set': {1},
                'tuple': (1, 2), 'complex': 1j}[p]
    if k == 'list':
        return [_vbuild(x) for x in p]
    if k == 'dtstr':
        return p[1] if p[0] == 'dtstr' else S.dtstr_from(p, None)
    raise ValueError(k)


def _class_ok(type_, r, embedded_ok):
    "Is r an object of exactly the class documented for CIM type type_?"
    if r is None:
        return True
    if type_ == 'boolean':
        return type(r) is bool
    if type_ == 'string':
        if isinstance(r, str):
            return True
        return embedded_ok and isinstance(r, (CIMInstance, CIMClass))
    if type_ == 'char16':
        return isinstance(r, str)
    if type_ == 'datetime':
        return type(r) is CIMDateTime
    if type_ == 'reference':
        return type(r) in (CIMInstanceName, CIMClassName)
    if type_ in S.INT_TYPES:
        T = S.INT_TYPES[type_]
        return type(r) is T and T.minvalue <= int(r) <= T.maxvalue
    if type_ in S.REAL_TYPES:
        return type(r) is S.REAL_TYPES[type_]
    return False


CHANNELS = ['cimvalue', 'prop_init', 'prop_set', 'param_init', 'param_set',
            'qual_init', 'qual_set', 'qdecl_init', 'qdecl_set']


def _store(channel, value, type_):
    "Offer `value` for CIM type `type_` through a channel; return stored"
    is_arr = isinstance(value, list)
    if channel == 'cimvalue':
        return cimvalue(value, type_)
    if channel == 'prop_init':
        return CIMProperty('p', value, type=type_, is_array=is_arr).value
    if channel == 'prop_set':
        o = CIMProperty('p', None, type=type_, is_array=is_arr)
        o.value = value
        return o.value
    if channel == 'param_init':
        return CIMParameter('p', type_, value=value, is_array=is_arr).value
    if channel == 'param_set':
        o = CIMParameter('p', type_, is_array=is_arr)
        o.value = value
        return o.value
    if channel == 'qual_init':
        return CIMQualifier('q', value, type=type_).value
    if channel == 'qual_set':
        o = CIMQualifier('q', None, type=type_)
        o.value = value
        return o.value
    if channel == 'qdecl_init':
        return CIMQualifierDeclaration('q', type_, value=value,
                                       is_array=is_arr).value
    if channel == 'qdecl_set':
        o = CIMQualifierDeclaration('q', type_, is_array=is_arr)
        o.value = value
        return o.value
    raise ValueError(channel)


def cimvalue_strategy():
    return st.tuples(_vrec(), st.sampled_from(S.ALL_TYPES),
                     st.sampled_from(CHANNELS))


def _kind_matches(kind, type_):
    "value kind is already the natural Python/CIM kind of the type"
    return (kind == 'cim:' + type_ or
            (kind, type_) in (('bool', 'boolean'), ('str', 'string'),
                              ('char16', 'char16'), ('cimdt', 'datetime'),
                              ('ipath', 'reference'), ('cpath', 'reference')))


def cimvalue_oracle(ctx, ex):
    rec, type_, channel = ex
    value = _vbuild(rec)
    kind = rec[0]
    try:
        r = _store(channel, value, type_)
    except (TypeError, ValueError):
        ctx.case(nontrivial=not _kind_matches(kind, type_),
                 classes=('cimvalue:rejected', 'cimvalue:kind:' + kind))
        return
    except Exception as exc:  # pylint: disable=broad-except
        ctx.fail('typed-store:raises-' + type(exc).__name__,
                 '%s(%r, %r) raised %r' % (channel, value, type_, exc))
        ctx.case(nontrivial=True)
        return
    embedded_ok = True   # see ASSUMPTIONS
    items = r if isinstance(r, list) else [r]
    if isinstance(value, list) != isinstance(r, list) and r is not None:
        ctx.fail('typed-store:array-shape', '%r -> %r' % (value, r))
    for item in items:
        if not _class_ok(type_, item, embedded_ok):
            grp = ('int' if type_ in S.INT_TYPES else
                   'real' if type_ in S.REAL_TYPES else
                   'string' if type_ in ('string', 'char16') else type_)
            if grp == 'string' and isinstance(item, (bytes, str)):
                grp = 'string-from-text'
            elif grp == 'string':
                # the object offered was not text at all and is kept as is
                grp = 'string-from-nontext' if any(
                    item is v for v in (value if isinstance(value, list)
                                        else [value])) else 'string-other'
            ctx.fail('typed-store:wrong-class-stored-for-%s' % grp,
                     '%s: value %r for type %r is stored as %r' %
                     (channel, value, type_, item))
            break
    ctx.case(nontrivial=not _kind_matches(kind, type_),
             classes=('cimvalue:accepted', 'cimvalue:kind:' + kind))


# ---------------------------------------------------------------------------
# 3. CIMDateTime

DT_RE = re.compile(
    r'^(?:[0-9*]{14}\.[0-9*]{6}[+-][0-9]{3}|[0-9*]{14}\.[0-9*]{6}:000)$')


def _check_dt(ctx, x, how, ex):
    s = str(x)
    if len(s) != 25 or not DT_RE.match(s):
        ctx.fail('datetime:str-not-dsp0004',
                 '%s: str() = %r' % (how, s), ex)
        return
    try:
        y = CIMDateTime(s)
    except Exception as exc:  # pylint: disable=broad-except
        ctx.fail('datetime:str-not-reparsable',
                 '%s: CIMDateTime(%r) raised %r' % (how, s, exc), ex)
        return
    if not (y == x) or (y != x):
        ctx.fail('datetime:roundtrip-not-equal',
                 '%s: %r -> %r -> %r' % (how, x, s, y), ex)
    elif y.is_interval != x.is_interval:
        ctx.fail('datetime:roundtrip-kind', repr((x, y)), ex)
    elif y.minutes_from_utc != x.minutes_from_utc:
        ctx.fail('datetime:roundtrip-offset',
                 '%r: %d -> %d' % (s, x.minutes_from_utc,
                                   y.minutes_from_utc), ex)
    elif y.precision != x.precision:
        ctx.fail('datetime:roundtrip-precision',
                 '%r: %r -> %r' % (s, x.precision, y.precision), ex)
    elif str(y) != s:
        ctx.fail('datetime:str-not-stable', '%r -> %r' % (s, str(y)), ex)
    elif hash(y) != hash(x):
        ctx.fail('datetime:hash', repr((x, y)), ex)
    elif str(x) != s or not (y == x) or str(y) != s:
        # the same object asked a second time, after it has been printed,
        # compared and hashed
        ctx.fail('datetime:repeated-call-differs',
                 '%s: second str() = %r, first %r' % (how, str(x), s), ex)


def datetime_strategy():
    return st.one_of(
        st.tuples(st.just('obj'), S.timestamp()),
        st.tuples(st.just('obj'), S.interval()),
        st.tuples(st.just('naive'), S.timestamp(offsets=False)),
        st.tuples(st.just('str'), S.datetime_scalar()),
        st.tuples(st.just('copy'), S.datetime_scalar()),
    )


def datetime_oracle(ctx, ex):
    how, rec = ex
    if how == 'naive':
        x = CIMDateTime(S.build_datetime(rec).datetime.replace(tzinfo=None))
    elif how == 'str':
        x = CIMDateTime(S.dtstr_from(rec, None)) if rec[0] != 'dtstr' \
            else CIMDateTime(rec[1])
        # what was parsed must be what was written
        src = S.dtstr_from(rec, None) if rec[0] != 'dtstr' else rec[1]
        if str(x) != src:
            ctx.fail('datetime:parse-print',
                     'CIMDateTime(%r) prints as %r' % (src, str(x)))
    elif how == 'copy':
        x = CIMDateTime(S.build_datetime(rec))
    else:
        x = S.build_datetime(rec)
    _check_dt(ctx, x, how, ex)
    if rec[0] == 'ts' and how == 'obj':
        if x.minutes_from_utc != rec[8]:
            ctx.fail('datetime:offset-property',
                     'offset %d reads back as %d' % (rec[8],
                                                     x.minutes_from_utc))
        s = str(x)
        want = '%04d%02d%02d%02d%02d%02d.%06d%s%03d' % (
            rec[1:8] + ('+' if rec[8] >= 0 else '-', abs(rec[8])))
        if s != want:
            ctx.fail('datetime:str-value', '%r != %r' % (s, want))
    if rec[0] == 'iv' and how == 'obj':
        want = S.dtstr_from(rec, None)
        if str(x) != want:
            ctx.fail('datetime:str-value', '%r != %r' % (str(x), want))
    nontriv = (rec[0] in ('dtstr', 'iv') or
               (rec[0] == 'ts' and abs(rec[8]) > 720))
    ctx.case(nontrivial=nontriv,
             classes=('dt:' + how, 'dt:' + rec[0]))


def datetime_offsets(ctx, shard, nshards):
    "all offsets -999..+999 x a few instants x all precisions"
    instants = [(1, 1, 1, 0, 0, 0, 0), (9999, 12, 31, 23, 59, 59, 999999),
                (2024, 2, 29, 12, 30, 15, 128000), (2000, 1, 1, 0, 0, 0, 1),
                (1970, 1, 1, 0, 0, 0, 0), (2023, 3, 26, 2, 30, 0, 500000)]
    for off in range(-999, 1000):
        if off % nshards != shard:
            continue
        for inst in instants:
            rec = ('ts',) + inst + (off,)
            ex = ('obj', rec)
            ctx.current = ex
            x = S.build_datetime(rec)
            _check_dt(ctx, x, 'obj', ex)
            if x.minutes_from_utc != off:
                ctx.fail('datetime:offset-property',
                         'offset %d reads back as %d' %
                         (off, x.minutes_from_utc), ex)
            ctx.case(nontrivial=abs(off) > 720)
            for p in S.TS_PRECISIONS:
                s = S.dtstr_from(rec, p)
                ex2 = ('str', ('dtstr', s))
                ctx.current = ex2
                x2 = CIMDateTime(s)
                if str(x2) != s:
                    ctx.fail('datetime:parse-print',
                             'CIMDateTime(%r) prints as %r' % (s, str(x2)),
                             ex2)
                _check_dt(ctx, x2, 'str', ex2)
                ctx.case(nontrivial=True)


def datetime_offsets_replay(ctx, ex):
    datetime_oracle(ctx, ex)


# ---------------------------------------------------------------------------
# 4. reals on the wire

REAL_RE = re.compile(r'^[+-]?[0-9]+\.[0-9]+(?:[eE][+-]?[0-9]+)?$')


def reals_strategy():
    return st.one_of(
        st.tuples(st.just('real32'), S.cim_real('real32')),
        st.tuples(st.just('real64'), S.cim_real('real64')),
        st.tuples(st.just('float'), S.cim_real('real64')),
    )


def _bits(f, width):
    return struct.pack('>f' if width == 32 else '>d', f)


_SHARED_PARSER = TupleParser()


def reals_oracle(ctx, ex):
    tname, f = ex
    if tname == 'float':
        obj = float(f)
        ptype = 'real64'
    else:
        obj = S.REAL_TYPES[tname](f)
        ptype = tname
    s = atomic_to_cim_xml(obj)
    if math.isnan(f):
        ok = s == 'NaN'
    elif math.isinf(f):
        ok = s == ('INF' if f > 0 else '-INF')
    else:
        ok = bool(REAL_RE.match(s))
    if not ok:
        ctx.fail('real:spelling', '%r written as %r' % (obj, s))
    else:
        r = TupleParser().unpack_single_value(s, ptype)
        if type(r) is not S.REAL_TYPES[ptype]:
            ctx.fail('real:class', repr(type(r)))
        elif math.isnan(f):
            if not math.isnan(r):
                ctx.fail('real:nan', repr(r))
        elif (S._to_f32(float(r)) if tname == 'real32' else float(r)) != f \
                or math.copysign(1, r) != math.copysign(1, f):
            ctx.fail('real:value-changed-' + tname,
                     '%r written as %r parsed as %r' % (f, s, float(r)))
        # a parser object that has parsed other values before, and the
        # same object written a second time
        r3 = _SHARED_PARSER.unpack_single_value(s, ptype)
        if type(r3) is not type(r) or _bits(r3, 64) != _bits(r, 64) and \
                not (math.isnan(r3) and math.isnan(r)):
            ctx.fail('real:repeated-call-differs',
                     '%r parsed as %r by a fresh and as %r by a used parser'
                     % (s, r, r3))
        elif atomic_to_cim_xml(obj) != s:
            ctx.fail('real:repeated-call-differs',
                     '%r written as %r, then as %r' %
                     (obj, s, atomic_to_cim_xml(obj)))
        # untyped parse (keybinding form) gives the same float
        r2 = TupleParser().unpack_single_value(s, None)
        if not math.isnan(f) and float(r2) != f and tname != 'real32':
            ctx.fail('real:untyped-value-changed',
                     '%r written as %r parsed as %r' % (f, s, r2))
    special = math.isnan(f) or math.isinf(f)
    nontriv = special or ('%.6G' % f != '%.17G' % f and float('%.6G' % f)
                          != f)
    ctx.case(nontrivial=nontriv,
             classes=('real:' + tname,
                      'real:special' if special else 'real:finite'))


# ---------------------------------------------------------------------------
# 5. typed values on ONE object through a sequence of documented routes
#
# State: two CIMInstance objects with typed properties (same name pool, other
# types) and two standalone typed elements (CIMProperty / CIMParameter /
# CIMQualifier / CIMQualifierDeclaration).  Every step gives values to
# existing typed elements through one documented route.  After every step
#  * each element holds None or objects of exactly the class of its CIM type
#    (the property statement, independent of any model),
#  * the objects equal a model that is advanced with *freshly built* equal
#    values and a fresh cimvalue(v, type) / CIMProperty(name, v) call
#    (rejected <=> the fresh conversion raises TypeError/ValueError; a
#    rejected assignment leaves the old value),
#  * no list object is the value of two different elements or of an element
#    and of the source object of the step (cimvalue: "a new list is
#    returned").

_SEQ_NAMES = ['Pa', 'pB', 'PC_1', 'pd']
_SEQ_TYPES = sorted(S.INT_TYPES) + ['real32', 'real64'] * 2 + \
    ['datetime'] * 3 + ['boolean', 'string', 'char16', 'reference']
_SEQ_ECLS = ['prop', 'param', 'qual', 'qdecl']
# value kinds a keybinding / an inferred-type property value can be built of
_KB_KINDS = ('bool', 'int', 'float', 'str', 'dtstr', 'bytes', 'cimdt',
             'char16', 'ipath', 'cim:')
_INFER_KINDS = ('bool', 'str', 'dtstr', 'cimdt', 'char16', 'ipath', 'cpath',
                'inst', 'class', 'datetime', 'naive', 'timedelta', 'cim:')
_URIS = ['C.k=1', '//h/root:C.k="a"', '/:C.k=1', 'C', '', 'a b']
_DTSTRS = ['20240229120000.000000+060', '00000002000000.000000:000',
           '2024022912****.******+000', '20240229120000.000000+1000', '',
           'abc', '99999999235959.999999:000']


def _b(k, strat):
    "a branch of _near_branches: (kind, strategy of (kind, payload))"
    return (k, st.tuples(st.just(k), strat))


def _near_branches(t):
    "Value recipes that are (nearly) values of CIM type t, as a list"
    if t in S.INT_TYPES:
        lo, hi = S.INT_RANGE[t]
        iv = st.one_of(
            st.sampled_from([lo - 1, lo, hi, hi + 1, 0, 1, 7, -1, 300, -200]),
            st.integers(lo, hi), st.integers(lo - 2 ** 16, hi + 2 ** 16))
        others = [x for x in sorted(S.INT_TYPES) if x != t]
        return [
            _b('int', iv), _b('int', iv),
            _b('int', iv), _b('str', iv.map(str)),
            *[_b('cim:' + t2, st.one_of(st.integers(0, 127), S.cim_int(t2)))
              for t2 in others],
            _b('cim:' + t, S.cim_int(t)),
            _b('float', st.one_of(
                iv.map(float), st.sampled_from([1.5, -0.5, math.inf,
                                                math.nan]))),
            _b('str', st.one_of(iv.map(str), st.sampled_from(
                ['', ' 7 ', '0x10', '1.5', 'abc']))),
            _b('cim:real64', st.sampled_from([7.0, 300.0, 1.5, -1.0])),
            _b('bool', st.booleans())]
    if t in S.REAL_TYPES:
        other = 'real64' if t == 'real32' else 'real32'
        return [
            _b('float', st.one_of(st.sampled_from(
                [0.0, -0.0, 2.5, 1e300, 0.1, math.inf, math.nan]),
                st.floats())),
            _b('float', st.floats(width=32)),
            _b('int', st.one_of(st.integers(-9, 9),
                                 st.sampled_from([2 ** 53 + 1, 10 ** 400]))),
            _b('cim:' + other, S.cim_real(other)),
            _b('cim:' + other, S.cim_real(other)),
            _b('cim:' + t, S.cim_real(t)),
            _b('cim:uint8', st.integers(0, 255)),
            _b('cim:sint64', S.cim_int('sint64')),
            _b('str', st.sampled_from(['1.5', '-2.5e3', 'inf', 'nan', '',
                                        'abc', '7'])),
            _b('bool', st.booleans())]
    if t == 'datetime':
        return [
            _b('datetime', S.timestamp()),
            _b('naive', S.timestamp(offsets=False)),
            _b('timedelta', S.interval()),
            _b('cimdt', S.datetime_scalar()),
            _b('dtstr', S.datetime_scalar()), _b('dtstr', S.datetime_scalar()),
            _b('str', st.sampled_from(_DTSTRS)),
            _b('int', st.sampled_from([0, 20240229])),
            _b('cim:uint64', st.just(20240229120000))]
    if t == 'boolean':
        return [
            _b('bool', st.booleans()), _b('int', st.sampled_from([0, 1, 2])),
            _b('str', st.sampled_from(['', 'true', 'FALSE', 'x'])),
            _b('cim:uint8', st.sampled_from([0, 1])),
            _b('float', st.sampled_from([0.0, math.nan]))]
    if t in ('string', 'char16'):
        return [
            _b('str', S.cim_string(8)), _b('str', S.cim_string(8)),
            _b('char16', S.char16()),
            _b('bytes', st.sampled_from([b'', b'a', b'\xc3\xa4', b'\xff'])),
            _b('cimdt', S.datetime_scalar()),
            _b('int', st.sampled_from([0, 65])),
            _b('cim:uint16', st.just(65)),
            _b('inst', st.none())]
    if t == 'reference':
        return [
            _b('ipath', S.instance_path(depth=0)),
            _b('ipath', S.instance_path(depth=0)),
            _b('cpath', S.class_path()),
            _b('str', st.sampled_from(_URIS)),
            _b('bytes', st.just(b'C.k=1')),
            _b('int', st.just(1)), _b('inst', st.none())]
    raise ValueError(t)


def _kind_in(kind, kinds):
    return kinds is None or kind in kinds or \
        (kind.startswith('cim:') and 'cim:' in kinds)


@functools.lru_cache(maxsize=None)
def _near_scalar(t, kinds=None):
    "scalar recipes for type t, only of the value kinds given"
    return st.one_of(*[s for k, s in _near_branches(t) if _kind_in(k, kinds)])


@functools.lru_cache(maxsize=None)
def _near_value(t, arr, kinds=None):
    "scalar / list / None recipe for an element of type t (arr: is array)"
    # kinds: the value is for a source object that infers the type from it
    sc = _near_scalar(t, kinds)
    lst = st.lists(st.one_of(sc, sc, sc, st.just(('none', None))),
                   max_size=3).map(lambda l: ('list', l))
    none = st.just(('none', None)) if kinds is None else sc
    if arr:
        return st.one_of(lst, lst, lst, lst, lst, lst, none, sc)
    return st.one_of(sc, sc, sc, sc, sc, sc, sc, sc, none, lst)


class _SeqSt:
    "the strategies of _seq_example, built once (building them is costly)"
    _inst = None

    def __init__(self):
        self.type = st.sampled_from(_SEQ_TYPES)
        self.arr = st.sampled_from([False, False, True])
        self.mask4 = st.integers(1, 15)
        self.mask5 = st.integers(1, 31)
        self.idx = st.integers(0, 1)
        self.ecls = st.sampled_from(_SEQ_ECLS)
        self.nsteps = st.integers(2, 8)
        self.name = st.sampled_from(_SEQ_NAMES)
        self.keyform = st.sampled_from(['asis', 'asis', 'lower', 'upper'])
        # (Hypothesis favours the first element of sampled_from)
        self.kind = st.sampled_from(
            ['upx'] * 7 + ['set'] * 3 + ['upd'] * 2 + ['item'] * 2 +
            ['itemp', 'retype', 'copyprop', 'del'] +
            ['eset'] * 3 + ['eretype', 'ecopy'])
        self.upx_src = st.sampled_from(
            ['inst', 'path', 'state', 'dict', 'tuples', 'kwargs', 'mixed',
             'nocase', 'path', 'path', 'inst', 'inst', 'state'])
        self.upd_src = st.sampled_from(['inst', 'dict', 'tuples', 'kwargs',
                                        'state', 'props'])
        self.flag4 = st.sampled_from([0, 0, 0, 1])
        self.flag3 = st.sampled_from([0, 0, 1])
        self.init = {}
        for t in S.ALL_TYPES:
            sc = S.scalar(t, ref_depth=0)
            self.init[t, False] = sc
            self.init[t, True] = S.array_of(sc, max_size=2)

    @classmethod
    def get(cls):
        if cls._inst is None:
            cls._inst = cls()
        return cls._inst


def _etype(cls, t):
    "qualifiers cannot have the type reference"
    return 'string' if t == 'reference' and cls in ('qual', 'qdecl') else t


def _pick(mask, pool, most):
    "up to `most` names of pool selected by the bits of mask"
    names = [n for b, n in enumerate(pool) if mask >> b & 1]
    k = mask % len(names)
    return (names[k:] + names[:k])[:most]


@st.composite
def _seq_example(draw):
    g = _SeqSt.get()
    insts = []
    for _ in range(2):
        props = []
        for n in _pick(draw(g.mask4), _SEQ_NAMES, 4):
            t, a = draw(g.type), draw(g.arr)
            props.append((n, t, a, draw(g.init[t, a])))
        insts.append(props)
    elems = []
    for _ in range(2):
        c, t, a = draw(g.ecls), draw(g.type), draw(g.arr)
        elems.append((c, _etype(c, t), a))
    # types as initially declared: used to aim the values of the steps
    ityp = [{n: (t, a) for n, t, a, _ in props} for props in insts]

    def aim(i, name):
        return ityp[i].get(name) or (draw(g.type), draw(g.arr))

    def items(i, kinds=None, scalars=False):
        out = []
        for n in _pick(draw(g.mask5), _SEQ_NAMES + ['Missing'], 3):
            t, a = aim(i, n)
            if scalars:
                v = draw(_near_scalar(t, _KB_KINDS))
            else:
                v = draw(_near_value(t, a, kinds))
            out.append((draw(g.keyform), n, v))
        return out

    steps = []
    for _ in range(draw(g.nsteps)):
        k = draw(g.kind)
        i = draw(g.idx)
        if k in ('set', 'item', 'copyprop', 'del'):
            n = draw(g.name)
            t, a = aim(i, n)
            if k in ('set', 'item'):
                steps.append((k, i, n, draw(_near_value(t, a))))
            else:
                steps.append((k, i, n))
        elif k == 'itemp':
            n = draw(g.name)
            t, a = draw(g.type), draw(g.arr)
            steps.append((k, i, n, t, a, draw(_near_value(t, a))))
        elif k == 'retype':
            n = draw(g.name)
            t = draw(g.type)
            steps.append((k, i, n, t, draw(_near_value(t, aim(i, n)[1]))))
        elif k == 'upx':
            src = draw(g.upx_src)
            if src == 'path':
                its = items(i, scalars=True)
            elif src == 'inst':
                its = items(i, _INFER_KINDS)
            elif src == 'state':
                its = []
            else:
                its = items(i)
            steps.append((k, i, src, its, draw(g.flag4)))
        elif k == 'upd':
            src = draw(g.upd_src)
            its = [] if src == 'state' else items(i, _INFER_KINDS)
            steps.append((k, i, src, its, draw(g.flag3)))
        elif k == 'eset':
            _, t, a = elems[i]
            steps.append((k, i, draw(_near_value(t, a))))
        elif k == 'eretype':
            t = _etype(elems[i][0], draw(g.type))
            steps.append((k, i, t, draw(_near_value(t, elems[i][2]))))
        else:
            steps.append((k, i))
    return (insts, elems, steps)


def typed_seq_strategy():
    return _seq_example()


def _same(a, b):
    "equal, and of exactly the same classes (NaN equals NaN)"
    if isinstance(a, list) or isinstance(b, list):
        return (isinstance(a, list) and isinstance(b, list) and
                len(a) == len(b) and all(_same(x, y) for x, y in zip(a, b)))
    if type(a) is not type(b):
        return False
    if isinstance(a, float):
        if math.isnan(a) or math.isnan(b):
            return math.isnan(a) and math.isnan(b)
        return a == b and math.copysign(1, a) == math.copysign(1, b)
    if isinstance(a, CIMDateTime):
        return a == b and str(a) == str(b)
    return a == b


def _keyform(form, name):
    return {'asis': name, 'lower': name.lower(), 'upper': name.upper()}[form]


def _new_elem(cls, t, a):
    if cls == 'prop':
        return CIMProperty('e', None, type=t, is_array=a)
    if cls == 'param':
        return CIMParameter('e', t, is_array=a)
    if cls == 'qual':
        return CIMQualifier('e', None, type=t)
    return CIMQualifierDeclaration('e', t, is_array=a)


def _seq_source(src, its, other):
    """
    Build the positional/keyword arguments of update()/update_existing() from
    the item recipes.  Returns (args, kwargs, [(key, value)...] as the source
    yields them, objects whose list values must not be shared).
    """
    pairs = [(_keyform(f, n), _vbuild(v)) for f, n, v in its]
    if src == 'dict':
        return (dict(pairs),), {}, pairs
    if src == 'tuples':
        return (pairs,), {}, pairs
    if src == 'kwargs':
        return (), dict(pairs), pairs
    if src == 'mixed':
        return (dict(pairs[:1]), pairs[1:2]), dict(pairs[2:]), pairs
    if src == 'nocase':
        from pywbem._nocasedict import NocaseDict
        return (NocaseDict(pairs),), {}, pairs
    if src == 'path':
        o = CIMInstanceName('Src', keybindings=pairs)
        return (o,), {}, list(o.items())
    if src == 'inst':
        o = CIMInstance('Src', properties=pairs)
        return (o,), {}, list(o.items())
    if src == 'props':
        ps = [CIMProperty(k, v) for k, v in pairs]
        return ([(p.name, p) for p in ps],), {}, [(p.name, p) for p in ps]
    if src == 'state':
        return (other,), {}, None
    raise ValueError(src)


class _Seq:
    "real objects + model of one typed_seq example"

    def __init__(self, ctx, insts, elems):
        self.ctx = ctx
        self.insts = []
        self.model = []     # per instance: {lower name: rec}
        for props in insts:
            ps = [CIMProperty(n, S.build_value(t, v), type=t, is_array=a)
                  for n, t, a, v in props]
            self.insts.append(CIMInstance('C', properties=ps))
            self.model.append({
                n.lower(): dict(name=n, type=t, is_array=a,
                                value=S.build_value(t, v))
                for n, t, a, v in props})
        self.elems = [_new_elem(*e) for e in elems]
        self.emodel = [dict(name='e', type=t,
                            is_array=None if c == 'qual' else a, value=None)
                       for c, t, a in elems]
        self.extra = []     # source objects of the current step
        self.frozen = []    # (copy source object, rec at the time of copy)
        self.failed = False

    def fail(self, sig, detail):
        self.failed = True
        self.ctx.fail(sig, detail)

    # -- model ------------------------------------------------------------

    @staticmethod
    def conv(rec, fresh):
        "model of giving `fresh` to the element rec: new rec or None=reject"
        try:
            v = cimvalue(fresh, rec['type'])
        except (TypeError, ValueError):
            return None
        return dict(rec, value=v)

    @staticmethod
    def rec_of(p):
        return dict(name=p.name, type=p.type, is_array=p.is_array,
                    value=p.value)

    def shape_ok(self, o):
        """
        The value setters do not compare the shape of the value with
        is_array, the constructors (and thus copy()) do: copy() is only
        called when the shapes agree.
        """
        a = getattr(o, 'is_array', None)
        items = o.value if isinstance(o.value, list) else [o.value]
        if getattr(o, 'embedded_object', None) or \
                any(isinstance(x, (CIMInstance, CIMClass)) for x in items):
            # embedded_object is inferred by the constructor from the value
            # and compared with the type and value; the setters do neither
            self.ctx.event('seq:copy-skipped-embedded-object')
            return False
        if a is None or o.value is None or isinstance(o.value, list) == a:
            return True
        self.ctx.event('seq:copy-skipped-shape-mismatch')
        return False

    # -- checks -----------------------------------------------------------

    def all_elements(self):
        for i, inst in enumerate(self.insts):
            for p in inst.properties.values():
                yield 'inst%d.%s' % (i, p.name), p
        for e, o in enumerate(self.elems):
            yield 'elem%d' % e, o

    def check(self, route, rejected):
        "True if the state is as the property and the model say"
        ctx = self.ctx
        # 1. exactly the class of the CIM type (property statement)
        for where, o in self.all_elements():
            v = o.value
            for item in (v if isinstance(v, list) else [v]):
                if _class_ok(o.type, item, True):
                    continue
                if o.type in ('string', 'char16') and \
                        not isinstance(item, (bytes, str)):
                    # known finding of sub-check cimvalue (non-text object
                    # kept for a string type); the model check below still
                    # demands that it is what a fresh cimvalue() gives
                    ctx.event('seq:known-nontext-held-for-string')
                    continue
                grp = ('int' if o.type in S.INT_TYPES else
                       'real' if o.type in S.REAL_TYPES else
                       'string' if o.type in ('string', 'char16')
                       else o.type)
                self.fail('typed-seq:%s:holds-wrong-class-for-%s' %
                         (route, grp),
                         '%s (%s, type %r) holds %r after %s' %
                         (where, type(o).__name__, o.type, item, route))
                return False
        # 2. model
        what = 'state-after-rejection-differs-from-model' if rejected \
            else 'differs-from-fresh-conversion'
        for i, inst in enumerate(self.insts):
            m = self.model[i]
            have = sorted(k.lower() for k in inst.properties.keys())
            if have != sorted(m):
                self.fail('typed-seq:%s:property-set-differs' % route,
                         'inst%d has %r, model %r' % (i, have, sorted(m)))
                return False
            for p in inst.properties.values():
                r = m[p.name.lower()]
                if p.type != r['type'] or p.is_array != r['is_array'] or \
                        not _same(p.value, r['value']):
                    self.fail('typed-seq:%s:%s' % (route, what),
                             'inst%d.%s is (%r, array %r) %r, fresh '
                             'conversion gives (%r, array %r) %r' %
                             (i, p.name, p.type, p.is_array, p.value,
                              r['type'], r['is_array'], r['value']))
                    return False
        for e, o in enumerate(self.elems):
            r = self.emodel[e]
            if o.type != r['type'] or not _same(o.value, r['value']) or \
                    (r['is_array'] is not None and
                     o.is_array != r['is_array']):
                self.fail('typed-seq:%s:%s' % (route, what),
                         'elem%d %s is (%r) %r, fresh conversion gives '
                         '(%r) %r' % (e, type(o).__name__, o.type, o.value,
                                      r['type'], r['value']))
                return False
        for o, r in self.frozen:
            if o.type != r['type'] or not _same(o.value, r['value']):
                self.fail('typed-seq:%s:original-changed-through-copy' % route,
                         '%r should still hold %r' % (o, r['value']))
                return False
        # 3. no list shared between two elements / an element and the source
        seen = {}
        objs = list(self.all_elements()) + \
            [('source', o) for o in self.extra] + \
            [('copied-from', o) for o, _ in self.frozen]
        for where, o in objs:
            v = o if isinstance(o, list) else o.value
            if isinstance(v, list):
                w = seen.setdefault(id(v), (where, id(o)))
                if w[1] != id(o):
                    self.fail('typed-seq:%s:array-value-shared-between-'
                             'objects' % route,
                             '%s and %s hold the same list object %r' %
                             (w[0], where, v))
                    return False
        return True

    # -- steps ------------------------------------------------------------

    def run(self, step):
        """
        Run one step on the real objects and on the model; returns (route,
        rejected) or None if the step does not apply.
        """
        k, i = step[0], step[1]
        if k in ('set', 'retype', 'copyprop', 'del'):
            inst, m = self.insts[i], self.model[i]
            n = step[2]
            if n.lower() not in m:
                return None
            p = inst.properties[n]
            r = m[n.lower()]
            if k == 'del':
                del inst[n.upper()]
                del m[n.lower()]
                return 'del', False
            if k == 'copyprop':
                if not self.shape_ok(p):
                    return None
                c = p.copy()
                self.frozen = [(p, dict(r))]
                inst.properties[n] = c
                return 'copy', False
            return self.assign(p, r, m, n.lower(), step)
        if k in ('eset', 'eretype', 'ecopy'):
            o, r = self.elems[i], self.emodel[i]
            if k == 'ecopy':
                if not self.shape_ok(o):
                    return None
                self.frozen = [(o, dict(r))]
                self.elems[i] = o.copy()
                return 'copy', False
            return self.assign(o, r, self.emodel, i, step)
        if k in ('item', 'itemp'):
            return self.setitem(step)
        return self.update(step)

    def assign(self, o, r, mdict, mkey, step):
        "value setter, alone or after the type setter"
        if step[0] in ('retype', 'eretype'):
            route, newtype, vrec = 'type+value-setter', step[-2], step[-1]
            r2 = dict(r, type=newtype)
        else:
            route, newtype, vrec = 'value-setter', None, step[-1]
            r2 = r
        new = self.conv(r2, _vbuild(vrec))
        value = _vbuild(vrec)
        if isinstance(value, list):
            self.extra.append(value)
        oldtype = o.type
        if newtype is not None:
            o.type = newtype
        try:
            o.value = value
        except (TypeError, ValueError):
            if newtype is not None:
                o.type = oldtype
            if new is not None:
                self.fail('typed-seq:%s:rejects-what-fresh-conversion-'
                              'accepts' % route,
                              '%s.value = %r (type %r)' %
                              (type(o).__name__, value, r2['type']))
                return None
            return route, True
        if new is None:
            self.fail('typed-seq:%s:accepts-what-fresh-conversion-'
                          'rejects' % route,
                          '%s.value = %r (type %r) now %r' %
                          (type(o).__name__, value, r2['type'], o.value))
            return None
        mdict[mkey] = new
        return route, False

    def setitem(self, step):
        k, i, n = step[:3]
        inst, m = self.insts[i], self.model[i]

        def build():
            if k == 'itemp':
                return CIMProperty(n, _vbuild(step[5]), type=step[3],
                                   is_array=step[4])
            return _vbuild(step[3])
        route = 'setitem'
        try:
            fresh = build()
            fp = fresh if isinstance(fresh, CIMProperty) \
                else CIMProperty(n, fresh)
            new = self.rec_of(fp)
        except (TypeError, ValueError):
            new = None
        try:
            value = build()
        except (TypeError, ValueError):
            return None        # the CIMProperty offered cannot be built
        if isinstance(value, (list, CIMProperty)):
            self.extra.append(value)
        try:
            inst[n] = value
        except (TypeError, ValueError):
            if new is not None:
                self.fail('typed-seq:setitem:rejects-what-fresh-'
                              'CIMProperty-accepts', 'inst[%r] = %r' %
                              (n, value))
                return None
            return route, True
        if new is None:
            self.fail('typed-seq:setitem:accepts-what-fresh-CIMProperty-'
                          'rejects', 'inst[%r] = %r now %r' %
                          (n, value, inst.properties[n]))
            return None
        m[n.lower()] = new
        return route, False

    def update(self, step):
        k, i, src, its, flag = step
        inst, m = self.insts[i], self.model[i]
        if k == 'upd' and src == 'state':
            flag = 0        # update(self) / properties = self: not modelled
        j = i if flag else 1 - i
        try:
            _, _, fresh_pairs = _seq_source(src, its, None)
            args, kwargs, _ = _seq_source(src, its, self.insts[j])
        except (TypeError, ValueError):
            self.ctx.event('seq:source-not-buildable')
            return None
        if src == 'state':
            fresh_pairs = [(r['name'], r['value'])
                           for r in self.model[j].values()]
        for a in args:
            if isinstance(a, CIMInstance):
                self.extra.extend(a.properties.values())
        for a in list(args) + [kwargs]:
            if isinstance(a, dict):
                self.extra.extend(v for v in a.values()
                                  if isinstance(v, list))
            elif isinstance(a, list):
                self.extra.extend(
                    x if isinstance(x, CIMProperty) else x[1] for x in a
                    if isinstance(x, CIMProperty) or isinstance(x[1], list))
        # model: in the order the source yields its items, up to the first
        # rejected one
        if k == 'upx':
            route = 'update_existing(%s)' % src
            replace = False
        else:
            replace = bool(flag) and src != 'state'
            route = ('properties-setter(%s)' if replace else 'update(%s)') \
                % src
        mnew = {} if replace else dict(m)
        expect_reject = False
        for key, v in fresh_pairs:
            lk = key.lower()
            if k == 'upx':
                if lk not in mnew:
                    continue
                new = self.conv(mnew[lk], v)
                if new is None or not _same(v, new['value']):
                    # the value is not yet an object of the target type
                    self.ctx.event('seq:upx-value-needs-conversion:' + (
                        'from-cim-object' if src in ('path', 'inst', 'state')
                        else 'from-plain-mapping'))
            else:
                try:
                    fp = v if isinstance(v, CIMProperty) \
                        else CIMProperty(key, v)
                    new = self.rec_of(fp)
                except (TypeError, ValueError):
                    new = None
            if new is None:
                expect_reject = True
                break
            mnew[lk] = new
        try:
            if k == 'upx':
                inst.update_existing(*args, **kwargs)
            elif replace:
                inst.properties = args[0] if args else kwargs
            else:
                inst.update(*args, **kwargs)
        except (TypeError, ValueError):
            rejected = True
        else:
            rejected = False
        if rejected != expect_reject:
            self.fail(
                'typed-seq:%s:%s' % (route, 'rejects-what-fresh-conversion-'
                                     'accepts' if rejected else
                                     'accepts-what-fresh-conversion-rejects'),
                '%s with %r %r on %r' % (route, args, kwargs, inst))
            return None
        self.model[i] = mnew
        return route, rejected


def typed_seq_oracle(ctx, ex):
    insts, elems, steps = ex
    seq = _Seq(ctx, insts, elems)
    classes = set()
    ok = seq.check('init', False)
    nontriv = False
    for step in steps:
        if not ok:
            break
        seq.extra = []
        res = seq.run(step)
        if res is None:
            ctx.event('seq:step-not-applicable')
            if seq.failed:
                break
            continue
        route, rejected = res
        ctx.event('seq:step:' + route)
        ctx.event('seq:rejected' if rejected else 'seq:accepted')
        classes.add('seq:has:' + route.split('(')[0])
        if route.startswith('update_existing') and not rejected:
            nontriv = True
        ok = seq.check(route, rejected)
    ctx.case(nontrivial=nontriv or len(classes) > 1, classes=sorted(classes))


SUBCHECKS = [
    Sub('int_exhaustive', enumerate=int_exhaustive, quick=(16, 0),
        thorough=(16, 0)),
    Sub('int_random', strategy=int_random_strategy, oracle=int_random_oracle,
        quick=(4, 3000), thorough=(16, 40000)),
    Sub('cimvalue', strategy=cimvalue_strategy, oracle=cimvalue_oracle,
        quick=(16, 1500), thorough=(16, 40000)),
    Sub('datetime', strategy=datetime_strategy, oracle=datetime_oracle,
        quick=(8, 2000), thorough=(16, 40000)),
    Sub('datetime_offsets', enumerate=datetime_offsets, quick=(8, 0),
        thorough=(16, 0)),
    Sub('reals', strategy=reals_strategy, oracle=reals_oracle,
        quick=(8, 4000), thorough=(16, 100000)),
    Sub('typed_seq', strategy=typed_seq_strategy, oracle=typed_seq_oracle,
        quick=(8, 300), thorough=(16, 8000)),
]
SUBCHECKS[0].replay = int_replay
SUBCHECKS[4].replay = datetime_offsets_replay
