"""
CIM-XML server facade in front of a FakedWBEMConnection (DESIGN.md 4.4,
Appendix A): decodes the request the real WBEMConnection sent, executes it on
the mock repository through the mock's operation entry points, and encodes
the reply as DSP0200 prescribes.  The decode/encode tables are harness code
written from DSP0200/DSP0201; they use pywbem only for leaf objects
(TupleParser.parse_any on INSTANCENAME/INSTANCE/CLASS/... elements and
tocimxml() of result objects).
"""

import copy

from lxml import etree

import pywbem
from pywbem import (CIMInstance, CIMInstanceName, CIMClass, CIMClassName,
                    CIMQualifierDeclaration, CIMParameter, CIMError,
                    CIMDateTime, _cim_xml)
from pywbem._cim_types import atomic_to_cim_xml, cimtype, CIMType
from pywbem._tupleparse import TupleParser
from pywbem._tupletree import xml_to_tupletree_sax

from .xmlserver import Resp
from .responses import KIND

BOOL_PARAMS = {'localonly', 'deepinheritance', 'includequalifiers',
               'includeclassorigin', 'continueonerror',
               'returnqueryresultclass'}
INT_PARAMS = {'operationtimeout', 'maxobjectcount'}
STR_PARAMS = {'role', 'resultrole', 'qualifiername', 'querylanguage', 'query',
              'filterquerylanguage', 'filterquery', 'enumerationcontext'}
HOST = 'facadehost:5988'


class FacadeError(Exception):
    "the facade cannot decode a request (harness or request problem)"


def _leaf(el):
    "parse one CIM-XML element into a pywbem object"
    xml = etree.tostring(el, encoding='unicode')
    r = TupleParser().parse_any(xml_to_tupletree_sax(xml, 'facade'))
    if isinstance(r, tuple) and len(r) == 3 and isinstance(r[1], dict):
        r = r[2]
    return r


def _text(el):
    return el.text or ''


_FLAVORS = ('OVERRIDABLE', 'TOSUBCLASS', 'TOINSTANCE', 'TRANSLATABLE',
            'PROPAGATED')


def undefault(obj, el):
    """
    pywbem's parser reports the DTD default for an absent attribute; a server
    treats an absent attribute as 'unspecified'.  Reset attributes that are
    absent in the element to None (recursively, in document order).
    """
    if isinstance(obj, pywbem.CIMQualifier):
        for a in _FLAVORS:
            if el.get(a) is None:
                setattr(obj, a.lower(), None)
        return
    quals = el.findall('QUALIFIER')
    if hasattr(obj, 'qualifiers'):
        for q, qel in zip(obj.qualifiers.values(), quals):
            undefault(q, qel)
    if isinstance(obj, (pywbem.CIMProperty, pywbem.CIMMethod)):
        if el.get('PROPAGATED') is None:
            obj.propagated = None
    if isinstance(obj, pywbem.CIMMethod):
        pels = [c for c in el if c.tag.startswith('PARAMETER')]
        for p, pel in zip(obj.parameters.values(), pels):
            undefault(p, pel)
    if isinstance(obj, (CIMInstance, CIMClass)):
        pels = [c for c in el if c.tag.startswith('PROPERTY')]
        for p, pel in zip(obj.properties.values(), pels):
            undefault(p, pel)
    if isinstance(obj, CIMClass):
        for m, mel in zip(obj.methods.values(), el.findall('METHOD')):
            undefault(m, mel)


def decode_iparam(name, child):
    "IPARAMVALUE child element -> Python value the operation was called with"
    lname = name.lower()
    if child is None:
        return None
    tag = child.tag
    if lname in BOOL_PARAMS:
        if tag != 'VALUE' or _text(child).upper() not in ('TRUE', 'FALSE'):
            raise FacadeError('boolean parameter %s: %s %r' %
                              (name, tag, child.text))
        return _text(child).upper() == 'TRUE'
    if lname in INT_PARAMS:
        if tag != 'VALUE':
            raise FacadeError('integer parameter %s: %s' % (name, tag))
        return int(_text(child))
    if lname in STR_PARAMS:
        if tag != 'VALUE':
            raise FacadeError('string parameter %s: %s' % (name, tag))
        return _text(child)
    if lname == 'propertylist':
        if tag != 'VALUE.ARRAY':
            raise FacadeError('PropertyList: %s' % tag)
        return [_text(v) for v in child]
    if tag in ('CLASSNAME', 'INSTANCENAME', 'INSTANCE', 'CLASS',
               'QUALIFIER.DECLARATION', 'VALUE.NAMEDINSTANCE'):
        obj = _leaf(child)
        if tag in ('INSTANCE', 'CLASS'):
            undefault(obj, child)
        elif tag == 'VALUE.NAMEDINSTANCE':
            undefault(obj, child.find('INSTANCE'))
        elif tag == 'QUALIFIER.DECLARATION':
            for a in _FLAVORS[:4]:
                if child.get(a) is None:
                    setattr(obj, a.lower(), None)
        return obj
    raise FacadeError('parameter %s: unexpected element %s' % (name, tag))


def decode_paramvalue(pv):
    "PARAMVALUE element -> CIMParameter"
    name = pv.get('NAME')
    ptype = pv.get('PARAMTYPE')
    emb = pv.get('EmbeddedObject') or pv.get('EMBEDDEDOBJECT')
    kids = list(pv)
    if not kids:
        return CIMParameter(name, ptype or 'string', value=None,
                            embedded_object=emb)
    child = kids[0]
    tp = TupleParser()

    def scalar(el):
        if el.tag == 'VALUE.NULL':
            return None
        if el.tag == 'VALUE.REFERENCE':
            return _leaf(el[0])
        text = _text(el)
        if emb:
            return tp.parse_embeddedObject(text)
        if ptype in (None, 'string'):
            return text
        return tp.unpack_single_value(text, ptype)
    if child.tag in ('VALUE.ARRAY', 'VALUE.REFARRAY'):
        value = [scalar(e) for e in child]
        return CIMParameter(name, ptype or 'string', value=value,
                            is_array=True, embedded_object=emb)
    return CIMParameter(name, ptype or 'string', value=scalar(child),
                        is_array=False, embedded_object=emb)


# ---------------------------------------------------------------------------
# encoding

def _with_host(path):
    p = path.copy()
    if p.host is None:
        p.host = HOST
    return p


def _inst_el(inst):
    return inst.tocimxml(ignore_path=True)


def _local(path):
    p = path.copy()
    p.host = None
    p.namespace = None
    return p


def encode_objects(name, objs):
    "IRETURNVALUE children for operation `name` from the mock's objects"
    kind = KIND[name]
    out = []
    if kind == 'insts_named':
        for i in objs:
            out.append(_cim_xml.VALUE_NAMEDINSTANCE(_local(i.path).tocimxml(),
                                                    _inst_el(i)))
    elif kind in ('inames', 'iname'):
        for p in objs:
            out.append(_local(p).tocimxml())
    elif kind == 'inst':
        for i in objs:
            out.append(_inst_el(i))
    elif kind in ('objs_withpath', 'objnames'):
        for _tag, _attrs, obj in objs:
            if isinstance(obj, CIMInstance):
                out.append(_cim_xml.VALUE_OBJECTWITHPATH(
                    _with_host(obj.path).tocimxml(), _inst_el(obj)))
            elif isinstance(obj, tuple):
                cpath, klass = obj
                out.append(_cim_xml.VALUE_OBJECTWITHPATH(
                    _with_host(cpath).tocimxml(), klass.tocimxml()))
            elif isinstance(obj, (CIMInstanceName, CIMClassName)):
                out.append(_cim_xml.OBJECTPATH(_with_host(obj).tocimxml()))
            else:
                raise FacadeError('assoc result %r' % (obj,))
    elif kind == 'query':
        for i in objs:
            out.append(_cim_xml.VALUE_OBJECT(_inst_el(i)))
    elif kind in ('classes', 'class'):
        for c in objs:
            out.append(c.tocimxml())
    elif kind == 'classnames':
        for c in objs:
            cn = c.classname if isinstance(c, CIMClassName) else c
            out.append(_cim_xml.CLASSNAME(cn))
    elif kind in ('qualdecls', 'qualdecl'):
        for q in objs:
            # a conforming server never writes the pseudo scope ANY as an
            # attribute (pywbem's encoder does for ANY=False: known finding
            # of C01/C03, not re-reported here)
            q = q.copy()
            sc = dict((k.upper(), v) for k, v in q.scopes.items())
            if 'ANY' in sc and not sc['ANY']:
                del sc['ANY']
                q.scopes = sc
            out.append(q.tocimxml())
    elif kind == 'open_insts':
        for i in objs:
            out.append(_cim_xml.VALUE_INSTANCEWITHPATH(
                _with_host(i.path).tocimxml(), _inst_el(i)))
    elif kind == 'open_paths':
        for p in objs:
            out.append(_with_host(p).tocimxml())
    elif kind == 'open_query':
        for i in objs:
            out.append(_inst_el(i))
    else:
        raise FacadeError('no encoder for %s' % name)
    return out


def _value_el(v, is_ref=False):
    def one(x):
        if x is None:
            return _cim_xml.VALUE_NULL()
        if isinstance(x, (CIMInstanceName, CIMClassName)):
            return _cim_xml.VALUE_REFERENCE(x.tocimxml())
        if isinstance(x, CIMInstance):
            return _cim_xml.VALUE(x.tocimxml(ignore_path=True).toxml())
        if isinstance(x, CIMClass):
            return _cim_xml.VALUE(x.tocimxml().toxml())
        return _cim_xml.VALUE(atomic_to_cim_xml(x))
    if isinstance(v, list):
        if is_ref:
            return _cim_xml.VALUE_REFARRAY([one(x) for x in v])
        return _cim_xml.VALUE_ARRAY([one(x) for x in v])
    return one(v)


def _type_of(v):
    "(CIM type name, embedded) of a result value"
    probe = v
    if isinstance(v, list):
        probe = next((x for x in v if x is not None), None)
    if probe is None:
        return None, None
    if isinstance(probe, CIMInstance):
        return 'string', 'instance'
    if isinstance(probe, CIMClass):
        return 'string', 'object'
    return cimtype(probe), None


def wrap(rsp_el):
    return ('<?xml version="1.0" encoding="utf-8" ?>\n' + _cim_xml.CIM(
        _cim_xml.MESSAGE(_cim_xml.SIMPLERSP(rsp_el), '1001', '1.0'),
        '2.0', '2.0').toxml()).encode('utf-8')


class Facade:
    """
    responder for ScriptedAdapter: executes requests on `mock`.
    `seen` records (methodname, namespace, params dict) per request.
    """

    def __init__(self, mock):
        self.mock = mock
        self.seen = []
        self.last = None    # summary of the last IMETHODRESPONSE sent

    def __call__(self, req):
        root = etree.fromstring(req.body)
        im = root.find('.//IMETHODCALL')
        if im is not None:
            return Resp(self.imethodcall(im))
        mc = root.find('.//METHODCALL')
        if mc is not None:
            return Resp(self.methodcall(mc))
        raise FacadeError('neither IMETHODCALL nor METHODCALL')

    def imethodcall(self, im):
        name = im.get('NAME')
        lnp = im.find('LOCALNAMESPACEPATH')
        namespace = '/'.join(n.get('NAME') for n in lnp.findall('NAMESPACE'))
        params = {}
        for ip in im.findall('IPARAMVALUE'):
            kids = list(ip)
            if len(kids) > 1:
                raise FacadeError('IPARAMVALUE with %d children' % len(kids))
            pname = ip.get('NAME')
            if pname in params:
                raise FacadeError('duplicate IPARAMVALUE %s' % pname)
            params[pname] = decode_iparam(pname, kids[0] if kids else None)
        self.seen.append((name, namespace, copy.deepcopy(params)))
        try:
            result = self.mock._mock_imethodcall(name, namespace, **params)
        except CIMError as exc:
            return wrap(_cim_xml.IMETHODRESPONSE(
                name, _cim_xml.ERROR(str(exc.status_code),
                                     exc.status_description)))
        children = []
        self.last = {'name': name, 'n': 0, 'eos': None}
        for item in result or []:
            if item[0] == 'IRETURNVALUE':
                self.last['n'] = len(item[2])
                children.append(_cim_xml.IRETURNVALUE(
                    encode_objects(name, item[2])))
            elif item[0] == 'EndOfSequence':
                eos = item[2]
                if isinstance(eos, str):    # the mock hands out text
                    if eos.upper() not in ('TRUE', 'FALSE'):
                        raise FacadeError('EndOfSequence %r' % (eos,))
                    eos = eos.upper() == 'TRUE'
                self.last['eos'] = bool(eos)
                children.append(_cim_xml.PARAMVALUE(
                    'EndOfSequence',
                    _cim_xml.VALUE('TRUE' if eos else 'FALSE'),
                    'boolean'))
            elif item[0] == 'EnumerationContext':
                children.append(_cim_xml.PARAMVALUE(
                    'EnumerationContext',
                    None if item[2] is None else _cim_xml.VALUE(item[2]),
                    'string'))
            elif item[0] == 'QueryResultClass':
                if item[2] is not None:
                    children.append(_cim_xml.PARAMVALUE(
                        'QueryResultClass', item[2].tocimxml()))
            else:
                raise FacadeError('result item %r' % (item[0],))
        return wrap(_cim_xml.IMETHODRESPONSE(name, children))

    def methodcall(self, mc):
        name = mc.get('NAME')
        target = None
        for tag in ('LOCALCLASSPATH', 'LOCALINSTANCEPATH'):
            el = mc.find(tag)
            if el is not None:
                target = _leaf(el)
        if target is None:
            raise FacadeError('METHODCALL without target')
        plist = [decode_paramvalue(pv) for pv in mc.findall('PARAMVALUE')]
        self.seen.append((name, copy.deepcopy(target),
                          copy.deepcopy(plist)))
        try:
            retval, outparams = self.mock._mock_methodcall(name, target,
                                                           Params=plist)
        except CIMError as exc:
            return wrap(_cim_xml.METHODRESPONSE(
                name, _cim_xml.ERROR(str(exc.status_code),
                                     exc.status_description)))
        children = []
        if retval is not None:
            t, emb = _type_of(retval)
            children.append(_cim_xml.RETURNVALUE(
                _value_el(retval), t))
        for pname, pvalue in outparams.items():
            t, emb = _type_of(pvalue)
            children.append(_cim_xml.PARAMVALUE(
                pname, None if pvalue is None else
                _value_el(pvalue, is_ref=(t == 'reference')), t,
                embedded_object=emb))
        return wrap(_cim_xml.METHODRESPONSE(name, children))
