"""
Common runner for the pywbem property checks (see DESIGN.md section 2).

A property module ``pbt/cNN.py`` exports ``PROPERTY`` (id), ``RULE`` (text for
the evidence file), ``ASSUMPTIONS`` (list of str) and ``SUBCHECKS`` (list of
``Sub``).  A ``Sub`` is one generated check:

* ``Sub(name, strategy=..., oracle=...)``: ``oracle(ctx, example)`` is called
  for every example drawn from ``strategy`` (plain data: recipes).
* ``Sub(name, machine=Cls)``: history check.  ``Cls(ctx)`` offers
  ``init_strategy()``, ``setup(init)``, ``step_strategy()`` (may depend on the
  current state), ``apply(step)`` (runs the step + invariants) and
  ``teardown()``.  The example is ``(init, [steps...])`` - plain data again,
  so that a replay needs no Hypothesis.
* ``Sub(name, enumerate=fn)``: ``fn(ctx, shard, nshards)`` enumerates a finite
  domain itself and calls ``ctx.case`` / ``ctx.fail``.

Oracles never raise for a property violation; they call ``ctx.fail(signature,
detail)``.  The runner collects the failures per *signature* (root-cause key),
continues the search behind them, and afterwards shrinks one example per
unknown signature (thorough tier).  Signatures listed as ``known:`` in
``known-findings.txt`` are counted and reported as KNOWN-FINDING.
"""

import os
import sys
import re
import json
import time
import base64
import pickle
import signal
import hashlib
import zlib
import traceback
import linecache
import importlib
import multiprocessing
from collections import Counter

VERIF = os.path.dirname(os.path.dirname(os.path.abspath(__file__)))
REPO = os.environ.get('PYWBEM_REPO', '/repo')
KNOWN_FILE = os.path.join(VERIF, 'known-findings.txt')
# Runs against another tree than /repo (mutation/seeded-change testing) must
# not overwrite the evidence and replays of the real tree
if os.environ.get('VERIF_OUT'):
    OUT = os.environ['VERIF_OUT']
elif os.path.realpath(REPO) != '/repo':
    OUT = os.path.join('/tmp', 'verif_out_' + os.path.basename(
        os.path.realpath(REPO)))
else:
    OUT = VERIF
NPROC = int(os.environ.get('VERIF_NPROC', '16'))

# The code under test is always imported from the working tree
if REPO not in sys.path:
    sys.path.insert(0, REPO)


class CaseTimeout(BaseException):
    "Raised by the SIGALRM watchdog inside a case"


class HarnessError(Exception):
    "The harness (not pywbem) is wrong"


class _ShrinkHit(Exception):
    "Raised in the shrink pass when the targeted signature is hit"


class Sub:
    def __init__(self, name, strategy=None, oracle=None, machine=None,
                 enumerate=None, quick=(16, 200), thorough=(16, 4000),
                 steps=(30, 60), case_timeout=60, timeout_is_violation=False,
                 budget=(90, 1500)):
        self.name = name
        self.strategy = strategy
        self.oracle = oracle
        self.machine = machine
        self.enumerate = enumerate
        self.quick = quick            # (shards, examples per shard)
        self.thorough = thorough
        self.steps = steps            # max steps per history (quick, thorough)
        self.case_timeout = case_timeout
        self.timeout_is_violation = timeout_is_violation
        self.budget = budget          # soft wall-clock stop (s) per shard

    def shards(self, tier):
        return (self.quick if tier == 'quick' else self.thorough)[0]

    def examples(self, tier):
        return (self.quick if tier == 'quick' else self.thorough)[1]


def slug(text, maxlen=100):
    s = re.sub(r'[^A-Za-z0-9_.@:=+-]+', '_', text).strip('_')
    if len(s) > maxlen:
        s = s[:maxlen - 9] + '_' + hashlib.sha1(text.encode()).hexdigest()[:8]
    return s


def fingerprint(obj):
    try:
        data = repr(obj).encode('utf-8', 'backslashreplace')
    except Exception:  # pylint: disable=broad-except
        data = pickle.dumps(obj)
    return hashlib.sha1(data).digest()[:8]


def short_repr(obj, maxlen=600):
    try:
        r = repr(obj)
    except Exception as exc:  # pylint: disable=broad-except
        r = '<repr failed: %r>' % (exc,)
    if len(r) > maxlen:
        r = r[:maxlen] + '...(%d chars)' % len(r)
    return r


_PKG_DIRS = None


def _pkg_dirs():
    global _PKG_DIRS
    if _PKG_DIRS is None:
        _PKG_DIRS = (os.path.join(os.path.realpath(REPO), 'pywbem') + os.sep,
                     os.path.join(os.path.realpath(REPO), 'pywbem_mock') +
                     os.sep)
    return _PKG_DIRS


def exc_signature(exc, prefix=''):
    """
    Root-cause key of an exception: type + innermost frame inside
    pywbem/pywbem_mock (module:function:source text).  None if no such frame
    exists (then the exception was raised by harness or library code only).
    """
    tb = exc.__traceback__
    frames = traceback.extract_tb(tb)
    inner = None
    for fr in frames:
        fn = os.path.realpath(fr.filename)
        if fn.startswith(_pkg_dirs()):
            inner = fr
    if inner is None:
        return None
    mod = os.path.basename(inner.filename)[:-3]
    line = (inner.line or '').strip()
    line = re.sub(r'\s+', '', line)[:50]
    return slug('%s%s@%s:%s:%s' % (prefix, type(exc).__name__, mod,
                                    inner.name, line), 140)


def exc_detail(exc, limit=6):
    return ''.join(traceback.format_exception(type(exc), exc,
                                              exc.__traceback__)[-limit:])


class Ctx:
    "Per-shard recording context handed to oracles"

    def __init__(self, prop, sub, tier, seed, shard, nshards, known_sigs,
                 target_sig=None):
        self.prop = prop
        self.sub = sub
        self.tier = tier
        self.seed = seed
        self.shard = shard
        self.nshards = nshards
        self.known = known_sigs
        self.target_sig = target_sig
        self.evaluations = 0
        self.nontrivial = set()
        self.classes = Counter()
        self.failures = {}      # sig -> dict(detail, example, size)
        self.hits = Counter()   # sig -> count (known and unknown)
        self.samples = []
        self.inconclusive = 0
        self.skipped = 0
        self.current = None     # example being evaluated
        self.n_examples = 0
        self.deadline = None
        self.steps = 30
        self.scratch = None

    # ---- recording API used by oracles ----

    def case(self, key=None, nontrivial=False, classes=(), sample=None):
        "One oracle evaluation"
        self.evaluations += 1
        for c in classes:
            self.classes[c] += 1
        if nontrivial:
            fp = fingerprint(self.current if key is None else key)
            if fp not in self.nontrivial:
                self.nontrivial.add(fp)
                n = len(self.nontrivial)
                # keep a few spread samples: 1st, 2nd, then powers of 4
                if n <= 2 or (n & (n - 1) == 0 and n.bit_length() % 2 == 1):
                    if len(self.samples) < 8:
                        self.samples.append(
                            short_repr(sample if sample is not None else
                                       (self.current if key is None else key),
                                       500))

    def event(self, name, n=1):
        self.classes[name] += n

    def fail(self, sig, detail, example=None):
        "Record a violation of the property with root-cause key `sig`"
        sig = self.sub + '/' + slug(sig, 160)
        self.hits[sig] += 1
        ex = self.current if example is None else example
        size = len(short_repr(ex, 10 ** 6))
        old = self.failures.get(sig)
        if old is None or size < old['size']:
            self.failures[sig] = dict(detail=str(detail)[:4000], example=ex,
                                      size=size,
                                      batch=getattr(self, 'batch', None))
        if self.target_sig is not None and sig == self.target_sig:
            raise _ShrinkHit(sig)

    def fail_exc(self, exc, what='unexpected', example=None):
        """
        Record an exception that the property does not allow.  If no pywbem
        frame is on the traceback it is a harness problem.
        """
        sig = exc_signature(exc)
        if sig is None:
            raise HarnessError('exception without pywbem frame: %r' %
                               (exc,)) from exc
        self.fail(what + ':' + sig, exc_detail(exc), example)

    def inconclusive_case(self, why=''):
        self.inconclusive += 1
        self.classes['inconclusive:' + why] += 1

    def result(self):
        fails = {}
        for sig, f in self.failures.items():
            fails[sig] = dict(detail=f['detail'], size=f['size'],
                              example_repr=short_repr(f['example'], 3000),
                              example_b64=base64.b64encode(
                                  pickle.dumps(f['example'], 4)).decode())
        return dict(sub=self.sub, shard=self.shard, seed=self.seed,
                    evaluations=self.evaluations,
                    nontrivial=self.nontrivial, classes=self.classes,
                    failures=fails, hits=self.hits, samples=self.samples,
                    inconclusive=self.inconclusive, skipped=self.skipped)


def _alarm_handler(signum, frame):
    raise CaseTimeout()


def _hyp_settings(n, shrink):
    from hypothesis import settings, HealthCheck, Phase
    phases = (Phase.generate, Phase.shrink) if shrink else (Phase.generate,)
    return settings(max_examples=n, database=None, deadline=None,
                    derandomize=False, report_multiple_bugs=False,
                    suppress_health_check=list(HealthCheck), phases=phases,
                    print_blob=False)


def _run_one(ctx, sub, example, machine_cls=None):
    """
    Evaluate one example under the watchdog; unexpected exceptions coming out
    of pywbem become failures, others harness errors.
    """
    ctx.current = example
    signal.alarm(sub.case_timeout)
    try:
        try:
            sub.oracle(ctx, example)
        finally:
            signal.alarm(0)
    except CaseTimeout:
        if sub.timeout_is_violation:
            ctx.fail('nontermination', 'case did not finish within %d s' %
                     sub.case_timeout)
        else:
            ctx.inconclusive_case('timeout')
    except (_ShrinkHit, HarnessError, KeyboardInterrupt):
        raise
    except Exception as exc:  # pylint: disable=broad-except
        from hypothesis.errors import HypothesisException
        if isinstance(exc, HypothesisException):
            raise
        ctx.fail_exc(exc, 'unexpected')


def _run_history(ctx, sub, data, steps_max, replay=None):
    """
    Run one generated (or replayed) history through a machine.  The example
    recorded for failures is the history so far.
    """
    from hypothesis import strategies as st
    m = sub.machine(ctx)
    trace = [None, []]
    ctx.current = trace
    signal.alarm(sub.case_timeout)
    try:
        try:
            if replay is None:
                init = data.draw(m.init_strategy(), label='init')
                nsteps = data.draw(st.integers(1, steps_max), label='nsteps')
            else:
                init = replay[0]
                nsteps = len(replay[1])
            trace[0] = init
            m.setup(init)
            try:
                for i in range(nsteps):
                    if replay is None:
                        step = data.draw(m.step_strategy(), label='step')
                    else:
                        step = replay[1][i]
                    trace[1].append(step)
                    if m.apply(step) is False:
                        break
                m.finish()
            finally:
                m.teardown()
        finally:
            signal.alarm(0)
    except CaseTimeout:
        if sub.timeout_is_violation:
            ctx.fail('nontermination', 'history did not finish within %d s' %
                     sub.case_timeout)
        else:
            ctx.inconclusive_case('timeout')
    except (_ShrinkHit, HarnessError, KeyboardInterrupt):
        raise
    except Exception as exc:  # pylint: disable=broad-except
        from hypothesis.errors import HypothesisException
        if isinstance(exc, HypothesisException):
            raise
        ctx.fail_exc(exc, 'unexpected')


BATCH = 50


def _hypothesis_pass(ctx, sub, n, shrink, only_batch=None):
    """
    Run n examples in batches of BATCH (own derived seed per batch).  The
    soft wall-clock budget is checked between batches only: skipping inside a
    Hypothesis run would make data generation depend on the clock.
    """
    import hypothesis
    from hypothesis import given, strategies as st
    steps_max = sub.steps[0 if ctx.tier == 'quick' else 1]
    strategy = None
    if sub.machine is None:
        strategy = sub.strategy() if callable(sub.strategy) else sub.strategy
    nbatches = (n + BATCH - 1) // BATCH
    for b in range(nbatches):
        if only_batch is not None and b != only_batch:
            continue
        size = min(BATCH, n - b * BATCH)
        if not shrink and ctx.deadline and time.time() > ctx.deadline:
            ctx.skipped += size
            continue
        ctx.batch = b
        bseed = ctx.seed * 4099 + b

        if sub.machine is not None:
            @hypothesis.seed(bseed)
            @_hyp_settings(size, shrink)
            @given(st.data())
            def test(data):
                _run_history(ctx, sub, data, steps_max)
        else:
            @hypothesis.seed(bseed)
            @_hyp_settings(size, shrink)
            @given(strategy)
            def test(example):
                _run_one(ctx, sub, example)
        test()


def find_sub(mod, name):
    for s in mod.SUBCHECKS:
        if s.name == name:
            return s
    raise HarnessError('no subcheck %s' % name)


def run_task(task):
    "Worker entry: one shard of one sub-check.  Returns a result dict."
    prop, subname, shard, nshards, tier, seed, known = task
    t0 = time.time()
    try:
        signal.signal(signal.SIGALRM, _alarm_handler)
        sys.setrecursionlimit(3000)
        mod = importlib.import_module('pbt.' + prop.lower())
        sub = find_sub(mod, subname)
        n = sub.examples(tier)
        shard_seed = (seed * 1000 + shard) * 7919 + \
            zlib.crc32(subname.encode()) % 100000
        ctx = Ctx(prop, subname, tier, shard_seed, shard, nshards, known)
        ctx.n_examples = n
        ctx.deadline = t0 + sub.budget[0 if tier == 'quick' else 1]
        if sub.enumerate is not None:
            signal.alarm(0)
            sub.enumerate(ctx, shard, nshards)
        else:
            _hypothesis_pass(ctx, sub, n, shrink=False)
            # shrink pass: one per unknown signature (thorough tier only)
            unknown = [s for s in ctx.failures if s not in known]
            if tier == 'thorough' and unknown and \
                    os.environ.get('VERIF_NO_SHRINK') != '1':
                for sig in unknown[:3]:
                    sctx = Ctx(prop, subname, tier, shard_seed, shard,
                               nshards, known, target_sig=sig)
                    try:
                        _hypothesis_pass(sctx, sub, n, shrink=True,
                                         only_batch=ctx.failures[sig].get(
                                             'batch'))
                    except _ShrinkHit:
                        pass
                    except Exception:  # pylint: disable=broad-except
                        pass
                    f = sctx.failures.get(sig)
                    if f and f['size'] <= ctx.failures[sig]['size']:
                        # the last hit of the shrink pass is the minimal one
                        ctx.failures[sig] = f
        res = ctx.result()
        res['wall'] = time.time() - t0
        return res
    except BaseException as exc:  # pylint: disable=broad-except
        return dict(sub=subname, shard=shard, harness_error=''.join(
            traceback.format_exception(type(exc), exc, exc.__traceback__)),
            wall=time.time() - t0)


# ---------------------------------------------------------------------------
# known findings

def load_known(prop):
    """
    Returns dict signature -> (replay path, text) for `known:` lines of the
    property.
    """
    known = {}
    if not os.path.exists(KNOWN_FILE):
        return known
    with open(KNOWN_FILE, encoding='utf-8') as fp:
        for line in fp:
            line = line.strip()
            if not line.startswith('known:'):
                continue
            m = re.match(r'known:\s+property=(\S+)\s+signature=(\S+)\s+'
                         r'replay=(\S+)\s*(.*)$', line)
            if not m:
                raise HarnessError('bad line in known-findings.txt: ' + line)
            if m.group(1) == prop:
                known[m.group(2)] = (m.group(3), m.group(4))
    return known


# ---------------------------------------------------------------------------
# replay

def write_replay(prop, sig, fail, seed, tier):
    d = os.path.join(OUT, 'replays', prop)
    os.makedirs(d, exist_ok=True)
    sub = sig.split('/', 1)[0]
    path = os.path.join(d, slug(sig.replace('/', '__'), 120) + '.json')
    with open(path, 'w', encoding='utf-8') as fp:
        json.dump(dict(property=prop, subcheck=sub, signature=sig, seed=seed,
                       tier=tier, detail=fail['detail'],
                       example_repr=fail['example_repr'],
                       example_b64=fail['example_b64']), fp, indent=1)
    return os.path.relpath(path, OUT) if OUT == VERIF else path


def replay_file(prop, path):
    """
    Re-run the oracle of the recorded sub-check on the recorded example,
    bypassing Hypothesis.  Returns the Ctx.
    """
    with open(os.path.join(VERIF, path) if not os.path.isabs(path) else path,
              encoding='utf-8') as fp:
        rec = json.load(fp)
    if rec['property'] != prop:
        raise HarnessError('replay file is for %s' % rec['property'])
    signal.signal(signal.SIGALRM, _alarm_handler)
    mod = importlib.import_module('pbt.' + prop.lower())
    sub = find_sub(mod, rec['subcheck'])
    example = pickle.loads(base64.b64decode(rec['example_b64']))
    ctx = Ctx(prop, sub.name, 'quick', rec.get('seed', 0), 0, 1, {})
    if sub.machine is not None:
        _run_history(ctx, sub, None, 0, replay=example)
    elif sub.enumerate is not None:
        sub.replay(ctx, example)
    else:
        _run_one(ctx, sub, example)
    return ctx, rec


# ---------------------------------------------------------------------------
# main

def run_property(prop, tier, seed, only=None):
    t0 = time.time()
    mod = importlib.import_module('pbt.' + prop.lower())
    known = load_known(prop)
    tasks = []
    for sub in mod.SUBCHECKS:
        if only and sub.name not in only:
            continue
        ns = sub.shards(tier)
        for shard in range(ns):
            tasks.append((prop, sub.name, shard, ns, tier, seed,
                          set(known)))
    ctxm = multiprocessing.get_context('spawn')
    results = []
    with ctxm.Pool(min(NPROC, len(tasks)), maxtasksperchild=1) as pool:
        handles = [pool.apply_async(run_task, (t,)) for t in tasks]
        for t, h in zip(tasks, handles):
            sub = find_sub(mod, t[1])
            hard = sub.budget[0 if tier == 'quick' else 1] * 4 + 300
            try:
                results.append(h.get(timeout=hard))
            except multiprocessing.TimeoutError:
                results.append(dict(sub=t[1], shard=t[2], hard_timeout=True,
                                    wall=hard))
        pool.terminate()

    # regression corpus: saved failing inputs of earlier campaigns (fixed
    # defects) are replayed on every run
    corpus_n = 0
    cdir = os.path.join(VERIF, 'corpus', prop)
    if os.path.isdir(cdir) and not only:
        for fn in sorted(os.listdir(cdir)):
            if not fn.endswith('.json'):
                continue
            cctx, rec = replay_file(prop, os.path.join(cdir, fn))
            corpus_n += 1
            res = cctx.result()
            res['shard'] = -1
            res['wall'] = 0.0
            results.append(res)

    harness_errors = [r for r in results if 'harness_error' in r]
    hard_timeouts = [r for r in results if r.get('hard_timeout')]
    good = [r for r in results if 'evaluations' in r]

    evaluations = sum(r['evaluations'] for r in good)
    nontrivial = set()
    classes = Counter()
    hits = Counter()
    failures = {}
    persub = {}
    samples = []
    inconclusive = 0
    skipped = 0
    for r in good:
        nontrivial |= set((r['sub'], fp) for fp in r['nontrivial'])
        classes.update({r['sub'] + ':' + k: v
                        for k, v in r['classes'].items()})
        hits.update(r['hits'])
        inconclusive += r['inconclusive']
        skipped += r['skipped']
        ps = persub.setdefault(r['sub'], dict(evaluations=0, nontrivial=set(),
                                              shards=0, wall_s=0.0))
        ps['evaluations'] += r['evaluations']
        ps['nontrivial'] |= r['nontrivial']
        ps['shards'] += 1
        ps['wall_s'] = max(ps['wall_s'], round(r['wall'], 1))
        if r['shard'] == 0:
            samples.extend({'subcheck': r['sub'], 'case': s}
                           for s in r['samples'][:3])
        for sig, f in r['failures'].items():
            old = failures.get(sig)
            if old is None or f['size'] < old['size']:
                failures[sig] = f
    for ps in persub.values():
        ps['distinct_nontrivial'] = len(ps.pop('nontrivial'))
    for sub in mod.SUBCHECKS:
        if sub.enumerate is not None and sub.name in persub:
            persub[sub.name]['exhaustive'] = True

    out = []
    violations = 0
    known_hits = {}
    for sig in sorted(failures):
        if sig in known:
            known_hits[sig] = hits[sig]
            if not os.path.exists(os.path.join(VERIF, known[sig][0])):
                write_replay(prop, sig, failures[sig], seed, tier)
            continue
        violations += 1
        path = write_replay(prop, sig, failures[sig], seed, tier)
        out.append('VIOLATION property=%s replay=%s signature=%s hits=%d' %
                   (prop, path, sig, hits[sig]))
        out.append('  example: ' + failures[sig]['example_repr'][:800])
        out.append('  detail: ' +
                   failures[sig]['detail'].strip().replace('\n', '\n    ')
                   [:1500])
    for sig in sorted(known):
        out.append('KNOWN-FINDING: property=%s %s %s (hit by %d generated '
                   'cases in this run)' % (prop, sig, known[sig][1],
                                           hits.get(sig, 0)))

    wall = time.time() - t0
    coverage = dict(
        evaluations=evaluations,
        distinct_nontrivial=len(nontrivial),
        rule=mod.RULE,
        samples=samples[:12] or ['(no non-trivial case)'],
        subchecks=persub,
        classes=dict(sorted(classes.items())),
        excluded_known={s: hits.get(s, 0) for s in sorted(known)},
        inconclusive=inconclusive,
        skipped_after_time_budget=skipped,
        shards=len(tasks),
        corpus_replayed=corpus_n,
        sensitivity=getattr(mod, 'SENSITIVITY', []),
    )
    extra = getattr(mod, 'EXTRA_COVERAGE', None)
    if extra:
        # values may be computed from the per-sub-check results of this run
        coverage.update({k: (v(persub) if callable(v) else v)
                         for k, v in extra.items()})
    evidence = dict(property_id=prop, tier=tier, seed=seed,
                    level='exploration', coverage=coverage,
                    assumptions=list(mod.ASSUMPTIONS), wall_s=round(wall, 2),
                    violations=violations)
    os.makedirs(os.path.join(OUT, 'evidence'), exist_ok=True)
    with open(os.path.join(OUT, 'evidence', prop + '.json'), 'w',
              encoding='utf-8') as fp:
        json.dump(evidence, fp, indent=1, sort_keys=True, default=str)
    schema_error = None
    try:
        import jsonschema
        with open('/root/.vp/EVIDENCE.schema.json', encoding='utf-8') as fp:
            schema = json.load(fp)
        with open(os.path.join(OUT, 'evidence', prop + '.json'),
                  encoding='utf-8') as fp:
            jsonschema.validate(json.load(fp), schema)
    except (ImportError, OSError):
        pass
    except Exception as exc:  # pylint: disable=broad-except
        schema_error = str(exc)[:400]

    print('%s tier=%s seed=%d: %d evaluations, %d distinct non-trivial, '
          '%d sub-checks, %d shards, %.1f s, inconclusive=%d skipped=%d' %
          (prop, tier, seed, evaluations, len(nontrivial), len(persub),
           len(tasks), wall, inconclusive, skipped))
    for name, ps in persub.items():
        print('  %-28s evals=%-8d nontrivial=%-8d wall=%.1fs' %
              (name, ps['evaluations'], ps['distinct_nontrivial'],
               ps['wall_s']))
    for line in out:
        print(line)
    if harness_errors or hard_timeouts:
        for r in harness_errors:
            print('HARNESS-ERROR sub=%s shard=%s\n%s' %
                  (r['sub'], r['shard'], r['harness_error']))
        for r in hard_timeouts:
            print('HARNESS-ERROR sub=%s shard=%s exceeded the hard time '
                  'limit' % (r['sub'], r['shard']))
        if not violations:
            return 2
    if schema_error and not violations:
        print('HARNESS-ERROR evidence file does not match EVIDENCE.schema.'
              'json: ' + schema_error)
        return 2
    return 1 if violations else 0


def main(argv=None):
    import argparse
    ap = argparse.ArgumentParser()
    ap.add_argument('property')
    ap.add_argument('--tier', default=os.environ.get('VERIF_TIER', 'quick'),
                    choices=['quick', 'thorough'])
    ap.add_argument('--replay')
    ap.add_argument('--only', action='append',
                    help='run only this sub-check (development aid)')
    args = ap.parse_args(argv)
    prop = args.property.upper()
    seed = int(os.environ.get('VERIF_SEED', '1') or '1')
    try:
        if args.replay:
            ctx, rec = replay_file(prop, args.replay)
            known = load_known(prop)
            if ctx.failures:
                rc = 0
                for sig in ctx.failures:
                    if sig in known:
                        print('KNOWN-FINDING: property=%s %s %s' %
                              (prop, sig, known[sig][1]))
                    else:
                        rc = 1
                        print('VIOLATION property=%s replay=%s signature=%s'
                              % (prop, args.replay, sig))
                        print('  detail: ' + ctx.failures[sig]['detail'])
                return rc
            print('replay of %s: property holds on this example' %
                  args.replay)
            return 0
        return run_property(prop, args.tier, seed, args.only)
    except HarnessError as exc:
        print('HARNESS-ERROR %s' % exc)
        return 2
    except Exception:  # pylint: disable=broad-except
        print('HARNESS-ERROR\n' + traceback.format_exc())
        return 2
